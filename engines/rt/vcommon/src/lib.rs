//! Shared plumbing for the runtime monitors: seeded RNG, argument parsing, the reporter that turns
//! oracle judgements into JSON lines for `bin/check`, and a quiet `catch_unwind`.
//!
//! Output protocol (stdout, one JSON object per line):
//!   {"t":"violation","prop":..,"sig":..,"what":..,"case":{..}}
//!   {"t":"summary","prop":..,"evaluations":..,"distinct_nontrivial":..,"rule":..,"samples":[..],
//!    "exhaustive":bool,"min_obs_ok":bool,"min_obs_reason":[..],"extra":{..},"violations":n}
//! Exit status of a monitor is 0 unless the harness itself failed (3 = inconclusive).

use std::collections::hash_map::DefaultHasher;
use std::collections::{BTreeMap, HashSet};
use std::hash::{Hash, Hasher};
use std::panic::{AssertUnwindSafe, catch_unwind};
use std::sync::atomic::{AtomicBool, Ordering};

pub use serde_json::{self, Value, json};

// ---------------------------------------------------------------------------------------------
// RNG

#[derive(Clone, Debug)]
pub struct Rng(pub u64);

impl Rng {
    pub fn new(seed: u64) -> Self {
        Rng(seed ^ 0x9E37_79B9_7F4A_7C15)
    }
    /// Derive an independent stream (e.g. per family / per case index).
    pub fn fork(&self, salt: u64) -> Rng {
        let mut r = Rng(self.0 ^ salt.wrapping_mul(0xD6E8_FEB8_6659_FD93));
        r.next_u64();
        r
    }
    pub fn next_u64(&mut self) -> u64 {
        self.0 = self.0.wrapping_add(0x9E37_79B9_7F4A_7C15);
        let mut z = self.0;
        z = (z ^ (z >> 30)).wrapping_mul(0xBF58_476D_1CE4_E5B9);
        z = (z ^ (z >> 27)).wrapping_mul(0x94D0_49BB_1331_11EB);
        z ^ (z >> 31)
    }
    /// Uniform in 0..n (n > 0).
    pub fn below(&mut self, n: usize) -> usize {
        debug_assert!(n > 0);
        (self.next_u64() % (n as u64)) as usize
    }
    /// Uniform in lo..=hi.
    pub fn range(&mut self, lo: i64, hi: i64) -> i64 {
        lo + (self.next_u64() % ((hi - lo + 1) as u64)) as i64
    }
    /// True with probability num/den.
    pub fn chance(&mut self, num: u32, den: u32) -> bool {
        (self.next_u64() % den as u64) < num as u64
    }
    pub fn choose<'a, T>(&mut self, xs: &'a [T]) -> &'a T {
        &xs[self.below(xs.len())]
    }
    pub fn shuffle<T>(&mut self, xs: &mut [T]) {
        for i in (1..xs.len()).rev() {
            let j = self.below(i + 1);
            xs.swap(i, j);
        }
    }
}

// ---------------------------------------------------------------------------------------------
// Args

#[derive(Clone, Copy, Debug, PartialEq, Eq)]
pub enum Tier {
    Quick,
    Thorough,
    /// Tiny budget for runs under Miri (each op costs ms).
    Miri,
}

#[derive(Clone, Debug)]
pub struct Args {
    pub prop: String,
    pub tier: Tier,
    pub seed: u64,
    pub replay: Option<String>,
    /// (index, count) — monitors that shard do `case_index % count == index`.
    pub shard: (usize, usize),
    pub rest: Vec<String>,
}

impl Args {
    pub fn parse() -> Args {
        let mut a = Args {
            prop: String::new(),
            tier: Tier::Quick,
            seed: 1,
            replay: None,
            shard: (0, 1),
            rest: vec![],
        };
        let mut it = std::env::args().skip(1);
        while let Some(x) = it.next() {
            match x.as_str() {
                "--prop" => a.prop = it.next().expect("--prop X"),
                "--tier" => {
                    a.tier = match it.next().expect("--tier T").as_str() {
                        "quick" => Tier::Quick,
                        "thorough" => Tier::Thorough,
                        "miri" => Tier::Miri,
                        t => panic!("bad tier {t}"),
                    }
                }
                "--seed" => a.seed = it.next().expect("--seed N").parse().expect("seed int"),
                "--replay" => a.replay = Some(it.next().expect("--replay F")),
                "--shard" => {
                    let s = it.next().expect("--shard i/n");
                    let (i, n) = s.split_once('/').expect("i/n");
                    a.shard = (i.parse().unwrap(), n.parse().unwrap());
                }
                _ => a.rest.push(x),
            }
        }
        a
    }
    /// For `#[test]`-hosted monitors (no argv): VERIF_PROP, VERIF_TIER, VERIF_SEED, VERIF_REPLAY.
    pub fn from_env() -> Args {
        let tier = match std::env::var("VERIF_TIER").as_deref() {
            Ok("thorough") => Tier::Thorough,
            Ok("miri") => Tier::Miri,
            _ => Tier::Quick,
        };
        Args {
            prop: std::env::var("VERIF_PROP").unwrap_or_default(),
            tier,
            seed: std::env::var("VERIF_SEED").ok().and_then(|s| s.parse().ok()).unwrap_or(1),
            replay: std::env::var("VERIF_REPLAY").ok().filter(|s| !s.is_empty()),
            shard: (0, 1),
            rest: vec![],
        }
    }
    pub fn budget(&self, quick: usize, thorough: usize, miri: usize) -> usize {
        match self.tier {
            Tier::Quick => quick,
            Tier::Thorough => thorough,
            Tier::Miri => miri,
        }
    }
    pub fn rng(&self) -> Rng {
        Rng::new(self.seed)
    }
    pub fn in_shard(&self, index: usize) -> bool {
        index % self.shard.1 == self.shard.0
    }
    /// Load the "case" object out of a replay descriptor written by bin/check.
    pub fn replay_case(&self) -> Option<Value> {
        let p = self.replay.as_ref()?;
        let txt = std::fs::read_to_string(p).expect("read replay file");
        let v: Value = serde_json::from_str(&txt).expect("replay json");
        Some(v.get("case").cloned().unwrap_or(v))
    }
}

// ---------------------------------------------------------------------------------------------
// Hashing

pub fn hash_of<T: Hash + ?Sized>(t: &T) -> u64 {
    let mut h = DefaultHasher::new();
    t.hash(&mut h);
    h.finish()
}

// ---------------------------------------------------------------------------------------------
// Quiet catch_unwind

static QUIET: AtomicBool = AtomicBool::new(false);

/// Install (once) a panic hook that stays silent while `catch` is active on this process.
pub fn install_quiet_panic_hook() {
    static ONCE: std::sync::Once = std::sync::Once::new();
    ONCE.call_once(|| {
        let prev = std::panic::take_hook();
        std::panic::set_hook(Box::new(move |info| {
            if !QUIET.load(Ordering::Relaxed) {
                prev(info);
            }
        }));
    });
}

/// Run `f`, turning a panic into `Err(message)`.
pub fn catch<T>(f: impl FnOnce() -> T) -> Result<T, String> {
    install_quiet_panic_hook();
    let was = QUIET.swap(true, Ordering::Relaxed);
    let r = catch_unwind(AssertUnwindSafe(f));
    QUIET.store(was, Ordering::Relaxed);
    r.map_err(|e| {
        if let Some(s) = e.downcast_ref::<&str>() {
            s.to_string()
        } else if let Some(s) = e.downcast_ref::<String>() {
            s.clone()
        } else {
            "<non-string panic>".to_string()
        }
    })
}

// ---------------------------------------------------------------------------------------------
// Reporter

/// Emit one protocol line with a single write (many Miri executions may share one stdout; pieces of
/// lines streamed through the line buffer would otherwise interleave and be dropped by the parser).
pub fn emit_line(v: &Value) {
    use std::io::Write;
    let mut line = v.to_string();
    line.push('\n');
    let out = std::io::stdout();
    let mut lock = out.lock();
    let _ = lock.write_all(line.as_bytes());
    let _ = lock.flush();
}

pub struct Reporter {
    pub prop: String,
    pub evaluations: u64,
    distinct: HashSet<u64>,
    samples: Vec<Value>,
    sample_cap: usize,
    seen_for_sampling: u64,
    sample_rng: Rng,
    violations: u64,
    printed_per_sig: BTreeMap<String, u32>,
    extra: BTreeMap<String, Value>,
    counters: BTreeMap<String, u64>,
    min_obs_fail: Vec<String>,
}

impl Reporter {
    pub fn new(prop: &str, seed: u64) -> Reporter {
        Reporter {
            prop: prop.to_string(),
            evaluations: 0,
            distinct: HashSet::new(),
            samples: vec![],
            sample_cap: 6,
            seen_for_sampling: 0,
            sample_rng: Rng::new(seed ^ 0x5A17),
            violations: 0,
            printed_per_sig: BTreeMap::new(),
            extra: BTreeMap::new(),
            counters: BTreeMap::new(),
            min_obs_fail: vec![],
        }
    }
    /// One oracle judgement was made.
    #[inline]
    pub fn eval(&mut self) {
        self.evaluations += 1;
    }
    #[inline]
    pub fn evals(&mut self, n: u64) {
        self.evaluations += n;
    }
    /// Record a case that is non-trivial by the property's rule, by its canonical hash.
    #[inline]
    pub fn nontrivial(&mut self, h: u64) {
        self.distinct.insert(h);
    }
    pub fn distinct_count(&self) -> usize {
        self.distinct.len()
    }
    /// Bump a named counter (reported under extra.counters).
    #[inline]
    pub fn count(&mut self, name: &str) {
        *self.counters.entry(name.to_string()).or_insert(0) += 1;
    }
    pub fn count_n(&mut self, name: &str, n: u64) {
        *self.counters.entry(name.to_string()).or_insert(0) += n;
    }
    pub fn counter(&self, name: &str) -> u64 {
        self.counters.get(name).copied().unwrap_or(0)
    }
    /// Offer a sample; a reservoir keeps `sample_cap` of them. The closure is only run if kept.
    pub fn sample(&mut self, f: impl FnOnce() -> Value) {
        self.seen_for_sampling += 1;
        if self.samples.len() < self.sample_cap {
            self.samples.push(f());
        } else {
            let j = self.sample_rng.below(self.seen_for_sampling as usize);
            if j < self.sample_cap {
                self.samples[j] = f();
            }
        }
    }
    pub fn set_sample_cap(&mut self, n: usize) {
        self.sample_cap = n;
    }
    pub fn extra(&mut self, key: &str, v: Value) {
        self.extra.insert(key.to_string(), v);
    }
    /// Declare a minimum-observation requirement; if `ok` is false the run is inconclusive.
    pub fn require(&mut self, ok: bool, reason: &str) {
        if !ok {
            self.min_obs_fail.push(reason.to_string());
        }
    }
    /// Report a violation. `sig` is the stable signature (`Cxx|site|kind|class`) used for
    /// known-finding matching; `case` must be a self-contained replay descriptor.
    pub fn violation(&mut self, sig: &str, what: &str, case: Value) {
        self.violations += 1;
        let n = self.printed_per_sig.entry(sig.to_string()).or_insert(0);
        *n += 1;
        if *n <= 3 {
            emit_line(&json!({"t":"violation","prop":self.prop,"sig":sig,"what":what,"case":case}));
        }
    }
    pub fn violations(&self) -> u64 {
        self.violations
    }
    pub fn finish(mut self, rule: &str, exhaustive: bool) {
        let per_sig: BTreeMap<String, u32> = self.printed_per_sig.clone();
        if !self.counters.is_empty() {
            let c = json!(self.counters);
            self.extra.insert("counters".into(), c);
        }
        if !per_sig.is_empty() {
            self.extra.insert("violations_by_signature".into(), json!(per_sig));
        }
        emit_line(&json!({
                "t":"summary","prop":self.prop,"evaluations":self.evaluations,
                "distinct_nontrivial":self.distinct.len(),"rule":rule,"samples":self.samples,
                "exhaustive":exhaustive,"min_obs_ok":self.min_obs_fail.is_empty(),
                "min_obs_reason":self.min_obs_fail,"extra":self.extra,"violations":self.violations
            }));
    }
}
