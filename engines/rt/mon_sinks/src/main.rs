//! C14 — `sinktools` sink adaptors: every item reaches the sink it is addressed to exactly once and in
//! order, for every readiness pattern of the downstream sinks; `start_send` only after `poll_ready`
//! succeeded; lazy sinks/sources initialise at most once and lose nothing sent before/during init.
//!
//! The real adaptors are driven by a contract-obeying driver on a hand-written executor with counting
//! wakers; the downstream is a scripted `CheckSink` that records every call. See `judge.rs` for the oracle.

mod case;
mod families;
mod judge;
mod world;

use case::{ALL_FAMS, Case, Fam};
use vcommon::{Args, Reporter, Rng, Tier, hash_of, json};
use world::{Plan, SinkScript};

// ---------------------------------------------------------------------------------------------
// Enumeration helpers

/// All answer scripts with at most `k` Pendings among the first `l` scripted calls (canonical form: no
/// trailing Ready, because an exhausted script answers Ready).
fn placements(l: usize, k: usize) -> Vec<Vec<bool>> {
    fn rec(start: usize, l: usize, k: usize, cur: &mut Vec<usize>, out: &mut Vec<Vec<bool>>) {
        let mut v = vec![false; cur.last().map(|p| p + 1).unwrap_or(0)];
        for &p in cur.iter() {
            v[p] = true;
        }
        out.push(v);
        if cur.len() == k {
            return;
        }
        for p in start..l {
            cur.push(p);
            rec(p + 1, l, k, cur, out);
            cur.pop();
        }
    }
    let mut out = vec![];
    rec(0, l, k, &mut vec![], &mut out);
    out
}

/// j Pendings then Ready, j = 0..=k.
fn leading(k: usize) -> Vec<Vec<bool>> {
    (0..=k).map(|j| vec![true; j]).collect()
}

/// All sequences over 0..alpha of length 0..=n.
fn seqs(alpha: u8, n: usize) -> Vec<Vec<u8>> {
    let mut out: Vec<Vec<u8>> = vec![vec![]];
    let mut last: Vec<Vec<u8>> = vec![vec![]];
    for _ in 0..n {
        let mut next = vec![];
        for s in &last {
            for a in 0..alpha {
                let mut t = s.clone();
                t.push(a);
                next.push(t);
            }
        }
        out.extend(next.iter().cloned());
        last = next;
    }
    out
}

/// One sequence per length (for adaptors whose behaviour does not depend on the values).
fn lens(n: usize) -> Vec<Vec<u8>> {
    (0..=n).map(|l| (0..l).map(|i| (i % 3) as u8).collect()).collect()
}

/// All vectors of `slots` counts with total ≤ k.
fn count_vectors(slots: usize, k: usize) -> Vec<Vec<u8>> {
    fn rec(i: usize, slots: usize, left: usize, cur: &mut Vec<u8>, out: &mut Vec<Vec<u8>>) {
        if i == slots {
            out.push(cur.clone());
            return;
        }
        for c in 0..=left {
            cur.push(c as u8);
            rec(i + 1, slots, left - c, cur, out);
            cur.pop();
        }
    }
    let mut out = vec![];
    rec(0, slots, k, &mut vec![], &mut out);
    out
}

/// Init scripts: all sequences over {1 = self-wake, 2 = external event} of length ≤ k.
fn init_scripts(k: usize) -> Vec<Vec<u8>> {
    seqs(2, k).into_iter().map(|s| s.into_iter().map(|x| x + 1).collect()).collect()
}

struct Bounds {
    /// ≤ k Pendings per inner sink in the ready phase
    k_ready: usize,
    /// ≤ k Pendings per inner sink in the flush phase and in the close phase
    k_fc: usize,
    /// fickle flush/close scripts may pend again after a Ready (only observable with several inner sinks
    /// or repeated flushes)
    fickle_fc_placements: bool,
}

/// Every script combination for one inner sink that is going to receive `n_i` items.
fn sink_scripts(n_i: usize, extra_ready: usize, fickle: bool, b: &Bounds) -> Vec<SinkScript> {
    let ready = placements(n_i + extra_ready, b.k_ready);
    let fc = if fickle && b.fickle_fc_placements { placements(b.k_fc + 1, b.k_fc) } else { leading(b.k_fc) };
    let mut out = Vec::with_capacity(ready.len() * fc.len() * fc.len());
    for r in &ready {
        for f in &fc {
            for c in &fc {
                out.push(SinkScript { ready: r.clone(), flush: f.clone(), close: c.clone(), err: None });
            }
        }
    }
    out
}

/// Call `f` with every element of the cartesian product of the per-sink script lists.
fn product(lists: &[Vec<SinkScript>], f: &mut dyn FnMut(&[SinkScript])) {
    fn rec(i: usize, lists: &[Vec<SinkScript>], cur: &mut Vec<SinkScript>, f: &mut dyn FnMut(&[SinkScript])) {
        if i == lists.len() {
            f(cur);
            return;
        }
        for s in &lists[i] {
            cur.push(s.clone());
            rec(i + 1, lists, cur, f);
            cur.pop();
        }
    }
    rec(0, lists, &mut vec![], f);
}

// ---------------------------------------------------------------------------------------------
// Running and reporting one case

#[derive(Default, Clone)]
struct FamStats {
    runs: u64,
    nontrivial: u64,
    ok: u64,
    err: u64,
    panic: u64,
    stuck: u64,
    inner_pendings: u64,
    init_pended: u64,
    both_parked_on_init: u64,
    pending_without_downstream_pending: u64,
    repoll_after_ready: u64,
    pending_after_ready_credit: u64,
    fickle: u64,
}

struct Ctx {
    rep: Reporter,
    stats: Vec<FamStats>,
    per_sig: std::collections::BTreeMap<String, u64>,
    verbose: bool,
}

impl Ctx {
    fn check(&mut self, c: &Case) {
        let run = match vcommon::catch(|| families::run_case(c)) {
            Ok(r) => r,
            Err(m) => {
                // the harness itself must not panic: the driver catches panics of the code under test
                eprintln!("harness failure: run_case panicked: {m}\ncase: {}", c.to_json());
                std::process::exit(3);
            }
        };
        let v = judge::judge(c, &run);
        if self.verbose {
            for e in run.w.borrow().log.iter() {
                eprintln!("  {e:?}");
            }
            eprintln!("  exec: {:?}", run.exec);
            eprintln!("  verdict: {v:?}");
        }
        self.rep.evals(v.evals);
        let st = &mut self.stats[c.fam as usize];
        st.runs += 1;
        st.fickle += c.fickle as u64;
        match v.outcome {
            "ok" => st.ok += 1,
            "err" => st.err += 1,
            "panic" => st.panic += 1,
            _ => st.stuck += 1,
        }
        st.inner_pendings += v.inner_pendings as u64;
        st.init_pended += v.init_pended as u64;
        st.pending_without_downstream_pending += v.pending_without_downstream_pending as u64;
        st.repoll_after_ready += v.repoll_after_ready as u64;
        st.pending_after_ready_credit += v.pending_after_ready_credit as u64;
        if c.fam == Fam::LazySinkSource && run.exec.choice_points > 1 && v.init_pended {
            st.both_parked_on_init += 1;
        }
        if v.nontrivial {
            st.nontrivial += 1;
            self.rep.nontrivial(hash_of(c));
            let out = v.outcome;
            self.rep.sample(|| json!({"case": c.to_json(), "outcome": out}));
        }
        for f in &v.findings {
            // input class: the two-task race that needs a driver yielding between poll_ready and start_send
            let gap_dependent = f.kind.starts_with("panic in start_send") || f.kind.starts_with("start_send without");
            let class = if gap_dependent && c.fam == Fam::LazySinkSource && c.plan.gap_yield && c.with_reader {
                "|driver yields between poll_ready and start_send while the source half is polled"
            } else {
                ""
            };
            let sig = format!("C14|{}|{}{}", c.fam.name(), f.kind, class);
            let n = self.per_sig.entry(sig.clone()).or_insert(0);
            *n += 1;
            let case = if *n <= 3 { c.to_json() } else { vcommon::Value::Null };
            self.rep.violation(&sig, &f.what, case);
        }
    }
}

// ---------------------------------------------------------------------------------------------
// Bounded-exhaustive sweeps

struct Sweep {
    n_max: usize,
    /// ≤ k Pendings per phase: single-sink families, and sticky two-sink families
    k: usize,
    /// fickle two-sink families: k by number of input items
    k2_fickle: [usize; 5],
    /// SinkBuild chains with two inner sinks: (max items of chain_unzip, max items of send_stream…demux, k sticky, k fickle)
    chain2: (usize, usize, usize, usize),
    /// three-sink demux_var: k by number of input items (sticky, fickle)
    k3_sticky: [usize; 5],
    k3_fickle: [usize; 5],
    n_max3: usize,
    k_init: usize,
    n_lss: usize,
    sched_len: u8,
}

fn plans(n: usize, rich: bool) -> Vec<Plan> {
    let mut v = vec![
        Plan { flush_after: 0, final_flush: true, gap_yield: false },
        Plan { flush_after: 0, final_flush: false, gap_yield: false },
    ];
    if n >= 1 {
        v.push(Plan { flush_after: 1, final_flush: true, gap_yield: false });
    }
    if rich {
        for i in 1..n {
            v.push(Plan { flush_after: 1 << i, final_flush: true, gap_yield: false });
        }
        if n >= 2 {
            v.push(Plan { flush_after: (1 << n) - 1, final_flush: false, gap_yield: false });
        }
    }
    v
}

fn n_for_sink(c: &Case, s: usize) -> usize {
    case::expected_per_item(c).iter().flatten().filter(|(k, _)| *k as usize == s).count()
}

fn sweep_plain(ctx: &mut Ctx, sw: &Sweep) {
    // single inner sink, value-sensitive
    for &fam in &[Fam::Map, Fam::Filter, Fam::FilterMap, Fam::FlatMap, Fam::Flatten, Fam::Chain, Fam::SendIterChain] {
        for items in seqs(3, sw.n_max) {
            for fickle in [false, true] {
                for plan in plans(items.len(), false) {
                    if fam.self_driving() && (plan.flush_after != 0 || !plan.final_flush) {
                        continue;
                    }
                    let mut c = Case::new(fam);
                    c.items = items.clone();
                    c.fickle = fickle;
                    c.plan = plan;
                    let n0 = n_for_sink(&c, 0);
                    let b = Bounds { k_ready: sw.k, k_fc: sw.k, fickle_fc_placements: plan.flush_after != 0 };
                    for s in sink_scripts(n0, if fam.self_driving() { 2 } else { 1 }, fickle, &b) {
                        c.sinks[0] = s;
                        ctx.check(&c);
                    }
                }
            }
        }
    }
    // single inner sink, value-insensitive: one sequence per length
    for &fam in &[Fam::Inspect, Fam::SendIter] {
        for items in lens(sw.n_max) {
            for fickle in [false, true] {
                for plan in plans(items.len(), true) {
                    if fam.self_driving() && (plan.flush_after != 0 || !plan.final_flush) {
                        continue;
                    }
                    let mut c = Case::new(fam);
                    c.items = items.clone();
                    c.fickle = fickle;
                    c.plan = plan;
                    let b = Bounds { k_ready: sw.k, k_fc: sw.k, fickle_fc_placements: true };
                    for s in sink_scripts(items.len(), if fam.self_driving() { 2 } else { 1 }, fickle, &b) {
                        c.sinks[0] = s;
                        ctx.check(&c);
                    }
                }
            }
        }
    }
    // send_stream: stream pendings × sink scripts
    for items in lens(sw.n_max) {
        for fickle in [false, true] {
            for sp in count_vectors(items.len() + 1, sw.k) {
                let mut c = Case::new(Fam::SendStream);
                c.items = items.clone();
                c.fickle = fickle;
                c.stream_pend = sp;
                let b = Bounds { k_ready: sw.k, k_fc: sw.k, fickle_fc_placements: false };
                for s in sink_scripts(items.len(), 2, fickle, &b) {
                    c.sinks[0] = s;
                    ctx.check(&c);
                }
            }
        }
    }
    // closures as terminals (never pend)
    for items in seqs(3, sw.n_max) {
        for plan in plans(items.len(), false) {
            let mut c = Case::new(Fam::ForEach);
            c.items = items.clone();
            c.plan = plan;
            ctx.check(&c);
            for fv in 0..=3 {
                for fam in [Fam::TryForEach, Fam::ChainTry] {
                    let mut c = Case::new(fam);
                    c.items = items.clone();
                    c.plan = plan;
                    c.fail_val = fv;
                    ctx.check(&c);
                }
            }
        }
    }
}

fn sweep_multi(ctx: &mut Ctx, sw: &Sweep) {
    // two inner sinks: full product of per-sink placements
    for &fam in &[Fam::Unzip, Fam::DemuxMap, Fam::DemuxMapLazy, Fam::DemuxVar2, Fam::ChainUnzip, Fam::SendStreamDemux] {
        let chain = matches!(fam, Fam::ChainUnzip | Fam::SendStreamDemux);
        let item_seqs = match fam {
            Fam::Unzip => lens(sw.n_max),
            Fam::ChainUnzip => seqs(3, sw.chain2.0),
            Fam::SendStreamDemux => seqs(3, sw.chain2.1),
            _ => seqs(2, sw.n_max),
        };
        for items in item_seqs {
            for fickle in [false, true] {
                let k = match (chain, fickle) {
                    (true, false) => sw.chain2.2,
                    (true, true) => sw.chain2.3,
                    (false, false) => sw.k,
                    (false, true) => sw.k2_fickle[items.len()],
                };
                for plan in plans(items.len(), false) {
                    if fam.self_driving() && (plan.flush_after != 0 || !plan.final_flush) {
                        continue;
                    }
                    // the alternative driver plans (mid-stream flush, close without flush) run with the
                    // sticky flavour and ≤ 1 Pending per phase to keep the product affordable
                    let alt = plan.flush_after != 0 || !plan.final_flush;
                    if fickle && alt {
                        continue;
                    }
                    let mut c = Case::new(fam);
                    c.items = items.clone();
                    c.fickle = fickle;
                    c.plan = plan;
                    let kk = if alt { k.min(1) } else { k };
                    let b = Bounds { k_ready: kk, k_fc: kk, fickle_fc_placements: true };
                    let extra = if fam.self_driving() { 2 } else { 1 };
                    let lists: Vec<Vec<SinkScript>> =
                        (0..2).map(|s| sink_scripts(n_for_sink(&c, s), extra, fickle, &b)).collect();
                    let sps = if fam == Fam::SendStreamDemux { count_vectors(items.len() + 1, 1) } else { vec![vec![]] };
                    for sp in sps {
                        c.stream_pend = sp;
                        let mut cc = c.clone();
                        product(&lists, &mut |ss| {
                            cc.sinks.clear();
                            cc.sinks.extend_from_slice(ss);
                            ctx.check(&cc);
                        });
                    }
                }
            }
        }
    }
    // three inner sinks
    for items in seqs(3, sw.n_max3) {
        for fickle in [false, true] {
            let k = if fickle { sw.k3_fickle[items.len()] } else { sw.k3_sticky[items.len()] };
            let mut c = Case::new(Fam::DemuxVar3);
            c.items = items.clone();
            c.fickle = fickle;
            let b = Bounds { k_ready: k, k_fc: k, fickle_fc_placements: true };
            let lists: Vec<Vec<SinkScript>> = (0..3).map(|s| sink_scripts(n_for_sink(&c, s), 1, fickle, &b)).collect();
            let mut cc = c.clone();
            product(&lists, &mut |ss| {
                cc.sinks.clear();
                cc.sinks.extend_from_slice(ss);
                ctx.check(&cc);
            });
        }
    }
}

fn sweep_errors(ctx: &mut Ctx, sw: &Sweep) {
    // one injected error: every inner sink × phase × call index, with ≤ 1 Pending per phase
    for &fam in ALL_FAMS {
        if fam.n_sinks() == 0 {
            continue;
        }
        let n_max = sw.n_max.min(3);
        let item_seqs = if fam.keyed() {
            seqs(if fam == Fam::SendStreamDemux { 3 } else { fam.n_sinks() as u8 }, n_max)
        } else if matches!(fam, Fam::Filter | Fam::FilterMap | Fam::FlatMap | Fam::Flatten | Fam::Chain | Fam::ChainUnzip | Fam::SendIterChain) {
            seqs(3, n_max)
        } else {
            lens(n_max)
        };
        for items in item_seqs {
            for fickle in [false, true] {
                for es in 0..fam.n_sinks() {
                    for phase in 0..4u8 {
                        for at in 0..=(items.len() as u8 + 1).min(4) {
                            let mut c = Case::new(fam);
                            c.items = items.clone();
                            c.fickle = fickle;
                            if fam.lazy() {
                                c.init = vec![2];
                                c.src_items = 1;
                            }
                            let b = Bounds { k_ready: 1, k_fc: 1, fickle_fc_placements: false };
                            let ni = n_for_sink(&c, es);
                            for mut s in sink_scripts(ni, 1, fickle, &b) {
                                s.err = Some((phase, at));
                                c.sinks[es] = s;
                                ctx.check(&c);
                            }
                        }
                    }
                }
            }
        }
    }
}

fn sweep_lazy(ctx: &mut Ctx, sw: &Sweep) {
    let inits = init_scripts(sw.k_init);
    // LazySink
    for items in lens(sw.n_max) {
        for fickle in [false, true] {
            for init in &inits {
                for init_err in [false, true] {
                    for plan in plans(items.len(), true) {
                        let mut c = Case::new(Fam::LazySink);
                        c.items = items.clone();
                        c.fickle = fickle;
                        c.init = init.clone();
                        c.init_err = init_err;
                        c.plan = plan;
                        let b = Bounds { k_ready: sw.k, k_fc: sw.k.min(2), fickle_fc_placements: plan.flush_after != 0 };
                        let scripts = if init_err { vec![SinkScript::default()] } else { sink_scripts(items.len(), 1, fickle, &b) };
                        for s in scripts {
                            c.sinks[0] = s;
                            ctx.check(&c);
                        }
                    }
                }
            }
        }
    }
    // LazySource
    for n in 0..=sw.n_max {
        for init in &inits {
            for init_err in [false, true] {
                for sp in count_vectors(n + 1, sw.k) {
                    let mut c = Case::new(Fam::LazySource);
                    c.src_items = n as u8;
                    c.init = init.clone();
                    c.init_err = init_err;
                    c.stream_pend = sp;
                    ctx.check(&c);
                    if init_err {
                        break;
                    }
                }
            }
        }
    }
    // LazySinkSource: two tasks, every schedule bit-string of the given length
    for items in lens(sw.n_lss) {
        for fickle in [false, true] {
            for init in &inits {
                for init_err in [false, true] {
                    for plan in plans(items.len(), false) {
                        for gap in [false, true] {
                            if gap && items.is_empty() {
                                continue;
                            }
                            for (with_reader, src_items, sps) in [
                                (false, 0u8, vec![vec![]]),
                                (true, 0, vec![vec![], vec![1]]),
                                (true, 2, vec![vec![], vec![1, 0, 0], vec![0, 1, 0], vec![0, 0, 1]]),
                            ] {
                                for sp in sps {
                                    let b = Bounds { k_ready: sw.k.min(2), k_fc: 1, fickle_fc_placements: false };
                                    let scripts = if init_err { vec![SinkScript::default()] } else { sink_scripts(items.len(), 1, fickle, &b) };
                                    let scheds: u32 = if with_reader { 1 << sw.sched_len } else { 1 };
                                    for s in scripts {
                                        for sched in 0..scheds {
                                            let mut c = Case::new(Fam::LazySinkSource);
                                            c.items = items.clone();
                                            c.fickle = fickle;
                                            c.init = init.clone();
                                            c.init_err = init_err;
                                            c.plan = Plan { gap_yield: gap, ..plan };
                                            c.with_reader = with_reader;
                                            c.src_items = src_items;
                                            c.stream_pend = sp.clone();
                                            c.sched = sched;
                                            c.sched_len = if with_reader { sw.sched_len } else { 0 };
                                            c.sinks[0] = s.clone();
                                            ctx.check(&c);
                                        }
                                    }
                                }
                            }
                        }
                    }
                }
            }
        }
    }
}

// ---------------------------------------------------------------------------------------------
// Random cases

fn random_case(rng: &mut Rng, max_len: usize) -> Case {
    let fam = *rng.choose(ALL_FAMS);
    let mut c = Case::new(fam);
    let n = rng.below(max_len + 1);
    let alpha = if fam.keyed() { if fam == Fam::SendStreamDemux { 3 } else { fam.n_sinks() } } else { 3 };
    c.items = (0..n).map(|_| rng.below(alpha) as u8).collect();
    c.fickle = rng.chance(1, 2);
    let dens = rng.below(61) as u32; // percent
    let script = |rng: &mut Rng, len: usize| -> Vec<bool> { (0..len).map(|_| rng.chance(dens, 100)).collect() };
    for s in 0..fam.n_sinks() {
        let ni = n_for_sink(&c, s);
        let (lr, lf, lc) = (ni + 2 + rng.below(4), 1 + rng.below(6), 1 + rng.below(4));
        c.sinks[s] = SinkScript { ready: script(rng, lr), flush: script(rng, lf), close: script(rng, lc), err: None };
    }
    if fam.n_sinks() > 0 && rng.chance(15, 100) {
        let s = rng.below(fam.n_sinks());
        c.sinks[s].err = Some((rng.below(4) as u8, rng.below(n_for_sink(&c, s) + 2).min(250) as u8));
    }
    let mut mask = 0u32;
    if rng.chance(1, 2) {
        for i in 0..n.min(32) {
            if rng.chance(1, 4) {
                mask |= 1 << i;
            }
        }
    }
    c.plan = Plan { flush_after: mask, final_flush: rng.chance(4, 5), gap_yield: rng.chance(3, 10) };
    if fam.lazy() {
        c.init = (0..rng.below(5)).map(|_| 1 + rng.below(2) as u8).collect();
        c.init_err = rng.chance(15, 100);
        c.src_items = rng.below(7) as u8;
        c.with_reader = fam == Fam::LazySinkSource && rng.chance(85, 100);
        c.sched = rng.next_u64() as u32;
        c.sched_len = 24;
    }
    if fam.uses_stream_input() {
        c.stream_pend = (0..=n).map(|_| if rng.chance(dens, 100) { 1 + rng.below(2) as u8 } else { 0 }).collect();
    } else if fam.lazy() {
        c.stream_pend =
            (0..=c.src_items).map(|_| if rng.chance(dens, 100) { 1 + rng.below(2) as u8 } else { 0 }).collect();
    }
    if fam.func_terminal() && fam != Fam::ForEach {
        c.fail_val = if rng.chance(1, 2) { 3 } else { rng.below(3) as u8 };
    }
    c
}

// ---------------------------------------------------------------------------------------------

fn main() {
    let args = Args::parse();
    if args.prop == "NONE" {
        return;
    }
    if args.prop != "C14" {
        eprintln!("mon_sinks serves C14 only (got {})", args.prop);
        std::process::exit(3);
    }
    vcommon::install_quiet_panic_hook();
    let mut ctx = Ctx {
        rep: Reporter::new("C14", args.seed),
        stats: vec![FamStats::default(); ALL_FAMS.len()],
        per_sig: Default::default(),
        verbose: false,
    };

    if let Some(v) = args.replay_case() {
        let Some(c) = Case::from_json(&v) else {
            eprintln!("replay descriptor is not a mon_sinks case");
            std::process::exit(3);
        };
        ctx.verbose = true;
        eprintln!("replaying {}", c.to_json());
        ctx.check(&c);
        ctx.rep.finish("replay of one recorded case", false);
        return;
    }

    let mut rng = args.rng();
    let exhaustive;
    match args.tier {
        Tier::Quick | Tier::Thorough => {
            let sw = if args.tier == Tier::Quick {
                Sweep {
                    n_max: 4,
                    k: 2,
                    k2_fickle: [2, 2, 2, 2, 1],
                    chain2: (2, 3, 1, 1),
                    k3_sticky: [2, 2, 2, 1, 1],
                    k3_fickle: [1, 1, 1, 1, 1],
                    n_max3: 3,
                    k_init: 2,
                    n_lss: 3,
                    sched_len: 4,
                }
            } else {
                Sweep {
                    n_max: 4,
                    k: 3,
                    k2_fickle: [2, 2, 2, 2, 2],
                    chain2: (3, 3, 2, 1),
                    k3_sticky: [2, 2, 2, 2, 1],
                    k3_fickle: [1, 1, 1, 1, 1],
                    n_max3: 4,
                    k_init: 3,
                    n_lss: 4,
                    sched_len: 5,
                }
            };
            sweep_plain(&mut ctx, &sw);
            sweep_multi(&mut ctx, &sw);
            sweep_errors(&mut ctx, &sw);
            sweep_lazy(&mut ctx, &sw);
            exhaustive = true;
            let runs = args.budget(20_000, 1_000_000, 0);
            for _ in 0..runs {
                let c = random_case(&mut rng, 30);
                ctx.check(&c);
            }
        }
        Tier::Miri => {
            // tiny: a thin deterministic slice of the sweeps plus a few random cases, sharded
            exhaustive = false;
            let mut idx = 0usize;
            let mut cases: Vec<Case> = vec![];
            for &fam in ALL_FAMS {
                for fickle in [false, true] {
                    let mut c = Case::new(fam);
                    c.fickle = fickle;
                    c.items = if fam.keyed() { vec![0, 1, 0] } else { vec![2, 1, 0, 2] };
                    if fam == Fam::DemuxVar3 {
                        c.items = vec![2, 0, 1, 2];
                    }
                    for s in 0..fam.n_sinks() {
                        c.sinks[s] = SinkScript { ready: vec![s == 0, true, false, true], flush: vec![true], close: vec![s == 1], err: None };
                    }
                    if fam.lazy() {
                        c.init = vec![2, 1];
                        c.src_items = 2;
                        c.stream_pend = vec![0, 1, 0];
                        c.sched = if fickle { 0b0101 } else { 0b0010 };
                        c.sched_len = 4;
                    }
                    if fam.uses_stream_input() {
                        c.stream_pend = vec![1, 0, 1, 0, 0];
                    }
                    c.plan.flush_after = 0b10;
                    cases.push(c.clone());
                    if fam.n_sinks() > 0 {
                        c.sinks[fam.n_sinks() - 1].err = Some((if fickle { 1 } else { 2 }, 1));
                        cases.push(c.clone());
                    }
                    if fam.lazy() {
                        c.sinks.iter_mut().for_each(|s| s.err = None);
                        c.init_err = true;
                        cases.push(c);
                    }
                }
            }
            for _ in 0..60 * args.shard.1 {
                cases.push(random_case(&mut rng, 8));
            }
            for c in cases {
                if args.in_shard(idx) {
                    ctx.check(&c);
                }
                idx += 1;
            }
        }
    }

    // ---- evidence and minimum observation -------------------------------------------------------
    let mut fam_json = serde_json_map();
    for &fam in ALL_FAMS {
        let s = &ctx.stats[fam as usize];
        fam_json.insert(
            fam.name().to_string(),
            json!({"runs": s.runs, "nontrivial": s.nontrivial, "ok": s.ok, "err": s.err, "panic": s.panic, "stuck": s.stuck,
                   "fickle_runs": s.fickle, "inner_pendings": s.inner_pendings, "init_pended_runs": s.init_pended,
                   "both_halves_contended_while_init_pending": s.both_parked_on_init,
                   "adaptor_pending_without_downstream_pending": s.pending_without_downstream_pending,
                   "inner_repolled_after_ready_ok": s.repoll_after_ready,
                   "fickle_pending_after_ready_ok_before_send": s.pending_after_ready_credit}),
        );
    }
    ctx.rep.extra("families", vcommon::Value::Object(fam_json));
    let miri = args.tier == Tier::Miri;
    if !miri {
        for &fam in ALL_FAMS {
            let s = ctx.stats[fam as usize].clone();
            ctx.rep.require(s.runs > 0, &format!("family {} was never run", fam.name()));
            if fam.n_sinks() > 0 || fam == Fam::LazySource {
                ctx.rep.require(s.nontrivial >= 50, &format!("family {}: fewer than 50 non-trivial runs ({})", fam.name(), s.nontrivial));
            }
            if fam.n_sinks() > 0 {
                ctx.rep.require(s.err > 0, &format!("family {}: no run ended with a propagated error", fam.name()));
                ctx.rep.require(s.fickle > 0 && s.fickle < s.runs, &format!("family {}: both sink flavours must be run", fam.name()));
            }
            ctx.rep.require(s.ok > 0, &format!("family {}: no run completed with Ok", fam.name()));
        }
        let t = ctx.stats[Fam::TryForEach as usize].clone();
        ctx.rep.require(t.err > 0 && t.ok > 0, "try_for_each: need failing and succeeding closures");
        let l = ctx.stats[Fam::LazySinkSource as usize].clone();
        ctx.rep.require(l.both_parked_on_init >= 100, "lazy_sink_source: fewer than 100 runs in which both halves were scheduled against each other while the init future was pending");
    } else {
        ctx.rep.require(ctx.stats.iter().map(|s| s.runs).sum::<u64>() > 0 || args.shard.1 > 200, "miri shard ran nothing");
    }
    let bounds = match args.tier {
        Tier::Quick => "k = 2 for single-sink families and for sticky two-sink families (unzip, demux_map, demux_map_lazy, demux_var2), fickle two-sink: k = 2 for <= 3 items and 1 for 4 items; \
three-sink demux_var: items <= 3, sticky k = 2 (1 at 3 items), fickle k = 1; two-sink SinkBuild chains: items <= 2/3, k = 1; init-future scripts of <= 2 Pendings; LazySinkSource: items <= 3, schedule bit-strings of length 4; random part: 20 000 runs, length <= 30, Pending density 0-60 %, 15 % injected errors",
        Tier::Thorough => "k = 3 for single-sink families and for sticky two-sink families (unzip, demux_map, demux_map_lazy, demux_var2), fickle two-sink: k = 2; \
three-sink demux_var: items <= 4, sticky k = 2 (1 at 4 items), fickle k = 1; two-sink SinkBuild chains: items <= 3, k = 2 sticky / 1 fickle; init-future scripts of <= 3 Pendings; LazySinkSource: items <= 4, schedule bit-strings of length 5; random part: 1 000 000 runs, length <= 30, Pending density 0-60 %, 15 % injected errors",
        Tier::Miri => "Miri tier: a fixed slice of ~6 scripted cases per family (Pendings in every phase, one injected error, init Pending/Err) plus 60 random cases of length <= 8 per shard",
    };
    let rule = format!("Real sinktools adaptors (map, filter, filter_map, inspect, flat_map, flatten, unzip, for_each, try_for_each, send_iter, send_stream, \
demux_map, demux_map_lazy, demux_var with 2 and 3 sinks, LazySink, LazySource, LazySinkSource, and five SinkBuild chains) are driven by a Sink-contract-obeying \
driver on a hand-written executor with counting wakers against scripted CheckSinks (sticky: Ready(Ok) stays until a start_send; fickle: may pend again) \
that record every call. Bounded-exhaustive part: every item sequence of length <= 4 over {{0,1,2}} (demux: keys; one sequence per length where the values cannot matter) \
x every placement of <= k Pendings per inner sink in each of the ready/flush/close phases, as the full product over the inner sinks of unzip/demux, \
x driver plans (final flush or close-only, a complete flush after the first item; multi-sink: alternative plans sticky with k <= 1); one injected error at every \
(inner sink, phase, call index) for items <= 3; lazy family: init-future scripts (each Pending either self-waking or woken by an external event fired at quiescence) x Ok/Err \
outcome x flush/close interleavings; LazySinkSource with the sink driver and the source reader as two tasks with distinct counting wakers under every schedule \
bit-string, with and without a yield between poll_ready and start_send. Bounds of this tier: {bounds}. \
A run is non-trivial if an inner sink answered Pending between two of its items or during flush/close, or (lazy family) if the init future answered Pending at least once.");
    let rule = rule.as_str();
    ctx.rep.finish(rule, exhaustive);
}

fn serde_json_map() -> vcommon::serde_json::Map<String, vcommon::Value> {
    vcommon::serde_json::Map::new()
}
