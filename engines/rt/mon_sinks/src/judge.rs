//! The oracle: a linear scan over the recorded history of one run.
//!
//! Demands (and nothing else):
//!  D1 delivery   — without an error every inner sink received exactly the reference model's codes, once,
//!                  in order; with an error a prefix of them (nothing spurious, duplicated or reordered), and
//!                  at least everything the adaptor had to have forwarded before it accepted the last item.
//!  D2 protocol   — every `start_send` on an inner sink is preceded by a `poll_ready → Ready(Ok)` on that
//!                  sink with no `start_send` in between (literal `Sink` contract; a later `Pending` of a
//!                  fickle sink does not revoke it).
//!  D3 flush/close— when the adaptor's `poll_flush` (`poll_close`) answers `Ready(Ok)`, every accepted item
//!                  has reached its sink and every existing inner sink answered `poll_flush` or `poll_close`
//!                  (`poll_close`) `Ready(Ok)` after its last item. A `SendIter`/`SendStream` future
//!                  completing with `Ok` counts as a flush.
//!  D4 errors     — an error answered by an inner sink / closure / init future inside a driver call is seen
//!                  by the driver (the run ends with `Err`); no error is invented.
//!  D5 lazy       — init closure called at most once (per key for `demux_map_lazy`), init future never
//!                  polled after completion; what the reader of a lazy source sees equals the produced
//!                  stream.
//!  D6 progress   — no panic; at quiescence of the executor every task has finished (a task parked with
//!                  no wake-up pending was not woken = lost wake-up); the step cap is not reached.

use crate::case::{Case, Fam, expected_per_item};
use crate::families::Run;
use crate::world::{Actor, Ans, Op};

#[derive(Clone, Debug, PartialEq, Eq)]
pub struct Finding {
    /// `<failure kind>[|<input class>]` — appended to `C14|<family>|`.
    pub kind: String,
    pub what: String,
}

#[derive(Clone, Debug, Default)]
pub struct Verdict {
    pub findings: Vec<Finding>,
    pub nontrivial: bool,
    pub outcome: &'static str,
    /// counters worth reporting
    pub pending_without_downstream_pending: u32,
    pub repoll_after_ready: u32,
    pub pending_after_ready_credit: u32,
    pub init_pended: bool,
    pub inner_pendings: u32,
    pub evals: u64,
}

fn add(v: &mut Verdict, kind: &str, what: String) {
    if !v.findings.iter().any(|f| f.kind == kind) {
        v.findings.push(Finding { kind: kind.to_string(), what });
    }
}

fn classify(exp: &[u32], got: &[u32]) -> &'static str {
    let mut seen = std::collections::BTreeSet::new();
    for g in got {
        if !seen.insert(*g) {
            return "item duplicated";
        }
    }
    if got.iter().any(|g| !exp.contains(g)) {
        return "misrouted or spurious item";
    }
    if got.len() < exp.len() {
        // a subsequence in order = loss; otherwise also reordered
        let mut it = exp.iter();
        if got.iter().all(|g| it.any(|e| e == g)) { "item lost" } else { "item lost and order changed" }
    } else {
        "items reordered"
    }
}

fn is_prefix(p: &[u32], full: &[u32]) -> bool {
    p.len() <= full.len() && full[..p.len()] == *p
}

pub fn judge(c: &Case, run: &Run) -> Verdict {
    let mut v = Verdict::default();
    let w = run.w.borrow();
    let log = &w.log;
    let fam = c.fam;
    let per_item = expected_per_item(c);
    let ns = fam.n_sinks().max(1);
    let func_sink = fam.func_terminal();
    let lazy_key = fam == Fam::DemuxMapLazy;
    let lazy_init = matches!(fam, Fam::LazySink | Fam::LazySinkSource);

    let exp_upto = |m: usize, s: usize| -> Vec<u32> {
        per_item.iter().take(m).flatten().filter(|(k, _)| *k as usize == s).map(|(_, x)| *x).collect()
    };

    let mut credit = vec![false; ns];
    let mut ever_ready = vec![false; ns];
    let mut got: Vec<Vec<u32>> = vec![vec![]; ns];
    let mut dirty = vec![false; ns];
    let mut closed = vec![false; ns];
    let mut exists = vec![!(lazy_key || lazy_init); ns];
    let mut pend_mark = vec![false; ns];
    let mut func_calls = vec![0u32; 4];
    let mut accepted = 0usize;
    let mut inflight: Option<usize> = None;
    let mut downstream_pending = false;
    let mut err_to_driver = false;
    let mut driver_err = false;
    let mut driver_closed = false;
    let mut driver_done_ok = false;
    let mut panic_at: Option<Op> = None;
    let mut read: Vec<u32> = vec![];
    let mut read_done = false;
    let mut reader_panic = false;
    let mut inspected: Vec<u32> = vec![];
    let mut init_done = false;
    let mut init_err_seen = false;
    let mut last_ready_ok_then: Vec<bool> = vec![false; ns];

    for e in log.iter() {
        match (e.actor, e.op, e.ans) {
            (Actor::Inner(i), op, ans) => {
                let i = i as usize;
                if i >= ns {
                    continue;
                }
                match (op, ans) {
                    (Op::Ready, Ans::Ok) => {
                        if credit[i] {
                            v.repoll_after_ready += 1;
                        }
                        credit[i] = true;
                        ever_ready[i] = true;
                        last_ready_ok_then[i] = true;
                    }
                    (Op::Ready, Ans::Pending) => {
                        if credit[i] {
                            v.pending_after_ready_credit += 1;
                        }
                        if !got[i].is_empty() {
                            pend_mark[i] = true;
                        }
                    }
                    (Op::Send(x), a) => {
                        if !func_sink {
                            v.evals += 1;
                            if !credit[i] {
                                if !ever_ready[i] && got[i].is_empty() {
                                    add(&mut v, "start_send without preceding poll_ready Ready(Ok)|first item of an inner sink that was never polled ready",
                                        format!("inner sink {i} got start_send({x}) although poll_ready had never answered Ready(Ok) on it"));
                                } else {
                                    add(&mut v, "start_send without preceding poll_ready Ready(Ok)|no Ready(Ok) since the previous start_send",
                                        format!("inner sink {i} got start_send({x}) with no poll_ready → Ready(Ok) since its previous start_send"));
                                }
                            }
                        }
                        credit[i] = false;
                        if pend_mark[i] {
                            v.nontrivial = true;
                        }
                        if matches!(fam, Fam::Inspect | Fam::Chain) && !inspected.contains(&x) {
                            add(&mut v, "item reached the inner sink before the inspect closure saw it", format!("code {x}"));
                        }
                        if a == Ans::Ok {
                            got[i].push(x);
                            dirty[i] = true;
                            closed[i] = false;
                        }
                    }
                    (Op::Flush, Ans::Ok) => dirty[i] = false,
                    (Op::Close, Ans::Ok) => {
                        dirty[i] = false;
                        closed[i] = true;
                    }
                    (Op::Flush, Ans::Pending) | (Op::Close, Ans::Pending) => v.nontrivial = true,
                    _ => {}
                }
                if ans == Ans::Pending {
                    downstream_pending = true;
                    v.inner_pendings += 1;
                }
                if ans == Ans::Err && e.task == 0 {
                    err_to_driver = true;
                }
            }
            (Actor::Stream, _, ans) => {
                if ans == Ans::Pending {
                    downstream_pending = true;
                }
            }
            (Actor::Func, Op::Call(k), _) => {
                let k = (k as usize).min(3);
                func_calls[k] += 1;
                if lazy_key && k < ns {
                    exists[k] = true;
                }
            }
            (Actor::Init, _, ans) => match ans {
                Ans::Pending => {
                    downstream_pending = true;
                    v.init_pended = true;
                }
                Ans::Ok => {
                    init_done = true;
                    if lazy_init {
                        exists[0] = true;
                    }
                }
                Ans::Err => {
                    init_done = true;
                    init_err_seen = true;
                    if e.task == 0 && fam != Fam::LazySource {
                        err_to_driver = true;
                    }
                }
                Ans::AfterDone => {
                    add(&mut v, if init_err_seen { "init future polled again after it completed|init completed with Err" } else { "init future polled again after it completed|init completed with Ok" },
                        format!("task {} polled the init future after it had returned Ready", e.task));
                    if e.task == 0 {
                        err_to_driver = true;
                    }
                }
                _ => {}
            },
            (Actor::Inspect, Op::Call(x), _) => inspected.push(x),
            (Actor::Reader, _, ans) => match ans {
                Ans::Item(x) => read.push(x),
                Ans::None => read_done = true,
                Ans::Panic => reader_panic = true,
                _ => {}
            },
            (Actor::Drv, op, Ans::Begin) => {
                downstream_pending = false;
                if let Op::Send(i) = op {
                    inflight = Some(i as usize);
                }
            }
            (Actor::Drv, op, ans) => {
                match ans {
                    Ans::Pending => {
                        if !downstream_pending {
                            v.pending_without_downstream_pending += 1;
                        }
                    }
                    Ans::Err => driver_err = true,
                    Ans::Panic => panic_at = Some(op),
                    Ans::Ok => match op {
                        Op::Send(i) => {
                            accepted = i as usize + 1;
                            inflight = None;
                        }
                        Op::Flush | Op::Close | Op::Poll => {
                            let m = if op == Op::Poll { c.items.len() } else { accepted };
                            let opname = match op {
                                Op::Flush => "poll_flush",
                                Op::Close => "poll_close",
                                _ => "the sending future",
                            };
                            for s in 0..fam.n_sinks() {
                                v.evals += 1;
                                let exp = exp_upto(m, s);
                                if got[s] != exp {
                                    let cl = classify(&exp, &got[s]);
                                    add(&mut v, &format!("{opname} answered Ready(Ok) but delivery is wrong|{cl}"),
                                        format!("inner sink {s}: expected {exp:?} got {:?}", got[s]));
                                }
                                if !exists[s] {
                                    continue;
                                }
                                if op == Op::Close {
                                    if !closed[s] {
                                        add(&mut v, "poll_close answered Ready(Ok) but an inner sink was not closed after its last item",
                                            format!("inner sink {s} has no poll_close → Ready(Ok) after its last start_send"));
                                    }
                                } else if dirty[s] {
                                    add(&mut v, &format!("{opname} answered Ready(Ok) but an inner sink was not flushed after its last item"),
                                        format!("inner sink {s} has no poll_flush/poll_close → Ready(Ok) after its last start_send"));
                                }
                            }
                            if op == Op::Close {
                                driver_closed = true;
                            }
                            if op == Op::Poll {
                                driver_done_ok = true;
                            }
                        }
                        _ => {}
                    },
                    _ => {}
                }
            }
            _ => {}
        }
    }
    let _ = last_ready_ok_then;

    // ---- outcome -----------------------------------------------------------------------------
    let has_driver = fam != Fam::LazySource;
    let finished_ok = if fam.self_driving() { driver_done_ok } else { driver_closed };
    v.outcome = if panic_at.is_some() || reader_panic {
        "panic"
    } else if driver_err {
        "err"
    } else if finished_ok || !has_driver {
        "ok"
    } else {
        "stuck"
    };

    // D6 progress
    v.evals += 1;
    if let Some(op) = panic_at {
        let opn = match op {
            Op::Ready => "poll_ready",
            Op::Send(_) => "start_send",
            Op::Flush => "poll_flush",
            Op::Close => "poll_close",
            _ => "poll",
        };
        let msg = w.panic_msg.clone().unwrap_or_default();
        let short: String = msg.chars().take(40).collect();
        let class = if matches!(op, Op::Send(_)) { " after poll_ready answered Ready(Ok)" } else { "" };
        add(&mut v, &format!("panic in {opn}{class}|{short}"), format!("adaptor panicked: {msg}"));
    }
    if reader_panic {
        let msg = w.panic_msg.clone().unwrap_or_default();
        let short: String = msg.chars().take(40).collect();
        add(&mut v, &format!("panic in poll_next|{short}"), format!("source panicked: {msg}"));
    }
    if run.exec.capped {
        add(&mut v, "step cap reached (tasks keep being woken without progress)", format!("more than {} polls", run.cap));
    } else {
        for (t, done) in run.exec.done.iter().enumerate() {
            if !*done {
                let who = if fam == Fam::LazySource || (fam == Fam::LazySinkSource && t == 1) { "source reader" } else { "sink driver" };
                let when = if fam.lazy() {
                    if init_done { "|init future had completed" } else { "|init future not completed" }
                } else {
                    ""
                };
                add(&mut v, &format!("task parked forever: never woken at quiescence|{who}{when}"),
                    format!("task {t} ({who}) answered Pending and no wake-up was pending at quiescence (wakes counted: {:?}, polls: {:?})", run.exec.wakes, run.exec.polls));
            }
        }
    }

    // D4 errors
    if has_driver && panic_at.is_none() && !run.exec.capped && run.exec.done[0] {
        v.evals += 1;
        if err_to_driver && !driver_err {
            add(&mut v, "error answered downstream was swallowed", "an inner sink / closure / init future answered Err inside a driver call but the driver never saw Err".into());
        }
        if !err_to_driver && driver_err {
            add(&mut v, "adaptor reported an error nothing downstream produced", "driver saw Err although no inner sink / closure / init future answered Err".into());
        }
    }

    // D1 delivery at the end of the run
    if has_driver && panic_at.is_none() && run.exec.done[0] && !run.exec.capped {
        for s in 0..ns {
            v.evals += 1;
            if driver_err {
                let upper_m = if fam.self_driving() { c.items.len() } else { inflight.map(|i| i + 1).unwrap_or(accepted).max(accepted) };
                let upper = exp_upto(upper_m, s);
                let lower_m = if fam.self_driving() {
                    0
                } else if fam.buffering() {
                    accepted.saturating_sub(1)
                } else {
                    accepted
                };
                let lower = exp_upto(lower_m, s);
                if !is_prefix(&got[s], &upper) {
                    let cl = classify(&upper, &got[s]);
                    add(&mut v, &format!("after an error the delivered items are not a prefix of the expected ones|{cl}"),
                        format!("inner sink {s}: expected a prefix of {upper:?} got {:?}", got[s]));
                } else if !is_prefix(&lower, &got[s]) {
                    add(&mut v, "after an error earlier accepted items are missing|item lost",
                        format!("inner sink {s}: at least {lower:?} had to be delivered, got {:?}", got[s]));
                }
            } else if finished_ok {
                let exp = exp_upto(c.items.len(), s);
                if got[s] != exp {
                    let cl = classify(&exp, &got[s]);
                    add(&mut v, &format!("delivery differs from the reference model|{cl}"),
                        format!("inner sink {s}: expected {exp:?} got {:?}", got[s]));
                }
            }
        }
        if matches!(fam, Fam::Inspect | Fam::Chain) && !driver_err && finished_ok {
            v.evals += 1;
            let exp = exp_upto(c.items.len(), 0);
            if inspected != exp {
                add(&mut v, "inspect closure saw a different sequence than the reference model", format!("expected {exp:?} saw {inspected:?}"));
            }
        }
    }

    // D5 lazy
    if fam.lazy() || lazy_key {
        v.evals += 1;
        for (k, n) in func_calls.iter().enumerate() {
            if *n > 1 {
                add(&mut v, "init closure invoked more than once", format!("closure for key/slot {k} called {n} times"));
            }
        }
    }
    if matches!(fam, Fam::LazySource | Fam::LazySinkSource) && (fam == Fam::LazySource || c.with_reader) && !reader_panic {
        let t = if fam == Fam::LazySource { 0 } else { 1 };
        if run.exec.done.get(t).copied().unwrap_or(false) {
            v.evals += 1;
            let exp: Vec<u32> = if c.init_err { vec![] } else { c.src_codes() };
            if !read_done {
                add(&mut v, "source reader finished without seeing the end of the stream", String::new());
            } else if read != exp {
                let cl = classify(&exp, &read);
                add(&mut v, &format!("lazy source yielded a different sequence than the produced stream|{cl}"), format!("expected {exp:?} got {read:?}"));
            }
        }
    }

    if fam.lazy() {
        // non-trivial for the lazy family: the init future pended at least once
        v.nontrivial = v.init_pended;
    }
    v
}
