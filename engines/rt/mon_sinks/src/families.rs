//! Builds the real `sinktools` adaptor described by a `Case`, wires it to scripted inner sinks /
//! streams / init futures and runs it on the scripted executor.

use std::cell::RefCell;
use std::collections::HashMap;
use std::rc::Rc;

use futures::StreamExt;
use sinktools::lazy::{LazySink, LazySource};
use sinktools::lazy_sink_source::LazySinkSource;
use sinktools::{SinkBuild, SinkBuilder, ToSinkBuild};

use crate::case::{Case, Fam, f_expand, f_fails, f_fm, f_keep, f_map, f_pair};
use crate::world::{
    Actor, Ans, CheckSink, ERR_FUNC, ERR_INIT, ExecReport, Op, ScriptInit, ScriptStream, SinkErr, TaskFut, W, drive,
    drive_future, ev, new_world, read_all, run_tasks,
};

pub struct Run {
    pub w: W,
    pub exec: ExecReport,
    pub cap: usize,
}

fn sink(c: &Case, w: &W, i: usize) -> CheckSink {
    CheckSink::new(i as u8, w, c.fickle, c.sinks[i].clone())
}

pub fn step_cap(c: &Case) -> usize {
    // every poll of a task that answers Pending consumed at least one scripted Pending (or one
    // gap-yield, one per item); everything else is bounded by the number of items and outputs.
    let outs: usize = c.items.iter().map(|&v| v as usize + 1).sum();
    4 * (c.items.len() + outs + c.total_pendings() + c.src_items as usize) + 32
}

pub fn run_case(c: &Case) -> Run {
    let w = new_world();
    let cap = step_cap(c);
    let codes = c.codes();
    let plan = c.plan;
    let one = |w: &W, t: TaskFut<'_>| run_tasks(w, vec![t], 0, 0, cap);
    let exec = match c.fam {
        Fam::Map => {
            let s = sinktools::map(f_map, sink(c, &w, 0));
            one(&w, Box::pin(drive(w.clone(), Box::pin(s), codes, plan)))
        }
        Fam::Filter => {
            let s = sinktools::filter(f_keep, sink(c, &w, 0));
            one(&w, Box::pin(drive(w.clone(), Box::pin(s), codes, plan)))
        }
        Fam::FilterMap => {
            let s = sinktools::filter_map(f_fm, sink(c, &w, 0));
            one(&w, Box::pin(drive(w.clone(), Box::pin(s), codes, plan)))
        }
        Fam::Inspect => {
            let w2 = w.clone();
            let s = sinktools::inspect(move |x: &u32| ev(&w2, Actor::Inspect, Op::Call(*x), Ans::Ok), sink(c, &w, 0));
            one(&w, Box::pin(drive(w.clone(), Box::pin(s), codes, plan)))
        }
        Fam::FlatMap => {
            let s = sinktools::flat_map(f_expand, sink(c, &w, 0));
            one(&w, Box::pin(drive(w.clone(), Box::pin(s), codes, plan)))
        }
        Fam::Flatten => {
            let s = sinktools::flatten::<Vec<u32>, _>(sink(c, &w, 0));
            let items: Vec<Vec<u32>> = codes.iter().map(|&x| f_expand(x)).collect();
            one(&w, Box::pin(drive(w.clone(), Box::pin(s), items, plan)))
        }
        Fam::Unzip => {
            let s = sinktools::unzip(sink(c, &w, 0), sink(c, &w, 1));
            let items: Vec<(u32, u32)> = codes.iter().map(|&x| f_pair(x)).collect();
            one(&w, Box::pin(drive(w.clone(), Box::pin(s), items, plan)))
        }
        Fam::ForEach => {
            let w2 = w.clone();
            let s = sinktools::for_each(move |x: u32| ev(&w2, Actor::Inner(0), Op::Send(x), Ans::Ok));
            one(&w, Box::pin(drive(w.clone(), Box::pin(s), codes, plan)))
        }
        Fam::TryForEach => {
            let w2 = w.clone();
            let (fam, fv) = (c.fam, c.fail_val);
            let s = sinktools::try_for_each(move |x: u32| {
                if f_fails(fam, fv, x) {
                    ev(&w2, Actor::Inner(0), Op::Send(x), Ans::Err);
                    Err(SinkErr(ERR_FUNC))
                } else {
                    ev(&w2, Actor::Inner(0), Op::Send(x), Ans::Ok);
                    Ok(())
                }
            });
            one(&w, Box::pin(drive(w.clone(), Box::pin(s), codes, plan)))
        }
        Fam::SendIter => {
            let f = sinktools::send_iter(codes, sink(c, &w, 0));
            one(&w, Box::pin(drive_future(w.clone(), Box::pin(f))))
        }
        Fam::SendStream => {
            let st = ScriptStream::new(&w, codes, c.stream_pend.clone());
            let f = sinktools::send_stream(st, sink(c, &w, 0));
            one(&w, Box::pin(drive_future(w.clone(), Box::pin(f))))
        }
        Fam::DemuxMap => {
            let mut m = HashMap::new();
            m.insert(0u8, sink(c, &w, 0));
            m.insert(1u8, sink(c, &w, 1));
            let s = sinktools::demux_map::<u8, CheckSink, u32>(m);
            let items: Vec<(u8, u32)> = codes.iter().enumerate().map(|(i, &x)| (c.items[i], x)).collect();
            one(&w, Box::pin(drive(w.clone(), Box::pin(s), items, plan)))
        }
        Fam::DemuxMapLazy => {
            let w2 = w.clone();
            let c2 = c.clone();
            let s = sinktools::demux_map_lazy::<u8, CheckSink, u32, _>(move |k: &u8| {
                ev(&w2, Actor::Func, Op::Call(*k as u32), Ans::Ok);
                sink(&c2, &w2, *k as usize)
            });
            let items: Vec<(u8, u32)> = codes.iter().enumerate().map(|(i, &x)| (c.items[i], x)).collect();
            one(&w, Box::pin(drive(w.clone(), Box::pin(s), items, plan)))
        }
        Fam::DemuxVar2 => {
            let s = sinktools::demux_var::<_, u32, SinkErr>((sink(c, &w, 0), (sink(c, &w, 1), ())));
            let items: Vec<(usize, u32)> = codes.iter().enumerate().map(|(i, &x)| (c.items[i] as usize, x)).collect();
            one(&w, Box::pin(drive(w.clone(), Box::pin(s), items, plan)))
        }
        Fam::DemuxVar3 => {
            let s = sinktools::demux_var::<_, u32, SinkErr>((sink(c, &w, 0), (sink(c, &w, 1), (sink(c, &w, 2), ()))));
            let items: Vec<(usize, u32)> = codes.iter().enumerate().map(|(i, &x)| (c.items[i] as usize, x)).collect();
            one(&w, Box::pin(drive(w.clone(), Box::pin(s), items, plan)))
        }
        Fam::Chain => {
            let w2 = w.clone();
            let s = SinkBuilder::<u32>::new()
                .map(f_map)
                .filter_map(f_fm)
                .flat_map(f_expand)
                .inspect(move |x: &u32| ev(&w2, Actor::Inspect, Op::Call(*x), Ans::Ok))
                .send_to(sink(c, &w, 0));
            one(&w, Box::pin(drive(w.clone(), Box::pin(s), codes, plan)))
        }
        Fam::ChainUnzip => {
            let s = SinkBuilder::<u32>::new().flat_map(f_expand).map(f_pair).unzip(sink(c, &w, 0), sink(c, &w, 1));
            one(&w, Box::pin(drive(w.clone(), Box::pin(s), codes, plan)))
        }
        Fam::ChainTry => {
            let w2 = w.clone();
            let (fam, fv) = (c.fam, c.fail_val);
            let s = SinkBuilder::<u32>::new().map(f_map).flat_map(f_expand).try_for_each(move |x: u32| {
                if f_fails(fam, fv, x) {
                    ev(&w2, Actor::Inner(0), Op::Send(x), Ans::Err);
                    Err(SinkErr(ERR_FUNC))
                } else {
                    ev(&w2, Actor::Inner(0), Op::Send(x), Ans::Ok);
                    Ok(())
                }
            });
            one(&w, Box::pin(drive(w.clone(), Box::pin(s), codes, plan)))
        }
        Fam::SendIterChain => {
            let f = codes.into_iter().iter_to_sink_build().map(f_map).filter(f_keep).send_to(sink(c, &w, 0));
            one(&w, Box::pin(drive_future(w.clone(), Box::pin(f))))
        }
        Fam::SendStreamDemux => {
            let st = ScriptStream::new(&w, codes, c.stream_pend.clone()).map(|x| ((x % 10) as usize, x));
            let f = st
                .stream_to_sink_build()
                .filter(|(k, _): &(usize, u32)| *k != 2)
                .demux_var::<_, u32, SinkErr>((sink(c, &w, 0), (sink(c, &w, 1), ())));
            one(&w, Box::pin(drive_future(w.clone(), Box::pin(f))))
        }
        Fam::LazySink => {
            let w2 = w.clone();
            let inner = sink(c, &w, 0);
            let out = if c.init_err { Err(SinkErr(ERR_INIT)) } else { Ok(inner) };
            let steps = c.init.clone();
            let s = LazySink::new(move || {
                ev(&w2, Actor::Func, Op::Call(0), Ans::Ok);
                ScriptInit::new(&w2, steps, out)
            });
            one(&w, Box::pin(drive(w.clone(), Box::pin(s), codes, plan)))
        }
        Fam::LazySource => {
            let w2 = w.clone();
            let st = ScriptStream::new(&w, c.src_codes(), c.stream_pend.clone());
            let out = if c.init_err { Err(SinkErr(ERR_INIT)) } else { Ok(st) };
            let steps = c.init.clone();
            let s = LazySource::new(move || {
                ev(&w2, Actor::Func, Op::Call(0), Ans::Ok);
                ScriptInit::new(&w2, steps, out)
            });
            one(&w, Box::pin(read_all(w.clone(), Box::pin(s))))
        }
        Fam::LazySinkSource => {
            let inner = sink(c, &w, 0);
            let st = ScriptStream::new(&w, c.src_codes(), c.stream_pend.clone());
            let out = if c.init_err { Err(SinkErr(ERR_INIT)) } else { Ok((st, inner)) };
            let fut = ScriptInit::new(&w, c.init.clone(), out);
            let lss: LazySinkSource<_, ScriptStream, CheckSink, u32, SinkErr> = LazySinkSource::new(fut);
            let (sink_half, source_half) = lss.split();
            // keep the unused half alive for the whole run (dropping it is not part of the scenario)
            let keep = Rc::new(RefCell::new(None));
            let mut tasks: Vec<TaskFut<'_>> = vec![Box::pin(drive(w.clone(), Box::pin(sink_half), codes, plan))];
            if c.with_reader {
                tasks.push(Box::pin(read_all(w.clone(), Box::pin(source_half))));
            } else {
                *keep.borrow_mut() = Some(source_half);
            }
            let r = run_tasks(&w, tasks, c.sched, c.sched_len, cap);
            drop(keep);
            r
        }
    };
    Run { w, exec, cap }
}
