//! The self-contained description of one run (`Case`), its JSON form (replay descriptor) and the
//! reference model: which codes every inner sink must receive, written with std iterator adaptors only.

use vcommon::{Value, json};

use crate::world::{Plan, SinkScript};

#[derive(Clone, Copy, Debug, Hash, PartialEq, Eq, PartialOrd, Ord)]
pub enum Fam {
    Map,
    Filter,
    FilterMap,
    Inspect,
    FlatMap,
    Flatten,
    Unzip,
    ForEach,
    TryForEach,
    SendIter,
    SendStream,
    DemuxMap,
    DemuxMapLazy,
    DemuxVar2,
    DemuxVar3,
    LazySink,
    LazySource,
    LazySinkSource,
    /// `SinkBuilder.map.filter_map.flat_map.inspect.send_to(CheckSink)`
    Chain,
    /// `SinkBuilder.flat_map.map(pair).unzip(CheckSink, CheckSink)`
    ChainUnzip,
    /// `SinkBuilder.map.flat_map.try_for_each(fallible closure)`
    ChainTry,
    /// `iter.iter_to_sink_build().map.filter.send_to(CheckSink)` (a `SendIter`)
    SendIterChain,
    /// `SinkBuilder.filter.demux_var((CheckSink, (CheckSink, ())))` fed by `stream_to_sink_build`
    SendStreamDemux,
}

pub const ALL_FAMS: &[Fam] = &[
    Fam::Map,
    Fam::Filter,
    Fam::FilterMap,
    Fam::Inspect,
    Fam::FlatMap,
    Fam::Flatten,
    Fam::Unzip,
    Fam::ForEach,
    Fam::TryForEach,
    Fam::SendIter,
    Fam::SendStream,
    Fam::DemuxMap,
    Fam::DemuxMapLazy,
    Fam::DemuxVar2,
    Fam::DemuxVar3,
    Fam::LazySink,
    Fam::LazySource,
    Fam::LazySinkSource,
    Fam::Chain,
    Fam::ChainUnzip,
    Fam::ChainTry,
    Fam::SendIterChain,
    Fam::SendStreamDemux,
];

impl Fam {
    pub fn name(self) -> &'static str {
        match self {
            Fam::Map => "map",
            Fam::Filter => "filter",
            Fam::FilterMap => "filter_map",
            Fam::Inspect => "inspect",
            Fam::FlatMap => "flat_map",
            Fam::Flatten => "flatten",
            Fam::Unzip => "unzip",
            Fam::ForEach => "for_each",
            Fam::TryForEach => "try_for_each",
            Fam::SendIter => "send_iter",
            Fam::SendStream => "send_stream",
            Fam::DemuxMap => "demux_map",
            Fam::DemuxMapLazy => "demux_map_lazy",
            Fam::DemuxVar2 => "demux_var2",
            Fam::DemuxVar3 => "demux_var3",
            Fam::LazySink => "lazy_sink",
            Fam::LazySource => "lazy_source",
            Fam::LazySinkSource => "lazy_sink_source",
            Fam::Chain => "chain_map_filtermap_flatmap_inspect",
            Fam::ChainUnzip => "chain_flatmap_map_unzip",
            Fam::ChainTry => "chain_map_flatmap_tryforeach",
            Fam::SendIterChain => "send_iter_chain_map_filter",
            Fam::SendStreamDemux => "send_stream_chain_filter_demuxvar",
        }
    }
    pub fn from_name(s: &str) -> Option<Fam> {
        ALL_FAMS.iter().copied().find(|f| f.name() == s)
    }
    /// Number of inner `CheckSink`s (0 = the terminal is a closure).
    pub fn n_sinks(self) -> usize {
        match self {
            Fam::ForEach | Fam::TryForEach | Fam::ChainTry | Fam::LazySource => 0,
            Fam::Unzip | Fam::DemuxMap | Fam::DemuxMapLazy | Fam::DemuxVar2 | Fam::ChainUnzip | Fam::SendStreamDemux => 2,
            Fam::DemuxVar3 => 3,
            _ => 1,
        }
    }
    /// Items carry a key (demux) instead of a value.
    pub fn keyed(self) -> bool {
        matches!(self, Fam::DemuxMap | Fam::DemuxMapLazy | Fam::DemuxVar2 | Fam::DemuxVar3 | Fam::SendStreamDemux)
    }
    pub fn lazy(self) -> bool {
        matches!(self, Fam::LazySink | Fam::LazySource | Fam::LazySinkSource)
    }
    /// The adaptor is itself the sender (a future), there is no external sink driver.
    pub fn self_driving(self) -> bool {
        matches!(self, Fam::SendIter | Fam::SendStream | Fam::SendIterChain | Fam::SendStreamDemux)
    }
    /// The adaptor may hold accepted items back (so, after an error, fewer items may have arrived).
    pub fn buffering(self) -> bool {
        matches!(
            self,
            Fam::FlatMap | Fam::Flatten | Fam::LazySink | Fam::LazySinkSource | Fam::Chain | Fam::ChainUnzip | Fam::ChainTry
        )
    }
    pub fn func_terminal(self) -> bool {
        matches!(self, Fam::ForEach | Fam::TryForEach | Fam::ChainTry)
    }
    pub fn uses_stream_input(self) -> bool {
        matches!(self, Fam::SendStream | Fam::SendStreamDemux)
    }
}

#[derive(Clone, Debug, Hash, PartialEq, Eq)]
pub struct Case {
    pub fam: Fam,
    pub fickle: bool,
    /// Per input item: its value in 0..=2 (or, for the demux families, its key).
    pub items: Vec<u8>,
    pub sinks: Vec<SinkScript>,
    pub plan: Plan,
    /// Init future script (lazy families): 1 = Pending + immediate wake, 2 = Pending until external event.
    pub init: Vec<u8>,
    pub init_err: bool,
    /// Lazy source families: number of items of the produced stream (codes 9000+i).
    pub src_items: u8,
    /// `ScriptStream` pendings before item i / before the end (send_stream input or lazy source stream).
    pub stream_pend: Vec<u8>,
    /// Lazy sink-source: is the source half polled by a second task at all?
    pub with_reader: bool,
    pub sched: u32,
    pub sched_len: u8,
    /// try_for_each families: the closure fails on items with this value (3 = never).
    pub fail_val: u8,
}

impl Case {
    pub fn new(fam: Fam) -> Case {
        Case {
            fam,
            fickle: false,
            items: vec![],
            sinks: vec![SinkScript::default(); fam.n_sinks()],
            plan: Plan { flush_after: 0, final_flush: true, gap_yield: false },
            init: vec![],
            init_err: false,
            src_items: 0,
            stream_pend: vec![],
            with_reader: fam == Fam::LazySinkSource,
            sched: 0,
            sched_len: 0,
            fail_val: 3,
        }
    }

    /// The code of input item i.
    pub fn code(&self, i: usize) -> u32 {
        (i as u32 + 1) * 10 + self.items[i] as u32
    }
    pub fn codes(&self) -> Vec<u32> {
        (0..self.items.len()).map(|i| self.code(i)).collect()
    }
    pub fn src_codes(&self) -> Vec<u32> {
        (0..self.src_items as u32).map(|i| 9000 + i).collect()
    }
    pub fn total_pendings(&self) -> usize {
        self.sinks.iter().map(|s| s.pendings()).sum::<usize>()
            + self.init.len()
            + self.stream_pend.iter().map(|&x| x as usize).sum::<usize>()
    }

    pub fn to_json(&self) -> Value {
        let b = |v: &Vec<bool>| Value::from(v.iter().map(|&x| x as u8).collect::<Vec<u8>>());
        json!({
            "engine": "mon_sinks",
            "family": self.fam.name(),
            "flavour": if self.fickle { "fickle" } else { "sticky" },
            "items": self.items,
            "sinks": self.sinks.iter().map(|s| json!({
                "ready": b(&s.ready), "flush": b(&s.flush), "close": b(&s.close),
                "err": s.err.map(|(p, a)| json!([p, a])),
            })).collect::<Vec<_>>(),
            "plan": {"flush_after": self.plan.flush_after, "final_flush": self.plan.final_flush, "gap_yield": self.plan.gap_yield},
            "init": self.init, "init_err": self.init_err,
            "src_items": self.src_items, "stream_pend": self.stream_pend, "with_reader": self.with_reader,
            "sched": self.sched, "sched_len": self.sched_len, "fail_val": self.fail_val,
            "legend": "items: value (or demux key) of input item i, code=(i+1)*10+v; scripts: 1=Pending per scripted call, exhausted=Ready(Ok); err=[phase 0 ready/1 send/2 flush/3 close, call index]; init: 1=Pending+self-wake, 2=Pending until external event",
        })
    }

    pub fn from_json(v: &Value) -> Option<Case> {
        let u8s = |x: &Value| -> Vec<u8> {
            x.as_array().map(|a| a.iter().map(|e| e.as_u64().unwrap_or(0) as u8).collect()).unwrap_or_default()
        };
        let bools = |x: &Value| -> Vec<bool> { u8s(x).into_iter().map(|e| e != 0).collect() };
        let fam = Fam::from_name(v.get("family")?.as_str()?)?;
        let mut c = Case::new(fam);
        c.fickle = v.get("flavour").and_then(|x| x.as_str()) == Some("fickle");
        c.items = u8s(v.get("items")?);
        c.sinks = v
            .get("sinks")?
            .as_array()?
            .iter()
            .map(|s| SinkScript {
                ready: bools(&s["ready"]),
                flush: bools(&s["flush"]),
                close: bools(&s["close"]),
                err: s["err"].as_array().map(|a| (a[0].as_u64().unwrap_or(0) as u8, a[1].as_u64().unwrap_or(0) as u8)),
            })
            .collect();
        while c.sinks.len() < fam.n_sinks() {
            c.sinks.push(SinkScript::default());
        }
        let p = &v["plan"];
        c.plan = Plan {
            flush_after: p["flush_after"].as_u64().unwrap_or(0) as u32,
            final_flush: p["final_flush"].as_bool().unwrap_or(true),
            gap_yield: p["gap_yield"].as_bool().unwrap_or(false),
        };
        c.init = u8s(&v["init"]);
        c.init_err = v["init_err"].as_bool().unwrap_or(false);
        c.src_items = v["src_items"].as_u64().unwrap_or(0) as u8;
        c.stream_pend = u8s(&v["stream_pend"]);
        c.with_reader = v["with_reader"].as_bool().unwrap_or(false);
        c.sched = v["sched"].as_u64().unwrap_or(0) as u32;
        c.sched_len = v["sched_len"].as_u64().unwrap_or(0) as u8;
        c.fail_val = v["fail_val"].as_u64().unwrap_or(3) as u8;
        Some(c)
    }
}

// ---------------------------------------------------------------------------------------------
// The item functions handed to the adaptors (shared with the reference model below; they are plain
// arithmetic on codes, the *adaptor semantics* are modelled with std iterators).

pub fn f_map(x: u32) -> u32 {
    x + 1000
}
pub fn f_keep(x: &u32) -> bool {
    *x % 10 != 1
}
pub fn f_fm(x: u32) -> Option<u32> {
    if x % 10 == 1 { None } else { Some(x + 2000) }
}
/// value v ⇒ v outputs (0 ⇒ none).
pub fn f_expand(x: u32) -> Vec<u32> {
    (0..x % 10).map(|j| x * 10 + j).collect()
}
pub fn f_pair(x: u32) -> (u32, u32) {
    (x, x + 500_000)
}
/// Does the fallible closure of the try_for_each families fail on code y?
pub fn f_fails(fam: Fam, fail_val: u8, y: u32) -> bool {
    if fail_val >= 3 {
        return false;
    }
    match fam {
        Fam::ChainTry => (y / 10) % 10 == fail_val as u32,
        _ => y % 10 == fail_val as u32,
    }
}

/// Reference model: for input item i, the ordered list of (inner sink, code) deliveries it causes.
pub fn expected_per_item(c: &Case) -> Vec<Vec<(u8, u32)>> {
    let codes = c.codes();
    codes
        .iter()
        .enumerate()
        .map(|(i, &x)| -> Vec<(u8, u32)> {
            let one = std::iter::once(x);
            match c.fam {
                Fam::Map => one.map(f_map).map(|y| (0, y)).collect(),
                Fam::Filter => one.filter(f_keep).map(|y| (0, y)).collect(),
                Fam::FilterMap => one.filter_map(f_fm).map(|y| (0, y)).collect(),
                Fam::Inspect | Fam::ForEach | Fam::TryForEach | Fam::SendIter | Fam::SendStream => {
                    one.map(|y| (0, y)).collect()
                }
                Fam::LazySink | Fam::LazySinkSource => one.map(|y| (0, y)).collect(),
                Fam::LazySource => vec![],
                Fam::FlatMap | Fam::Flatten => one.flat_map(f_expand).map(|y| (0, y)).collect(),
                Fam::Unzip => {
                    let (a, b) = f_pair(x);
                    vec![(0, a), (1, b)]
                }
                Fam::DemuxMap | Fam::DemuxMapLazy | Fam::DemuxVar2 | Fam::DemuxVar3 => {
                    vec![(c.items[i], x)]
                }
                Fam::Chain => one.map(f_map).filter_map(f_fm).flat_map(f_expand).map(|y| (0, y)).collect(),
                Fam::ChainUnzip => one
                    .flat_map(f_expand)
                    .map(f_pair)
                    .flat_map(|(a, b)| [(0u8, a), (1u8, b)])
                    .collect(),
                Fam::ChainTry => one.map(f_map).flat_map(f_expand).map(|y| (0, y)).collect(),
                Fam::SendIterChain => one.map(f_map).filter(f_keep).map(|y| (0, y)).collect(),
                // keys 0/1 route to sink 0/1, items with key 2 are filtered out before the demux
                Fam::SendStreamDemux => one.filter(|y| y % 10 != 2).map(|y| (c.items[i], y)).collect(),
            }
        })
        .collect()
}
