//! Harness building blocks for C14: the shared event log (`World`), counting wakers and the scripted
//! executor, `CheckSink`, `ScriptStream`, `ScriptInit` and the contract-obeying sink driver.
//!
//! Nothing in here panics on misuse by the code under test: every call is recorded and answered; the
//! judgement happens afterwards in `judge.rs` over the recorded history.

use std::cell::RefCell;
use std::collections::VecDeque;
use std::future::Future;
use std::pin::Pin;
use std::rc::Rc;
use std::sync::Arc;
use std::sync::atomic::{AtomicBool, AtomicUsize, Ordering};
use std::task::{Context, Poll, Wake, Waker};

use futures::{Sink, Stream};

// ---------------------------------------------------------------------------------------------
// Event log

/// Who produced an event.
#[derive(Clone, Copy, Debug, PartialEq, Eq)]
pub enum Actor {
    /// The driver calling a method of the adaptor under test (`Begin`/answer pairs).
    Drv,
    /// Inner (downstream) sink number i.
    Inner(u8),
    /// The init closure of a lazy adaptor / the per-key factory of `demux_map_lazy` (key in `Send`).
    Func,
    /// The init future of a lazy adaptor.
    Init,
    /// A scripted stream (input of `send_stream`, or the stream produced by a lazy source).
    Stream,
    /// The reader task of a lazy source (what the consumer observed).
    Reader,
    /// The closure of `inspect`.
    Inspect,
}

#[derive(Clone, Copy, Debug, PartialEq, Eq)]
pub enum Op {
    Ready,
    Send(u32),
    Flush,
    Close,
    /// Poll of a future (init future, or the `SendIter`/`SendStream` future when actor is `Drv`).
    Poll,
    /// `poll_next` of a stream.
    Next,
    /// Invocation of a closure (argument, e.g. key).
    Call(u32),
}

#[derive(Clone, Copy, Debug, PartialEq, Eq)]
pub enum Ans {
    /// Driver is about to call the adaptor.
    Begin,
    Ok,
    Pending,
    Err,
    Item(u32),
    None,
    /// The adaptor call panicked.
    Panic,
    /// Future polled again after it had completed.
    AfterDone,
}

#[derive(Clone, Copy, Debug, PartialEq, Eq)]
pub struct Ev {
    pub task: u8,
    pub actor: Actor,
    pub op: Op,
    pub ans: Ans,
}

pub enum Deferred {
    /// Wake this waker (registered by a `CheckSink`/`ScriptStream` that answered `Pending`).
    Plain(Waker),
    /// Fire the init future's external event: mark it fired and wake the most recent waker it stored.
    Init(Rc<RefCell<InitSlot>>),
}

#[derive(Default)]
pub struct InitSlot {
    pub waker: Option<Waker>,
    pub fired: bool,
}

#[derive(Default)]
pub struct World {
    pub log: Vec<Ev>,
    pub deferred: VecDeque<Deferred>,
    pub cur_task: u8,
    pub panic_msg: Option<String>,
}

pub type W = Rc<RefCell<World>>;

pub fn new_world() -> W {
    Rc::new(RefCell::new(World::default()))
}

pub fn ev(w: &W, actor: Actor, op: Op, ans: Ans) {
    let mut g = w.borrow_mut();
    let task = g.cur_task;
    g.log.push(Ev { task, actor, op, ans });
}

fn defer_wake(w: &W, cx: &Context<'_>) {
    w.borrow_mut().deferred.push_back(Deferred::Plain(cx.waker().clone()));
}

// ---------------------------------------------------------------------------------------------
// Errors

/// The one error type used by every scripted component.
#[derive(Clone, Copy, Debug, PartialEq, Eq)]
pub struct SinkErr(pub u32);

pub trait ErrView {
    #[allow(dead_code)]
    fn code(&self) -> u32;
}
impl ErrView for SinkErr {
    fn code(&self) -> u32 {
        self.0
    }
}
impl ErrView for std::convert::Infallible {
    fn code(&self) -> u32 {
        match *self {}
    }
}

pub const ERR_READY: u32 = 1;
pub const ERR_SEND: u32 = 2;
pub const ERR_FLUSH: u32 = 3;
pub const ERR_CLOSE: u32 = 4;
pub const ERR_INIT: u32 = 5;
pub const ERR_FUNC: u32 = 6;
pub const ERR_INIT_AGAIN: u32 = 7;

// ---------------------------------------------------------------------------------------------
// CheckSink

/// Answer scripts of one inner sink. `true` = `Pending`. A script is consumed one entry per *scripted*
/// call; when exhausted the answer is `Ready(Ok)`.
///
/// * sticky flavour: a `Ready(Ok)` answer of `poll_ready` (`poll_flush`) is latched and repeated without
///   consuming the script until the next `start_send`; `poll_close` latches for good.
/// * fickle flavour: nothing is latched; every call consumes one script entry, so the sink may answer
///   `Pending` again after `Ready(Ok)` without an intervening `start_send` (legal for a `Sink`).
#[derive(Clone, Debug, Default, Hash, PartialEq, Eq)]
pub struct SinkScript {
    pub ready: Vec<bool>,
    pub flush: Vec<bool>,
    pub close: Vec<bool>,
    /// Error injection: (phase 0=ready 1=send 2=flush 3=close, index of the call of that phase that errs).
    pub err: Option<(u8, u8)>,
}

impl SinkScript {
    pub fn pendings(&self) -> usize {
        self.ready.iter().chain(&self.flush).chain(&self.close).filter(|b| **b).count()
    }
}

pub struct CheckSink {
    id: u8,
    w: W,
    fickle: bool,
    script: SinkScript,
    pos: [usize; 3],
    calls: [u8; 4],
    latch_ready: bool,
    latch_flush: bool,
    latch_close: bool,
}

impl CheckSink {
    pub fn new(id: u8, w: &W, fickle: bool, script: SinkScript) -> CheckSink {
        CheckSink {
            id,
            w: w.clone(),
            fickle,
            script,
            pos: [0; 3],
            calls: [0; 4],
            latch_ready: false,
            latch_flush: false,
            latch_close: false,
        }
    }

    fn errs(&mut self, phase: usize) -> bool {
        let n = self.calls[phase];
        self.calls[phase] = n.saturating_add(1);
        self.script.err == Some((phase as u8, n))
    }

    fn scripted(&mut self, phase: usize) -> bool {
        let s = match phase {
            0 => &self.script.ready,
            1 => &self.script.flush,
            _ => &self.script.close,
        };
        let p = self.pos[phase];
        let pend = s.get(p).copied().unwrap_or(false);
        self.pos[phase] = p + 1;
        pend
    }

    fn poll_phase(&mut self, cx: &mut Context<'_>, phase: usize) -> Poll<Result<(), SinkErr>> {
        let (op, errphase, code) = match phase {
            0 => (Op::Ready, 0, ERR_READY),
            1 => (Op::Flush, 2, ERR_FLUSH),
            _ => (Op::Close, 3, ERR_CLOSE),
        };
        let actor = Actor::Inner(self.id);
        if self.errs(errphase) {
            ev(&self.w, actor, op, Ans::Err);
            return Poll::Ready(Err(SinkErr(code)));
        }
        let latched = match phase {
            0 => self.latch_ready,
            1 => self.latch_flush,
            _ => self.latch_close,
        };
        if !latched && self.scripted(phase) {
            ev(&self.w, actor, op, Ans::Pending);
            defer_wake(&self.w, cx);
            return Poll::Pending;
        }
        if !self.fickle {
            match phase {
                0 => self.latch_ready = true,
                1 => self.latch_flush = true,
                _ => self.latch_close = true,
            }
        }
        ev(&self.w, actor, op, Ans::Ok);
        Poll::Ready(Ok(()))
    }
}

impl Sink<u32> for CheckSink {
    type Error = SinkErr;

    fn poll_ready(self: Pin<&mut Self>, cx: &mut Context<'_>) -> Poll<Result<(), SinkErr>> {
        self.get_mut().poll_phase(cx, 0)
    }
    fn start_send(self: Pin<&mut Self>, item: u32) -> Result<(), SinkErr> {
        let this = self.get_mut();
        this.latch_ready = false;
        this.latch_flush = false;
        if this.errs(1) {
            ev(&this.w, Actor::Inner(this.id), Op::Send(item), Ans::Err);
            return Err(SinkErr(ERR_SEND));
        }
        ev(&this.w, Actor::Inner(this.id), Op::Send(item), Ans::Ok);
        Ok(())
    }
    fn poll_flush(self: Pin<&mut Self>, cx: &mut Context<'_>) -> Poll<Result<(), SinkErr>> {
        self.get_mut().poll_phase(cx, 1)
    }
    fn poll_close(self: Pin<&mut Self>, cx: &mut Context<'_>) -> Poll<Result<(), SinkErr>> {
        self.get_mut().poll_phase(cx, 2)
    }
}

// ---------------------------------------------------------------------------------------------
// ScriptStream

/// Yields `items` in order; before item i (and before the end, entry `items.len()`) it answers
/// `pend[i]` times `Pending` (with a deferred wake). After the end it keeps answering `None`.
pub struct ScriptStream {
    w: W,
    items: Vec<u32>,
    pend: Vec<u8>,
    idx: usize,
    pended: u8,
}

impl ScriptStream {
    pub fn new(w: &W, items: Vec<u32>, pend: Vec<u8>) -> ScriptStream {
        ScriptStream { w: w.clone(), items, pend, idx: 0, pended: 0 }
    }
}

impl Stream for ScriptStream {
    type Item = u32;
    fn poll_next(self: Pin<&mut Self>, cx: &mut Context<'_>) -> Poll<Option<u32>> {
        let this = self.get_mut();
        let want = this.pend.get(this.idx).copied().unwrap_or(0);
        if this.idx <= this.items.len() && this.pended < want {
            this.pended += 1;
            ev(&this.w, Actor::Stream, Op::Next, Ans::Pending);
            defer_wake(&this.w, cx);
            return Poll::Pending;
        }
        if this.idx < this.items.len() {
            let x = this.items[this.idx];
            this.idx += 1;
            this.pended = 0;
            ev(&this.w, Actor::Stream, Op::Next, Ans::Item(x));
            Poll::Ready(Some(x))
        } else {
            this.idx = this.items.len() + 1;
            ev(&this.w, Actor::Stream, Op::Next, Ans::None);
            Poll::Ready(None)
        }
    }
}

// ---------------------------------------------------------------------------------------------
// ScriptInit

/// The init future of a lazy adaptor. `steps`: 1 = answer `Pending` and wake the given waker at once
/// (a yield); 2 = answer `Pending`, remember the most recent waker and stay pending until the executor
/// fires the external event at quiescence (I/O-like readiness; the event wakes only the most recently
/// stored waker, as a real reactor would). After the steps: `Ready(out)`.
pub struct ScriptInit<T> {
    w: W,
    steps: Vec<u8>,
    pos: usize,
    armed: Option<Rc<RefCell<InitSlot>>>,
    out: Option<Result<T, SinkErr>>,
}

impl<T> ScriptInit<T> {
    pub fn new(w: &W, steps: Vec<u8>, out: Result<T, SinkErr>) -> Self {
        ScriptInit { w: w.clone(), steps, pos: 0, armed: None, out: Some(out) }
    }
}

impl<T: Unpin> Future for ScriptInit<T> {
    type Output = Result<T, SinkErr>;
    fn poll(self: Pin<&mut Self>, cx: &mut Context<'_>) -> Poll<Self::Output> {
        let this = self.get_mut();
        if this.out.is_none() {
            ev(&this.w, Actor::Init, Op::Poll, Ans::AfterDone);
            return Poll::Ready(Err(SinkErr(ERR_INIT_AGAIN)));
        }
        loop {
            if let Some(slot) = &this.armed {
                let fired = slot.borrow().fired;
                if !fired {
                    slot.borrow_mut().waker = Some(cx.waker().clone());
                    ev(&this.w, Actor::Init, Op::Poll, Ans::Pending);
                    return Poll::Pending;
                }
                this.armed = None;
                this.pos += 1;
            }
            match this.steps.get(this.pos).copied() {
                Some(2) => {
                    let slot = Rc::new(RefCell::new(InitSlot { waker: None, fired: false }));
                    this.w.borrow_mut().deferred.push_back(Deferred::Init(slot.clone()));
                    this.armed = Some(slot);
                    // loop: registers the waker and answers Pending
                }
                Some(_) => {
                    this.pos += 1;
                    ev(&this.w, Actor::Init, Op::Poll, Ans::Pending);
                    cx.waker().wake_by_ref();
                    return Poll::Pending;
                }
                None => {
                    let out = this.out.take().unwrap();
                    ev(&this.w, Actor::Init, Op::Poll, if out.is_ok() { Ans::Ok } else { Ans::Err });
                    return Poll::Ready(out);
                }
            }
        }
    }
}

// ---------------------------------------------------------------------------------------------
// Counting wakers and the scripted executor

pub struct TaskWaker {
    flag: AtomicBool,
    count: AtomicUsize,
}

impl Wake for TaskWaker {
    fn wake(self: Arc<Self>) {
        self.wake_by_ref();
    }
    fn wake_by_ref(self: &Arc<Self>) {
        self.flag.store(true, Ordering::SeqCst);
        self.count.fetch_add(1, Ordering::SeqCst);
    }
}

pub type TaskFut<'a> = Pin<Box<dyn Future<Output = ()> + 'a>>;

#[derive(Clone, Debug, Default)]
pub struct ExecReport {
    /// Per task: finished?
    pub done: Vec<bool>,
    /// Per task: number of polls.
    pub polls: Vec<usize>,
    /// Per task: number of wake calls counted on its waker.
    pub wakes: Vec<usize>,
    /// Total polls reached the cap (a correct run never does).
    pub capped: bool,
    /// Number of scheduling points at which more than one task was runnable.
    pub choice_points: usize,
}

/// Run `tasks` to quiescence. A task is polled only when it is new or its waker was woken. When
/// several are runnable, bit i of `sched` picks at the i-th such choice point (0 = lowest index,
/// 1 = highest); beyond `sched_len` the lowest index runs. When nothing is runnable the oldest deferred
/// external event is fired; when there is none either, the run is quiescent.
pub fn run_tasks(w: &W, mut tasks: Vec<TaskFut<'_>>, sched: u32, sched_len: u8, cap: usize) -> ExecReport {
    let n = tasks.len();
    let wakers: Vec<Arc<TaskWaker>> = (0..n)
        .map(|_| Arc::new(TaskWaker { flag: AtomicBool::new(true), count: AtomicUsize::new(0) }))
        .collect();
    let handles: Vec<Waker> = wakers.iter().map(|a| Waker::from(a.clone())).collect();
    let mut rep = ExecReport { done: vec![false; n], polls: vec![0; n], ..Default::default() };
    let mut total = 0usize;
    loop {
        let runnable: Vec<usize> =
            (0..n).filter(|&i| !rep.done[i] && wakers[i].flag.load(Ordering::SeqCst)).collect();
        if runnable.is_empty() {
            let d = w.borrow_mut().deferred.pop_front();
            match d {
                Some(Deferred::Plain(wk)) => wk.wake(),
                Some(Deferred::Init(slot)) => {
                    let wk = {
                        let mut s = slot.borrow_mut();
                        s.fired = true;
                        s.waker.take()
                    };
                    if let Some(wk) = wk {
                        wk.wake();
                    }
                }
                None => break,
            }
            continue;
        }
        let pick = if runnable.len() > 1 {
            let bit = if (rep.choice_points as u8) < sched_len { (sched >> rep.choice_points) & 1 } else { 0 };
            rep.choice_points += 1;
            if bit == 1 { *runnable.last().unwrap() } else { runnable[0] }
        } else {
            runnable[0]
        };
        if total >= cap {
            rep.capped = true;
            break;
        }
        total += 1;
        rep.polls[pick] += 1;
        wakers[pick].flag.store(false, Ordering::SeqCst);
        w.borrow_mut().cur_task = pick as u8;
        let mut cx = Context::from_waker(&handles[pick]);
        if tasks[pick].as_mut().poll(&mut cx).is_ready() {
            rep.done[pick] = true;
        }
    }
    rep.wakes = wakers.iter().map(|a| a.count.load(Ordering::SeqCst)).collect();
    rep
}

// ---------------------------------------------------------------------------------------------
// The sink driver

#[derive(Clone, Copy, Debug, Default, Hash, PartialEq, Eq)]
pub struct Plan {
    /// Bit i: after item i has been accepted, flush completely before going on.
    pub flush_after: u32,
    /// Flush completely before closing (otherwise close directly; close must flush by contract).
    pub final_flush: bool,
    /// Yield to the executor once between `poll_ready → Ready(Ok)` and `start_send` (legal: the contract
    /// only asks that `start_send` is preceded by a successful `poll_ready`).
    pub gap_yield: bool,
}

struct YieldOnce(bool);
impl Future for YieldOnce {
    type Output = ();
    fn poll(mut self: Pin<&mut Self>, cx: &mut Context<'_>) -> Poll<()> {
        if self.0 {
            Poll::Ready(())
        } else {
            self.0 = true;
            cx.waker().wake_by_ref();
            Poll::Pending
        }
    }
}

fn record<E: ErrView>(w: &W, op: Op, r: &Result<Poll<Result<(), E>>, String>) {
    let ans = match r {
        Ok(Poll::Ready(Ok(()))) => Ans::Ok,
        Ok(Poll::Ready(Err(_))) => Ans::Err,
        Ok(Poll::Pending) => Ans::Pending,
        Err(m) => {
            w.borrow_mut().panic_msg.get_or_insert_with(|| m.clone());
            Ans::Panic
        }
    };
    ev(w, Actor::Drv, op, ans);
}

/// Poll one of the three poll methods until it is ready. Returns false if the driver must stop
/// (error or panic).
async fn poll_until<S, I>(w: &W, sink: &mut Pin<Box<S>>, op: Op) -> bool
where
    S: Sink<I>,
    S::Error: ErrView,
{
    std::future::poll_fn(|cx| {
        ev(w, Actor::Drv, op, Ans::Begin);
        let r = vcommon::catch(|| match op {
            Op::Ready => sink.as_mut().poll_ready(cx),
            Op::Flush => sink.as_mut().poll_flush(cx),
            _ => sink.as_mut().poll_close(cx),
        });
        record(w, op, &r);
        match r {
            Ok(Poll::Ready(Ok(()))) => Poll::Ready(true),
            Ok(Poll::Pending) => Poll::Pending,
            _ => Poll::Ready(false),
        }
    })
    .await
}

/// Send `items` through `sink` obeying the `Sink` contract: `poll_ready` until `Ready(Ok)`, then
/// `start_send`; optional complete flushes in between; finally (flush and) close; stop at the first
/// error or panic. Everything is recorded in the world log.
pub async fn drive<S, I>(w: W, mut sink: Pin<Box<S>>, items: Vec<I>, plan: Plan)
where
    S: Sink<I>,
    S::Error: ErrView,
{
    for (i, item) in items.into_iter().enumerate() {
        if !poll_until::<S, I>(&w, &mut sink, Op::Ready).await {
            return;
        }
        if plan.gap_yield {
            YieldOnce(false).await;
        }
        ev(&w, Actor::Drv, Op::Send(i as u32), Ans::Begin);
        let r = vcommon::catch(|| sink.as_mut().start_send(item));
        let rr = r.map(Poll::Ready);
        record(&w, Op::Send(i as u32), &rr);
        if !matches!(rr, Ok(Poll::Ready(Ok(())))) {
            return;
        }
        if i < 32 && plan.flush_after >> i & 1 == 1 && !poll_until::<S, I>(&w, &mut sink, Op::Flush).await {
            return;
        }
    }
    if plan.final_flush && !poll_until::<S, I>(&w, &mut sink, Op::Flush).await {
        return;
    }
    poll_until::<S, I>(&w, &mut sink, Op::Close).await;
}

/// Drive a future that is itself the sender (`SendIter`, `SendStream`).
pub async fn drive_future<F, E>(w: W, mut fut: Pin<Box<F>>)
where
    F: Future<Output = Result<(), E>>,
    E: ErrView,
{
    std::future::poll_fn(|cx| {
        ev(&w, Actor::Drv, Op::Poll, Ans::Begin);
        let r = vcommon::catch(|| fut.as_mut().poll(cx));
        record(&w, Op::Poll, &r);
        match r {
            Ok(Poll::Pending) => Poll::Pending,
            _ => Poll::Ready(()),
        }
    })
    .await
}

/// Read a stream until it answers `None` (or panics), recording what the consumer saw.
pub async fn read_all<St: Stream<Item = u32>>(w: W, mut st: Pin<Box<St>>) {
    loop {
        let r = std::future::poll_fn(|cx| {
            let r = vcommon::catch(|| st.as_mut().poll_next(cx));
            match r {
                Ok(Poll::Pending) => {
                    ev(&w, Actor::Reader, Op::Next, Ans::Pending);
                    Poll::Pending
                }
                Ok(Poll::Ready(Some(x))) => {
                    ev(&w, Actor::Reader, Op::Next, Ans::Item(x));
                    Poll::Ready(true)
                }
                Ok(Poll::Ready(None)) => {
                    ev(&w, Actor::Reader, Op::Next, Ans::None);
                    Poll::Ready(false)
                }
                Err(m) => {
                    w.borrow_mut().panic_msg.get_or_insert(m);
                    ev(&w, Actor::Reader, Op::Next, Ans::Panic);
                    Poll::Ready(false)
                }
            }
        })
        .await;
        if !r {
            return;
        }
    }
}
