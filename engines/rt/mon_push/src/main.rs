//! C12 — push combinators (`dfir_pipes::push::*`, `pull::send_push`) deliver the right items and honour
//! the push protocol for every pattern of downstream `Pending`.
//!
//! The real combinators are built over `CheckPush` downstreams (see `harness.rs`) and driven by a
//! protocol-obeying driver. Downstream answers are either explored exhaustively (a DFS over every
//! Done/Pending choice with a budget of k Pendings per downstream and per phase) or read from random
//! scripts. The recorded call history is then judged by `judge` below: reference semantics per downstream
//! (`fams.rs`) plus the protocol rules of the property text.

mod fams;
mod harness;

use fams::{Exp, Expect, FAMS, Fam, In};
use harness::*;
use vcommon::{Args, Reporter, Tier, Value, hash_of, json};

// ---------------------------------------------------------------------------------------------
// Oracle

#[derive(Default)]
struct Tally {
    runs: Vec<u64>,
    nontrivial: Vec<u64>,
    pend_runs: Vec<u64>,
    repoll_ready_after_done: u64,
    repoll_finalize_after_done: u64,
    ready_polled_after_finalize_began: u64,
    send_with_older_done_but_last_poll_pending: u64,
    downstream_pending_answers: u64,
    inner_pending_answers: u64,
    top_pending_returns: u64,
    items_delivered: u64,
    got: [Vec<V>; MAXD],
    side: Vec<V>,
}

fn is_subseq(small: &[V], big: &[V]) -> bool {
    let mut it = big.iter();
    small.iter().all(|x| it.any(|y| y == x))
}

fn is_subbag(small: &[V], big: &[V]) -> bool {
    // both sorted
    let mut j = 0;
    for x in small {
        while j < big.len() && big[j] < *x {
            j += 1;
        }
        if j >= big.len() || big[j] != *x {
            return false;
        }
        j += 1;
    }
    true
}

fn show(v: &[V]) -> String {
    let parts: Vec<String> = v.iter().map(|&(a, b)| if b == NIL { format!("{a}") } else { format!("({a},{b})") }).collect();
    format!("[{}]", parts.join(","))
}

fn classify(exp: &Expect, got: &[V]) -> Option<(&'static str, String)> {
    match exp {
        Expect::Skip => None,
        Expect::Seq(e) => {
            if e[..] == got[..] {
                return None;
            }
            let kind = if is_subseq(got, e) {
                "items-lost"
            } else if is_subseq(e, got) {
                "items-extra"
            } else {
                let (mut a, mut b) = (e.clone(), got.to_vec());
                a.sort();
                b.sort();
                if a == b { "items-reordered" } else { "items-wrong" }
            };
            Some((kind, format!("delivered {} but the reference semantics prescribes {}", show(got), show(e))))
        }
        Expect::Bag(e) => {
            let (mut a, mut b) = (e.clone(), got.to_vec());
            a.sort();
            b.sort();
            if a == b {
                return None;
            }
            let kind = if is_subbag(&b, &a) {
                "items-lost"
            } else if is_subbag(&a, &b) {
                "items-extra"
            } else {
                "items-wrong"
            };
            Some((kind, format!("delivered {} but the reference semantics prescribes (in any order) {}", show(got), show(e))))
        }
    }
}

fn panic_class(msg: &str) -> String {
    let s: String = msg.chars().take(60).map(|c| if c.is_ascii_alphanumeric() || c == ' ' || c == '_' { c } else { '.' }).collect();
    s.trim().replace(' ', "_")
}

fn case_json(fam: &Fam, inp: &In, h: &Harness) -> Value {
    let down: Vec<Value> = (0..fam.nd)
        .map(|d| {
            let s = &h.down[d];
            json!({"sticky": s.sticky, "ready": s.rec_ready.to_str(s.rpos), "fin": s.rec_fin.to_str(s.fpos)})
        })
        .collect();
    json!({"engine": "mon_push", "family": fam.name, "variant": inp.variant, "prev": inp.prev, "items": inp.items,
           "down": down, "inner": h.inner_rec.to_str(h.inner_pos),
           "legend": "ready/fin/inner: answer per consuming call, 1 = Pending, exhausted = Done; sticky: a Done stays Done until a send"})
}

/// Judge one finished run from the recorded history. Returns true if the run was non-trivial.
fn judge(rep: &mut Reporter, t: &mut Tally, fi: usize, inp: &In, outcome: &Outcome, exp: &Exp) -> bool {
    let fam = &FAMS[fi];
    let nd = fam.nd;
    H.with(|h| {
        let h = h.borrow();
        let mut viol: Vec<(String, String)> = vec![];
        let mut add = |k: String, w: String| {
            if !viol.iter().any(|(kk, _)| *kk == k) {
                viol.push((k, w));
            }
        };
        let mut ready_ok = [false; MAXD];
        let mut last_ready_done = [false; MAXD];
        let mut fin_called = [false; MAXD];
        let mut fin_done = [false; MAXD];
        let mut nsend = [0usize; MAXD];
        let mut pend_since_send = [false; MAXD];
        let mut pend_between = false;
        let mut fin_pend = false;
        let mut any_pend = false;
        let mut pend_in_call = false;
        for g in t.got.iter_mut() {
            g.clear();
        }
        t.side.clear();
        for (idx, ev) in h.log.iter().enumerate() {
            match *ev {
                Ev::TopBegin(_) => pend_in_call = false,
                Ev::TopEnd(op, done) => {
                    if !done {
                        t.top_pending_returns += 1;
                        if !pend_in_call {
                            add(format!("spurious-pending|{}", op.name()), format!("event #{idx}: the combinator's {} returned Pending although no downstream (and no inner future/stream) answered Pending during that call", op.name()));
                        }
                    }
                    if op == Op::Fin && done {
                        for d in 0..nd {
                            if !fin_done[d] {
                                if fin_called[d] {
                                    add(format!("finalize-not-done-after-last-item|d{d}"), format!("the combinator reported Done but downstream {d} never answered poll_finalize -> Done after its last item"));
                                } else {
                                    add(format!("finalize-missing|d{d}"), format!("the combinator reported Done but poll_finalize was never called on downstream {d}"));
                                }
                            }
                        }
                    }
                }
                Ev::DReady(d, done) => {
                    let d = d as usize;
                    if fin_called[d] {
                        t.ready_polled_after_finalize_began += 1;
                    }
                    if done {
                        if ready_ok[d] {
                            t.repoll_ready_after_done += 1;
                        }
                        ready_ok[d] = true;
                        last_ready_done[d] = true;
                    } else {
                        t.downstream_pending_answers += 1;
                        pend_in_call = true;
                        any_pend = true;
                        last_ready_done[d] = false;
                        if nsend[d] > 0 {
                            pend_since_send[d] = true;
                        }
                    }
                }
                Ev::DSend(d, v) => {
                    let d = d as usize;
                    if !ready_ok[d] {
                        add(format!("send-without-ready|d{d}"), format!("event #{idx}: start_send({}) on downstream {d} without a poll_ready -> Done on it since its previous send", show(&[v])));
                    } else if !last_ready_done[d] {
                        t.send_with_older_done_but_last_poll_pending += 1;
                    }
                    if fin_called[d] {
                        add(format!("send-after-finalize|d{d}"), format!("event #{idx}: start_send({}) on downstream {d} after poll_finalize had been called on it", show(&[v])));
                    }
                    if pend_since_send[d] {
                        pend_between = true;
                    }
                    pend_since_send[d] = false;
                    nsend[d] += 1;
                    ready_ok[d] = false;
                    last_ready_done[d] = false;
                    fin_done[d] = false;
                    t.got[d].push(v);
                    t.items_delivered += 1;
                }
                Ev::DFin(d, done) => {
                    let d = d as usize;
                    if fin_done[d] {
                        t.repoll_finalize_after_done += 1;
                    }
                    fin_called[d] = true;
                    if done {
                        fin_done[d] = true;
                    } else {
                        t.downstream_pending_answers += 1;
                        pend_in_call = true;
                        fin_pend = true;
                        any_pend = true;
                    }
                }
                Ev::Inner(p) => {
                    if p {
                        t.inner_pending_answers += 1;
                        pend_in_call = true;
                    }
                }
                Ev::Side(v) => t.side.push(v),
            }
        }
        let mut evals = 1 + 2 * nd as u64; // progress/termination + (items, protocol) per downstream
        match outcome {
            Outcome::Hang(op) => add(format!("no-progress|{}", op.name()), format!("the driver's step cap ({}) was exceeded while repeating {}", h.cap, op.name())),
            Outcome::Panic(msg) => add(format!("panic|{}", panic_class(msg)), format!("the combinator panicked although the driver obeyed the protocol: {msg}")),
            Outcome::Done => {
                for d in 0..nd {
                    if let Some((k, w)) = classify(&exp.down[d], &t.got[d]) {
                        add(format!("{k}|d{d}"), format!("downstream {d}: {w}"));
                    }
                }
                if let Some(s) = &exp.side {
                    evals += 1;
                    if s[..] != t.side[..] {
                        add("side-effects-wrong".into(), format!("closure/buffer saw {} but the inputs were {}", show(&t.side), show(s)));
                    }
                }
            }
        }
        for (k, w) in &h.custom {
            add(k.clone(), w.clone());
        }
        rep.evals(evals);
        t.runs[fi] += 1;
        if any_pend {
            t.pend_runs[fi] += 1;
        }
        let nontrivial = pend_between || fin_pend;
        if nontrivial {
            t.nontrivial[fi] += 1;
            let key = (fam.name, inp, [h.down[0].rec_ready, h.down[1].rec_ready, h.down[2].rec_ready], [h.down[0].rec_fin, h.down[1].rec_fin, h.down[2].rec_fin],
                       [h.down[0].sticky, h.down[1].sticky, h.down[2].sticky], h.inner_rec);
            rep.nontrivial(hash_of(&key));
            if t.nontrivial[fi] % 257 == 1 {
                rep.sample(|| case_json(fam, inp, &h));
            }
        }
        if !viol.is_empty() {
            let case = case_json(fam, inp, &h);
            for (k, w) in viol {
                let site = if fam.variants > 1 { format!("{}#v{}", fam.name, inp.variant) } else { fam.name.to_string() };
                rep.violation(&format!("C12|{site}|{k}"), &format!("{site}: {w}"), case.clone());
            }
        }
        nontrivial
    })
}

// ---------------------------------------------------------------------------------------------
// Workloads

fn cap_for(n_items: usize, pendings: usize) -> usize {
    3 * (n_items + pendings) + 16
}

/// Exhaustively explore every Done/Pending answer pattern (budget k per downstream and phase, k_inner for the
/// inner futures) for one input. Returns the number of runs (leaves). `max_leaves` truncates (Miri only).
fn explore(rep: &mut Reporter, t: &mut Tally, fi: usize, inp: &In, sticky: bool, k: u8, k_inner: u8, max_leaves: usize) -> u64 {
    let fam = &FAMS[fi];
    let exp = (fam.expect)(inp);
    let budget = fam.nd * 2 * k as usize + if fam.inner { k_inner as usize } else { 0 };
    let cap = cap_for(inp.items.len(), budget);
    let mode = Mode::Explore { sticky, k, k_inner: if fam.inner { k_inner } else { 0 } };
    H.with(|h| h.borrow_mut().clear_stack());
    let mut leaves = 0u64;
    loop {
        H.with(|h| h.borrow_mut().begin(&mode, cap));
        let out = (fam.run)(inp);
        if H.with(|h| h.borrow().diverged) {
            eprintln!("harness failure: run of {} diverged from its recorded choice prefix (non-determinism)", fam.name);
            std::process::exit(3);
        }
        judge(rep, t, fi, inp, &out, &exp);
        leaves += 1;
        if leaves as usize >= max_leaves || !H.with(|h| h.borrow_mut().backtrack()) {
            break;
        }
    }
    leaves
}

fn run_script(rep: &mut Reporter, t: &mut Tally, fi: usize, inp: &In, down: [DScr; MAXD], inner: Bits) -> bool {
    let fam = &FAMS[fi];
    let exp = (fam.expect)(inp);
    let pend: u32 = down.iter().take(fam.nd).map(|d| d.ready.count() + d.fin.count()).sum::<u32>() + inner.count();
    let cap = cap_for(inp.items.len(), pend as usize);
    H.with(|h| h.borrow_mut().begin(&Mode::Script { down, inner }, cap));
    let out = (fam.run)(inp);
    judge(rep, t, fi, inp, &out, &exp)
}

/// All sequences over {0,1,2} of length <= nmax.
fn seqs(nmax: usize) -> Vec<Vec<i64>> {
    let mut out = vec![vec![]];
    let mut layer: Vec<Vec<i64>> = vec![vec![]];
    for _ in 0..nmax {
        let mut next = vec![];
        for s in &layer {
            for x in 0..3 {
                let mut v = s.clone();
                v.push(x);
                next.push(v);
            }
        }
        out.extend(next.iter().cloned());
        layer = next;
    }
    out
}

/// Families whose answer tree explodes (compositions over several downstreams, the 4 queue variants of resolve_futures):
/// they keep the quick bounds in the thorough tier (the number of distinct cases that can be held in
/// memory for the distinct-case count is the limit, not time).
const HEAVY: &[&str] = &["resolve_futures", "c:map>fanout>(filter,flat_map)", "c:flatten>fanout>(id,persist)", "c:resolve_futures>flat_map", "c:flat_map>unzip", "c:filter_map_async>fanout", "c:fanout>(fanout,id)"];

/// (n_max, k, k_inner) for the bounded-exhaustive part, by family shape, flavour and tier.
fn bounds(fam: &Fam, sticky: bool, tier: Tier) -> (usize, u8, u8) {
    let thorough = tier == Tier::Thorough && !HEAVY.contains(&fam.name);
    let (n, k) = match (fam.nd, sticky) {
        (0, _) => (4, 0),
        (1, _) => (4, if thorough { 3 } else { 2 }),
        (2, true) => (4, if thorough { 3 } else { 2 }),
        (2, false) => {
            if thorough {
                (3, 2)
            } else {
                (4, 1)
            }
        }
        (_, true) => {
            if thorough {
                (4, 2)
            } else {
                (3, 2)
            }
        }
        (_, false) => {
            if thorough {
                (4, 1)
            } else {
                (3, 1)
            }
        }
    };
    // heavy families: length 3 in the quick tier, length 4 (with the quick Pending budget) in the thorough tier
    let n = if tier == Tier::Quick && HEAVY.contains(&fam.name) { n.min(3) } else { n };
    (n, k, k.min(2))
}

fn parse_case(case: &Value) -> Option<(usize, In, [DScr; MAXD], Bits)> {
    let name = case["family"].as_str()?;
    let fi = FAMS.iter().position(|f| f.name == name)?;
    let ints = |v: &Value| -> Vec<i64> { v.as_array().map(|a| a.iter().filter_map(|x| x.as_i64()).collect()).unwrap_or_default() };
    let inp = In { variant: case["variant"].as_u64().unwrap_or(0) as u8, prev: ints(&case["prev"]), items: ints(&case["items"]) };
    let mut down = [DScr::default(); MAXD];
    if let Some(a) = case["down"].as_array() {
        for (d, s) in a.iter().enumerate().take(MAXD) {
            down[d] = DScr { sticky: s["sticky"].as_bool().unwrap_or(true), ready: Bits::parse(s["ready"].as_str().unwrap_or("")), fin: Bits::parse(s["fin"].as_str().unwrap_or("")) };
        }
    }
    Some((fi, inp, down, Bits::parse(case["inner"].as_str().unwrap_or(""))))
}

fn main() {
    let args = Args::parse();
    if args.prop == "NONE" {
        return;
    }
    if args.prop != "C12" {
        eprintln!("mon_push serves C12 only");
        std::process::exit(3);
    }
    let mut rep = Reporter::new("C12", args.seed);
    let nf = FAMS.len();
    let mut t = Tally { runs: vec![0; nf], nontrivial: vec![0; nf], pend_runs: vec![0; nf], ..Default::default() };

    if let Some(case) = args.replay_case() {
        match parse_case(&case) {
            Some((fi, inp, down, inner)) => {
                run_script(&mut rep, &mut t, fi, &inp, down, inner);
                H.with(|h| {
                    let h = h.borrow();
                    rep.extra("history", json!(h.log.iter().map(|e| format!("{e:?}")).collect::<Vec<_>>()));
                });
            }
            None => {
                eprintln!("replay descriptor not understood: {case}");
                std::process::exit(3);
            }
        }
        rep.finish("replay", false);
        return;
    }

    let mut rng = args.rng();
    let miri = args.tier == Tier::Miri;

    // (1) bounded-exhaustive: every item sequence x every answer pattern within the Pending budget
    let mut case_index = 0usize;
    let mut leaves_by_fam: Vec<[u64; 2]> = vec![[0; 2]; nf];
    // developer options: --bounds n,k,k_inner (override the table) and --only <substring of family name>
    let opt = |name: &str| args.rest.iter().position(|a| a == name).and_then(|i| args.rest.get(i + 1)).cloned();
    let forced: Option<Vec<usize>> = opt("--bounds").map(|s| s.split(',').map(|x| x.parse().expect("--bounds n,k,k_inner")).collect());
    let only = opt("--only");
    if miri {
        let inputs: Vec<Vec<i64>> = vec![vec![], vec![2], vec![1, 2], vec![2, 0, 2]];
        for (fi, fam) in FAMS.iter().enumerate() {
            for variant in 0..fam.variants {
                for items in &inputs {
                    case_index += 1;
                    if !args.in_shard(case_index) {
                        continue;
                    }
                    let prev = if (fam.prev)(variant) && !items.is_empty() { vec![1, 2] } else { vec![] };
                    let inp = In { variant, prev, items: items.clone() };
                    let sticky = case_index % 2 == 0;
                    leaves_by_fam[fi][sticky as usize] += explore(&mut rep, &mut t, fi, &inp, sticky, 1, 1, 6);
                }
            }
        }
    } else {
        for (fi, fam) in FAMS.iter().enumerate() {
            for sticky in [true, false] {
                if fam.nd == 0 && !sticky {
                    continue;
                }
                if only.as_ref().is_some_and(|o| !fam.name.contains(o.as_str())) {
                    continue;
                }
                let (nmax, k, k_inner) = match &forced {
                    Some(f) => (f[0], f[1] as u8, f[2] as u8),
                    None => bounds(fam, sticky, args.tier),
                };
                let all = seqs(nmax);
                for variant in 0..fam.variants {
                    for s in &all {
                        let splits = if (fam.prev)(variant) { s.len() } else { 0 };
                        for cut in 0..=splits {
                            let inp = In { variant, prev: s[..cut].to_vec(), items: s[cut..].to_vec() };
                            leaves_by_fam[fi][sticky as usize] += explore(&mut rep, &mut t, fi, &inp, sticky, k, k_inner, usize::MAX);
                        }
                    }
                }
            }
        }
    }

    // (2) random long runs: length <= 30, Pending density 0-60 % per run, sticky/fickle per downstream
    let tuning = forced.is_some() || only.is_some();
    let n_random = if tuning { 0 } else { args.budget(20_000, 1_000_000, 40) };
    let mut random_nontrivial = 0u64;
    for r in 0..n_random {
        if miri && !args.in_shard(r) {
            continue;
        }
        let fi = rng.below(nf);
        let fam = &FAMS[fi];
        let variant = rng.below(fam.variants as usize) as u8;
        let nmax = if miri { 6 } else { 30 };
        let n = rng.below(nmax + 1);
        let items: Vec<i64> = (0..n).map(|_| rng.below(3) as i64).collect();
        let prev: Vec<i64> = if (fam.prev)(variant) { (0..rng.below(6)).map(|_| rng.below(3) as i64).collect() } else { vec![] };
        let dens = rng.below(61) as u32;
        let mut down = [DScr::default(); MAXD];
        for d in down.iter_mut().take(fam.nd) {
            *d = DScr { sticky: rng.chance(1, 2), ready: Bits::random(&mut rng, dens), fin: Bits::random(&mut rng, dens) };
            // finalize scripts: keep the number of Pendings moderate so that the run stays short
            for i in 12..Bits::LEN {
                if d.fin.get(i) {
                    d.fin.0[i >> 6] &= !(1 << (i & 63));
                }
            }
        }
        let inner = if fam.inner { Bits::random(&mut rng, dens) } else { Bits::default() };
        let inp = In { variant, prev, items };
        if run_script(&mut rep, &mut t, fi, &inp, down, inner) {
            random_nontrivial += 1;
        }
    }

    // evidence
    for (fi, fam) in FAMS.iter().enumerate() {
        rep.count_n(&format!("runs.{}", fam.name), t.runs[fi]);
        rep.count_n(&format!("nontrivial.{}", fam.name), t.nontrivial[fi]);
        rep.count_n(&format!("exhaustive_leaves.{}.sticky", fam.name), leaves_by_fam[fi][1]);
        rep.count_n(&format!("exhaustive_leaves.{}.fickle", fam.name), leaves_by_fam[fi][0]);
    }
    rep.count_n("repoll.poll_ready_on_downstream_already_Done(not a violation)", t.repoll_ready_after_done);
    rep.count_n("repoll.poll_finalize_on_downstream_already_Done(not a violation)", t.repoll_finalize_after_done);
    rep.count_n("note.poll_ready_on_downstream_after_its_finalize_began(not a violation)", t.ready_polled_after_finalize_began);
    rep.count_n("note.send_after_older_Done_but_latest_poll_ready_Pending(not a violation)", t.send_with_older_done_but_last_poll_pending);
    rep.count_n("downstream_pending_answers", t.downstream_pending_answers);
    rep.count_n("inner_pending_answers", t.inner_pending_answers);
    rep.count_n("combinator_pending_returns", t.top_pending_returns);
    rep.count_n("items_delivered", t.items_delivered);
    rep.count_n("random_runs", n_random as u64);
    rep.count_n("random_runs_nontrivial", random_nontrivial);

    if tuning {
        rep.require(false, "developer options --bounds/--only in use: partial run");
    } else if !miri {
        for (fi, fam) in FAMS.iter().enumerate() {
            rep.require(t.runs[fi] > 0, &format!("family {} never ran", fam.name));
            if fam.nd > 0 {
                rep.require(t.nontrivial[fi] >= 200, &format!("family {}: fewer than 200 non-trivial runs", fam.name));
            }
        }
        rep.require(t.repoll_ready_after_done > 0 && t.repoll_finalize_after_done > 0, "no ready_both!-style re-poll of a Done downstream was observed");
        rep.require(random_nontrivial as usize >= n_random / 4, "fewer than a quarter of the random runs were non-trivial");
    } else {
        rep.require(t.runs.iter().sum::<u64>() > 0, "shard ran nothing");
    }
    rep.finish(
        "Bounded-exhaustive: for every combinator/composition in the catalogue, every item sequence over {0,1,2} up to the family's length bound \
         (4; 3 for some 3-downstream/fickle spaces, see bounds()) x (for stateful operators) every split into previous-epoch/current-epoch items x both downstream \
         flavours (sticky / fickle) x a DFS over every Done/Pending answer of every downstream poll_ready and poll_finalize and every inner future/stream poll, \
         with at most k Pendings per downstream and per phase (k = 2 quick / 3 thorough; 1-2 for the fickle multi-downstream spaces) - all combinations across the \
         2-3 downstreams of fanout/unzip/demux_var/state_push. Random: 20 000 / 10^6 runs, length <= 30, Pending density 0-60 % per run, flavour drawn per downstream. \
         A run is non-trivial iff some downstream answered Pending between two of its items or answered Pending to poll_finalize.",
        !miri,
    );
}
