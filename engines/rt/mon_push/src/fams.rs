//! The catalogue: for every push combinator (and a few depth-2/3 compositions) one `run` function that
//! builds the real combinator over `CheckPush` downstreams and drives it, and one `expect` function — the
//! independent reference semantics written with std iterators.

use std::collections::{BTreeMap, HashMap};
use std::hash::BuildHasherDefault;
use std::pin::pin;
use std::task::{Context, Poll, Waker};

use dfir_pipes::pull::Pull;
use dfir_pipes::push::{self, FoldKeyed, ReduceKeyed, SortState};
use futures::stream::{FuturesOrdered, FuturesUnordered};
use futures::Stream;

use crate::harness::*;

#[derive(Clone, Debug, Default, PartialEq, Eq, Hash)]
pub struct In {
    pub variant: u8,
    /// Items of the previous epoch (only for families with state that persists across epochs).
    pub prev: Vec<i64>,
    pub items: Vec<i64>,
}

#[derive(Clone, Debug)]
pub enum Expect {
    /// Exactly these items in this order.
    Seq(Vec<V>),
    /// These items in any order (keyed accumulators, unordered future queues).
    Bag(Vec<V>),
    /// Judged by a custom check inside `run`.
    Skip,
}

pub struct Exp {
    pub down: Vec<Expect>,
    pub side: Option<Vec<V>>,
}

pub struct Fam {
    pub name: &'static str,
    pub nd: usize,
    pub variants: u8,
    /// Which variants use `In::prev`.
    pub prev: fn(u8) -> bool,
    /// Inner futures/streams/pulls with scripted Pendings.
    pub inner: bool,
    pub run: fn(&In) -> Outcome,
    pub expect: fn(&In) -> Exp,
}

type DetHash = BuildHasherDefault<std::collections::hash_map::DefaultHasher>;
type DetMap = HashMap<i64, i64, DetHash>;

fn s1(x: i64) -> V {
    (x, NIL)
}
fn seq1(it: impl IntoIterator<Item = i64>) -> Expect {
    Expect::Seq(it.into_iter().map(s1).collect())
}
fn one(e: Expect) -> Exp {
    Exp { down: vec![e], side: None }
}
fn no_prev(_: u8) -> bool {
    false
}
fn all_prev(_: u8) -> bool {
    true
}

// reference value functions -------------------------------------------------------------------
fn f_map(x: i64) -> i64 {
    x * 10 + 1
}
fn f_filter(x: &i64) -> bool {
    *x != 1
}
fn f_filter_map(x: i64) -> Option<i64> {
    if x == 1 { None } else { Some(x + 5) }
}
fn f_flat(x: i64) -> Vec<i64> {
    (0..x).map(|j| x * 10 + j).collect()
}
fn f_acc(a: &mut i64, x: i64) {
    *a = a.wrapping_mul(31).wrapping_add(x);
}
const FOLD_INIT: i64 = 7;
const KEYED_INIT: i64 = 3;

fn keyed(prev: &[i64], items: &[i64]) -> (Vec<(i64, i64)>, Vec<(i64, i64)>) {
    let p: Vec<(i64, i64)> = prev.iter().enumerate().map(|(i, &x)| (x, i as i64 + 1)).collect();
    let n = prev.len();
    let q: Vec<(i64, i64)> = items.iter().enumerate().map(|(i, &x)| (x, (n + i) as i64 + 1)).collect();
    (p, q)
}

/// Drive a "previous epoch" silently (all downstreams Done, nothing logged).
fn silent<P, T, I>(p: std::pin::Pin<&mut P>, items: I)
where
    P: push::Push<T, ()>,
    I: IntoIterator<Item = T>,
    I::IntoIter: ExactSizeIterator,
{
    set_mute(true);
    let o = drive(p, items, true);
    set_mute(false);
    debug_assert_eq!(o, Outcome::Done);
}

// ---------------------------------------------------------------------------------------------
// stateless single-downstream

fn run_map(i: &In) -> Outcome {
    guarded(|| drive(pin!(push::map(f_map, CheckPush::<i64>::new(0))), i.items.iter().copied(), true))
}
fn exp_map(i: &In) -> Exp {
    one(seq1(i.items.iter().copied().map(f_map)))
}

fn run_filter(i: &In) -> Outcome {
    guarded(|| drive(pin!(push::filter(f_filter, CheckPush::<i64>::new(0))), i.items.iter().copied(), true))
}
fn exp_filter(i: &In) -> Exp {
    one(seq1(i.items.iter().copied().filter(f_filter)))
}

fn run_filter_map(i: &In) -> Outcome {
    guarded(|| drive(pin!(push::filter_map(f_filter_map, CheckPush::<i64>::new(0))), i.items.iter().copied(), true))
}
fn exp_filter_map(i: &In) -> Exp {
    one(seq1(i.items.iter().copied().filter_map(f_filter_map)))
}

fn run_inspect(i: &In) -> Outcome {
    guarded(|| drive(pin!(push::inspect(|x: &i64| side(s1(*x)), CheckPush::<i64>::new(0))), i.items.iter().copied(), true))
}
fn exp_inspect(i: &In) -> Exp {
    Exp { down: vec![seq1(i.items.iter().copied())], side: Some(i.items.iter().copied().map(s1).collect()) }
}

fn run_flat_map(i: &In) -> Outcome {
    guarded(|| drive(pin!(push::flat_map(f_flat, CheckPush::<i64>::new(0))), i.items.iter().copied(), true))
}
fn exp_flat_map(i: &In) -> Exp {
    one(seq1(i.items.iter().copied().flat_map(f_flat)))
}

fn run_flatten(i: &In) -> Outcome {
    guarded(|| {
        let input: Vec<Vec<i64>> = i.items.iter().map(|&x| f_flat(x)).collect();
        drive(pin!(push::flatten::<Vec<i64>, (), _>(CheckPush::<i64>::new(0))), input, true)
    })
}

fn run_for_each(i: &In) -> Outcome {
    guarded(|| drive(pin!(push::for_each(|x: i64| side(s1(x)))), i.items.iter().copied(), true))
}
fn exp_side_only(i: &In) -> Exp {
    Exp { down: vec![], side: Some(i.items.iter().copied().map(s1).collect()) }
}

fn run_vec_push(i: &In) -> Outcome {
    let mut buf: Vec<i64> = i.prev.clone();
    let o = guarded(|| drive(pin!(push::vec_push(&mut buf)), i.items.iter().copied(), true));
    for x in &buf[i.prev.len().min(buf.len())..] {
        side(s1(*x));
    }
    if buf.len() < i.prev.len() || buf[..i.prev.len()] != i.prev[..] {
        custom("state-wrong", format!("vec_push disturbed existing contents: {buf:?}"));
    }
    o
}

// ---------------------------------------------------------------------------------------------
// multi-downstream

fn run_fanout(i: &In) -> Outcome {
    guarded(|| drive(pin!(push::fanout(CheckPush::<i64>::new(0), CheckPush::<i64>::new(1))), i.items.iter().copied(), true))
}
fn exp_fanout(i: &In) -> Exp {
    Exp { down: vec![seq1(i.items.iter().copied()), seq1(i.items.iter().copied())], side: None }
}

fn unzip_in(items: &[i64]) -> Vec<(i64, i64)> {
    items.iter().enumerate().map(|(p, &x)| (x * 10 + p as i64, 100 + x)).collect()
}
fn run_unzip(i: &In) -> Outcome {
    guarded(|| drive(pin!(push::unzip(CheckPush::<i64>::new(0), CheckPush::<i64>::new(1))), unzip_in(&i.items), true))
}
fn exp_unzip(i: &In) -> Exp {
    let (a, b): (Vec<i64>, Vec<i64>) = unzip_in(&i.items).into_iter().unzip();
    Exp { down: vec![seq1(a), seq1(b)], side: None }
}

fn demux_in(items: &[i64], nd: usize) -> Vec<(usize, i64)> {
    items.iter().enumerate().map(|(p, &x)| ((x as usize) % nd, p as i64 * 10 + x)).collect()
}
fn exp_demux(items: &[i64], nd: usize) -> Exp {
    let mut out: Vec<Vec<i64>> = vec![vec![]; nd];
    for (idx, v) in demux_in(items, nd) {
        out[idx].push(v);
    }
    Exp { down: out.into_iter().map(seq1).collect(), side: None }
}
fn run_demux2(i: &In) -> Outcome {
    guarded(|| {
        let d = push::demux_var((CheckPush::<i64>::new(0), (CheckPush::<i64>::new(1), ())));
        drive(pin!(d), demux_in(&i.items, 2), true)
    })
}
fn exp_demux2(i: &In) -> Exp {
    exp_demux(&i.items, 2)
}
fn run_demux3(i: &In) -> Outcome {
    guarded(|| {
        let d = push::demux_var((CheckPush::<i64>::new(0), (CheckPush::<i64>::new(1), (CheckPush::<i64>::new(2), ()))));
        drive(pin!(d), demux_in(&i.items, 3), true)
    })
}
fn exp_demux3(i: &In) -> Exp {
    exp_demux(&i.items, 3)
}

// ---------------------------------------------------------------------------------------------
// accumulators

fn fold_ref(init: i64, xs: impl IntoIterator<Item = i64>) -> i64 {
    let mut a = init;
    for x in xs {
        f_acc(&mut a, x);
    }
    a
}

/// variant 0: owned accumulator; variant 1: borrowed `&mut` accumulator that persists across epochs.
fn run_fold(i: &In) -> Outcome {
    if i.variant == 0 {
        guarded(|| drive(pin!(push::fold::<i64, _, i64, i64, _>(FOLD_INIT, f_acc, CheckPush::<i64>::new(0))), i.items.iter().copied(), true))
    } else {
        let mut acc = FOLD_INIT;
        if !i.prev.is_empty() {
            let p = push::fold::<&mut i64, _, i64, i64, _>(&mut acc, f_acc, CheckPush::<&mut i64>::new(0));
            silent(pin!(p), i.prev.iter().copied());
        }
        let o = guarded(|| {
            let p = push::fold::<&mut i64, _, i64, i64, _>(&mut acc, f_acc, CheckPush::<&mut i64>::new(0));
            drive(pin!(p), i.items.iter().copied(), true)
        });
        let want = fold_ref(FOLD_INIT, i.prev.iter().chain(i.items.iter()).copied());
        if o == Outcome::Done && acc != want {
            custom("state-wrong", format!("borrowed fold accumulator is {acc}, reference {want}"));
        }
        o
    }
}
fn exp_fold(i: &In) -> Exp {
    let all: Vec<i64> = if i.variant == 0 { i.items.clone() } else { i.prev.iter().chain(i.items.iter()).copied().collect() };
    one(seq1([fold_ref(FOLD_INIT, all)]))
}
fn prev_fold(v: u8) -> bool {
    v == 1
}

fn reduce_ref_model(init: Option<i64>, xs: impl IntoIterator<Item = i64>) -> Option<i64> {
    let mut a = init;
    for x in xs {
        match &mut a {
            Some(acc) => f_acc(acc, x),
            None => a = Some(x),
        }
    }
    a
}
/// variant 0: owned, None; 1: owned, Some(5); 2: `reduce_ref` into a persisting `&mut Option`.
fn run_reduce(i: &In) -> Outcome {
    match i.variant {
        0 | 1 => {
            let init = if i.variant == 0 { None } else { Some(5i64) };
            guarded(|| drive(pin!(push::reduce(init, f_acc, CheckPush::<i64>::new(0))), i.items.iter().copied(), true))
        }
        _ => {
            let mut acc: Option<i64> = None;
            if !i.prev.is_empty() {
                silent(pin!(push::reduce_ref(&mut acc, f_acc, CheckPush::<&mut i64>::new(0))), i.prev.iter().copied());
            }
            let o = guarded(|| drive(pin!(push::reduce_ref(&mut acc, f_acc, CheckPush::<&mut i64>::new(0))), i.items.iter().copied(), true));
            let want = reduce_ref_model(None, i.prev.iter().chain(i.items.iter()).copied());
            if o == Outcome::Done && acc != want {
                custom("state-wrong", format!("reduce_ref accumulator is {acc:?}, reference {want:?}"));
            }
            o
        }
    }
}
fn exp_reduce(i: &In) -> Exp {
    let r = match i.variant {
        0 => reduce_ref_model(None, i.items.iter().copied()),
        1 => reduce_ref_model(Some(5), i.items.iter().copied()),
        _ => reduce_ref_model(None, i.prev.iter().chain(i.items.iter()).copied()),
    };
    one(seq1(r))
}
fn prev_reduce(v: u8) -> bool {
    v == 2
}

fn run_accum_sort(i: &In) -> Outcome {
    guarded(|| drive(pin!(push::accumulate(SortState::<i64>::new(), CheckPush::<i64>::new(0))), i.items.iter().copied(), true))
}
fn run_sort(i: &In) -> Outcome {
    guarded(|| drive(pin!(push::sort(CheckPush::<i64>::new(0))), i.items.iter().copied(), true))
}
fn exp_sort(i: &In) -> Exp {
    let mut v = i.items.clone();
    v.sort();
    one(seq1(v))
}

fn keyed_model(fold: bool, pairs: impl IntoIterator<Item = (i64, i64)>) -> BTreeMap<i64, i64> {
    let mut m = BTreeMap::new();
    for (k, v) in pairs {
        if fold {
            f_acc(m.entry(k).or_insert(KEYED_INIT), v);
        } else {
            match m.entry(k) {
                std::collections::btree_map::Entry::Vacant(e) => {
                    e.insert(v);
                }
                std::collections::btree_map::Entry::Occupied(mut e) => f_acc(e.get_mut(), v),
            }
        }
    }
    m
}
fn run_fold_keyed(i: &In) -> Outcome {
    let (p, q) = keyed(&i.prev, &i.items);
    let mut map = DetMap::default();
    if !p.is_empty() {
        let c = FoldKeyed::<_, _, _, _, i64, i64, i64>::new(&mut map, || KEYED_INIT, f_acc, CheckPush::<(i64, i64)>::new(0));
        silent(pin!(c), p.clone());
    }
    let o = guarded(|| {
        let c = FoldKeyed::<_, _, _, _, i64, i64, i64>::new(&mut map, || KEYED_INIT, f_acc, CheckPush::<(i64, i64)>::new(0));
        drive(pin!(c), q.clone(), true)
    });
    let want = keyed_model(true, p.into_iter().chain(q));
    let have: BTreeMap<i64, i64> = map.into_iter().collect();
    if o == Outcome::Done && have != want {
        custom("state-wrong", format!("fold_keyed map is {have:?}, reference {want:?}"));
    }
    o
}
fn exp_fold_keyed(i: &In) -> Exp {
    let (p, q) = keyed(&i.prev, &i.items);
    one(Expect::Bag(keyed_model(true, p.into_iter().chain(q)).into_iter().collect()))
}
fn run_reduce_keyed(i: &In) -> Outcome {
    let (p, q) = keyed(&i.prev, &i.items);
    let mut map = DetMap::default();
    if !p.is_empty() {
        let c = ReduceKeyed::<_, _, _, i64, i64>::new(&mut map, f_acc, CheckPush::<(i64, i64)>::new(0));
        silent(pin!(c), p.clone());
    }
    let o = guarded(|| {
        let c = ReduceKeyed::<_, _, _, i64, i64>::new(&mut map, f_acc, CheckPush::<(i64, i64)>::new(0));
        drive(pin!(c), q.clone(), true)
    });
    let want = keyed_model(false, p.into_iter().chain(q));
    let have: BTreeMap<i64, i64> = map.into_iter().collect();
    if o == Outcome::Done && have != want {
        custom("state-wrong", format!("reduce_keyed map is {have:?}, reference {want:?}"));
    }
    o
}
fn exp_reduce_keyed(i: &In) -> Exp {
    let (p, q) = keyed(&i.prev, &i.items);
    one(Expect::Bag(keyed_model(false, p.into_iter().chain(q)).into_iter().collect()))
}

/// variant 0: replay off; 1: replay on. `prev` is pushed through a first epoch of the real Persist.
fn run_persist(i: &In) -> Outcome {
    let mut buf: Vec<i64> = Vec::new();
    if !i.prev.is_empty() {
        silent(pin!(push::persist_state(&mut buf, false, CheckPush::<i64>::new(0))), i.prev.iter().copied());
    }
    let o = guarded(|| drive(pin!(push::persist_state(&mut buf, i.variant == 1, CheckPush::<i64>::new(0))), i.items.iter().copied(), true));
    let want: Vec<i64> = i.prev.iter().chain(i.items.iter()).copied().collect();
    if o == Outcome::Done && buf != want {
        custom("state-wrong", format!("persist buffer is {buf:?}, reference {want:?}"));
    }
    o
}
fn exp_persist(i: &In) -> Exp {
    if i.variant == 1 { one(seq1(i.prev.iter().chain(i.items.iter()).copied())) } else { one(seq1(i.items.iter().copied())) }
}

/// d0 = items that changed the `Max` state, d1 = the state, once, at finalize.
fn run_state_push(i: &In) -> Outcome {
    let mut st = lattices::Max::new(-1i64);
    if !i.prev.is_empty() {
        let c = push::state_push(CheckPush::<i64>::new(0), CheckPush::<lattices::Max<i64>>::new(1), |x: i64| lattices::Max::new(x), &mut st);
        silent(pin!(c), i.prev.iter().copied());
    }
    let o = guarded(|| {
        let c = push::state_push(CheckPush::<i64>::new(0), CheckPush::<lattices::Max<i64>>::new(1), |x: i64| lattices::Max::new(x), &mut st);
        drive(pin!(c), i.items.iter().copied(), true)
    });
    let want = i.prev.iter().chain(i.items.iter()).copied().fold(-1, i64::max);
    if o == Outcome::Done && *st.as_reveal_ref() != want {
        custom("state-wrong", format!("state_push lattice is {st:?}, reference Max({want})"));
    }
    o
}
fn exp_state_push(i: &In) -> Exp {
    let mut m = i.prev.iter().copied().fold(-1, i64::max);
    let mut changed = vec![];
    for &x in &i.items {
        if x > m {
            m = x;
            changed.push(x);
        }
    }
    Exp { down: vec![seq1(changed), seq1([m])], side: None }
}

// ---------------------------------------------------------------------------------------------
// async-item combinators

fn fut_out(p: usize, x: i64) -> i64 {
    p as i64 * 10 + x
}

fn drain_queue<Q: Stream<Item = i64> + Unpin>(q: &mut Q) -> Option<Vec<i64>> {
    let mut cx = Context::from_waker(Waker::noop());
    let mut out = vec![];
    for _ in 0..(4 * cap() + 64) {
        match std::pin::Pin::new(&mut *q).poll_next(&mut cx) {
            Poll::Ready(Some(x)) => out.push(x),
            Poll::Ready(None) => return Some(out),
            Poll::Pending => {}
        }
    }
    None
}

fn delivered0() -> Vec<i64> {
    H.with(|h| h.borrow().log.iter().filter_map(|e| if let Ev::DSend(0, v) = e { Some(v.0) } else { None }).collect())
}

/// variants: 0 FuturesOrdered blocking (no subgraph waker); 1 FuturesUnordered blocking;
/// 2 FuturesOrdered with subgraph waker (non-blocking: unresolved futures stay queued); 3 FuturesUnordered with waker.
fn run_resolve_futures(i: &In) -> Outcome {
    let futs: Vec<ScriptFut<i64>> = i.items.iter().enumerate().map(|(p, &x)| ScriptFut::new(fut_out(p, x))).collect();
    let all: Vec<i64> = i.items.iter().enumerate().map(|(p, &x)| fut_out(p, x)).collect();
    let waker = if i.variant >= 2 { Some(Waker::noop().clone()) } else { None };
    if i.variant % 2 == 0 {
        let mut q: FuturesOrdered<ScriptFut<i64>> = FuturesOrdered::new();
        let o = guarded(|| drive(pin!(push::resolve_futures_state(&mut q, waker, CheckPush::<i64>::new(0))), futs, true));
        if o == Outcome::Done {
            let got = delivered0();
            match drain_queue(&mut q) {
                None => custom("queue-stuck", "futures left in the queue never resolve".into()),
                Some(rest) => {
                    if i.variant == 0 && !rest.is_empty() {
                        custom("items-lost|d0", format!("blocking resolve_futures reported Done with {rest:?} still queued"));
                    }
                    let total: Vec<i64> = got.iter().chain(rest.iter()).copied().collect();
                    if total != all {
                        custom("items-wrong|d0", format!("delivered {got:?} ++ still queued {rest:?} != {all:?}"));
                    }
                }
            }
        }
        o
    } else {
        let mut q: FuturesUnordered<ScriptFut<i64>> = FuturesUnordered::new();
        let o = guarded(|| drive(pin!(push::resolve_futures_state(&mut q, waker, CheckPush::<i64>::new(0))), futs, true));
        if o == Outcome::Done {
            let got = delivered0();
            match drain_queue(&mut q) {
                None => custom("queue-stuck", "futures left in the queue never resolve".into()),
                Some(rest) => {
                    if i.variant == 1 && !rest.is_empty() {
                        custom("items-lost|d0", format!("blocking resolve_futures reported Done with {rest:?} still queued"));
                    }
                    let mut total: Vec<i64> = got.iter().chain(rest.iter()).copied().collect();
                    total.sort();
                    let mut a = all.clone();
                    a.sort();
                    if total != a {
                        custom("items-wrong|d0", format!("delivered {got:?} + still queued {rest:?} != {all:?} as multisets"));
                    }
                }
            }
        }
        o
    }
}
fn exp_resolve_futures(i: &In) -> Exp {
    let all = i.items.iter().enumerate().map(|(p, &x)| fut_out(p, x));
    match i.variant {
        0 => one(seq1(all)),
        1 => one(Expect::Bag(all.map(s1).collect())),
        _ => one(Expect::Skip),
    }
}

fn run_flat_map_stream(i: &In) -> Outcome {
    guarded(|| drive(pin!(push::flat_map_stream(|x: i64| ScriptStream::new(f_flat(x)), CheckPush::<i64>::new(0))), i.items.iter().copied(), true))
}
fn run_flatten_stream(i: &In) -> Outcome {
    guarded(|| {
        let input: Vec<ScriptStream> = i.items.iter().map(|&x| ScriptStream::new(f_flat(x))).collect();
        drive(pin!(push::flatten_stream::<ScriptStream, (), _>(CheckPush::<i64>::new(0))), input, true)
    })
}
fn run_filter_map_async(i: &In) -> Outcome {
    guarded(|| drive(pin!(push::filter_map_async(|x: i64| ScriptFut::new(f_filter_map(x)), CheckPush::<i64>::new(0))), i.items.iter().copied(), true))
}

// ---------------------------------------------------------------------------------------------
// adapters

fn run_sink(i: &In) -> Outcome {
    guarded(|| drive(pin!(push::sink(CheckSink::<i64>::new(0))), i.items.iter().copied(), true))
}
fn exp_ident(i: &In) -> Exp {
    one(seq1(i.items.iter().copied()))
}
fn run_sink_compat(i: &In) -> Outcome {
    guarded(|| drive_sink(pin!(push::sink_compat(push::map(f_map, CheckPush::<i64>::new(0)))), i.items.iter().copied()))
}
fn run_send_push(i: &In) -> Outcome {
    guarded(|| drive_future(pin!(ScriptPull::new(i.items.iter().copied()).send_push(CheckPush::<i64>::new(0)))))
}

// ---------------------------------------------------------------------------------------------
// compositions

/// map -> fanout -> (filter -> D0, flat_map -> D1)
fn run_c_map_fanout(i: &In) -> Outcome {
    guarded(|| {
        let c = push::map(|x: i64| (x + 1) % 3, push::fanout(push::filter(f_filter, CheckPush::<i64>::new(0)), push::flat_map(f_flat, CheckPush::<i64>::new(1))));
        drive(pin!(c), i.items.iter().copied(), true)
    })
}
fn exp_c_map_fanout(i: &In) -> Exp {
    let m: Vec<i64> = i.items.iter().map(|&x| (x + 1) % 3).collect();
    Exp { down: vec![seq1(m.iter().copied().filter(f_filter)), seq1(m.iter().copied().flat_map(f_flat))], side: None }
}

/// flat_map -> unzip -> (D0, D1)
fn c_pairs(x: i64) -> Vec<(i64, i64)> {
    (0..x).map(|j| (x * 10 + j, 100 + j)).collect()
}
fn run_c_flat_unzip(i: &In) -> Outcome {
    guarded(|| {
        let c = push::flat_map(c_pairs, push::unzip(CheckPush::<i64>::new(0), CheckPush::<i64>::new(1)));
        drive(pin!(c), i.items.iter().copied(), true)
    })
}
fn exp_c_flat_unzip(i: &In) -> Exp {
    let (a, b): (Vec<i64>, Vec<i64>) = i.items.iter().copied().flat_map(c_pairs).unzip();
    Exp { down: vec![seq1(a), seq1(b)], side: None }
}

/// persist(replay) -> flatten -> D0, two epochs
fn run_c_persist_flatten(i: &In) -> Outcome {
    let mut buf: Vec<Vec<i64>> = Vec::new();
    if !i.prev.is_empty() {
        let c = push::persist_state(&mut buf, true, push::flatten::<Vec<i64>, (), _>(CheckPush::<i64>::new(0)));
        silent(pin!(c), i.prev.iter().map(|&x| f_flat(x)).collect::<Vec<_>>());
    }
    let o = guarded(|| {
        let c = push::persist_state(&mut buf, true, push::flatten::<Vec<i64>, (), _>(CheckPush::<i64>::new(0)));
        drive(pin!(c), i.items.iter().map(|&x| f_flat(x)).collect::<Vec<_>>(), true)
    });
    let want: Vec<Vec<i64>> = i.prev.iter().chain(i.items.iter()).map(|&x| f_flat(x)).collect();
    if o == Outcome::Done && buf != want {
        custom("state-wrong", format!("persist buffer is {buf:?}, reference {want:?}"));
    }
    o
}
fn exp_c_persist_flatten(i: &In) -> Exp {
    one(seq1(i.prev.iter().chain(i.items.iter()).copied().flat_map(f_flat)))
}

/// fanout -> (fold -> D0, sort -> D1)
fn run_c_fanout_fold_sort(i: &In) -> Outcome {
    guarded(|| {
        let c = push::fanout(push::fold::<i64, _, i64, i64, _>(FOLD_INIT, f_acc, CheckPush::<i64>::new(0)), push::sort(CheckPush::<i64>::new(1)));
        drive(pin!(c), i.items.iter().copied(), true)
    })
}
fn exp_c_fanout_fold_sort(i: &In) -> Exp {
    let mut v = i.items.clone();
    v.sort();
    Exp { down: vec![seq1([fold_ref(FOLD_INIT, i.items.iter().copied())]), seq1(v)], side: None }
}

/// filter_map -> fold_keyed -> D0
fn c_fk(x: (i64, i64)) -> Option<(i64, i64)> {
    if x.1 % 3 == 0 { None } else { Some((x.0, x.1 * 2)) }
}
fn run_c_filter_map_fold_keyed(i: &In) -> Outcome {
    let (_, q) = keyed(&[], &i.items);
    let mut map = DetMap::default();
    guarded(|| {
        let fk = FoldKeyed::<_, _, _, _, i64, i64, i64>::new(&mut map, || KEYED_INIT, f_acc, CheckPush::<(i64, i64)>::new(0));
        drive(pin!(push::filter_map(c_fk, fk)), q, true)
    })
}
fn exp_c_filter_map_fold_keyed(i: &In) -> Exp {
    let (_, q) = keyed(&[], &i.items);
    one(Expect::Bag(keyed_model(true, q.into_iter().filter_map(c_fk)).into_iter().collect()))
}

/// flatten -> fanout -> (D0, persist(replay) -> D1), previous epoch fills the persist buffer
fn run_c_flatten_fanout_persist(i: &In) -> Outcome {
    let mut buf: Vec<i64> = Vec::new();
    if !i.prev.is_empty() {
        silent(pin!(push::persist_state(&mut buf, false, CheckPush::<i64>::new(1))), i.prev.iter().copied());
    }
    guarded(|| {
        let c = push::flatten::<Vec<i64>, (), _>(push::fanout(CheckPush::<i64>::new(0), push::persist_state(&mut buf, true, CheckPush::<i64>::new(1))));
        drive(pin!(c), i.items.iter().map(|&x| f_flat(x)).collect::<Vec<_>>(), true)
    })
}
fn exp_c_flatten_fanout_persist(i: &In) -> Exp {
    let f: Vec<i64> = i.items.iter().copied().flat_map(f_flat).collect();
    Exp { down: vec![seq1(f.clone()), seq1(i.prev.iter().copied().chain(f))], side: None }
}

/// flat_map -> flat_map -> D0
fn c_ff2(y: i64) -> Vec<i64> {
    (0..(y % 3)).map(|j| y * 10 + j).collect()
}
fn run_c_flat_flat(i: &In) -> Outcome {
    guarded(|| drive(pin!(push::flat_map(f_flat, push::flat_map(c_ff2, CheckPush::<i64>::new(0)))), i.items.iter().copied(), true))
}
fn exp_c_flat_flat(i: &In) -> Exp {
    one(seq1(i.items.iter().copied().flat_map(f_flat).flat_map(c_ff2)))
}

/// demux_var -> (map -> D0, filter -> D1, flat_map -> D2)
fn run_c_demux3_ops(i: &In) -> Outcome {
    guarded(|| {
        let c = push::demux_var((
            push::map(f_map, CheckPush::<i64>::new(0)),
            (push::filter(|x: &i64| *x % 2 == 1, CheckPush::<i64>::new(1)), (push::flat_map(|x: i64| vec![x, x + 1], CheckPush::<i64>::new(2)), ())),
        ));
        drive(pin!(c), demux_in(&i.items, 3), true)
    })
}
fn exp_c_demux3_ops(i: &In) -> Exp {
    let mut out: Vec<Vec<i64>> = vec![vec![]; 3];
    for (idx, v) in demux_in(&i.items, 3) {
        match idx {
            0 => out[0].push(f_map(v)),
            1 => {
                if v % 2 == 1 {
                    out[1].push(v)
                }
            }
            _ => out[2].extend([v, v + 1]),
        }
    }
    Exp { down: out.into_iter().map(seq1).collect(), side: None }
}

/// filter_map_async -> fanout -> (D0, D1)
fn run_c_fma_fanout(i: &In) -> Outcome {
    guarded(|| {
        let c = push::filter_map_async(|x: i64| ScriptFut::new(f_filter_map(x)), push::fanout(CheckPush::<i64>::new(0), CheckPush::<i64>::new(1)));
        drive(pin!(c), i.items.iter().copied(), true)
    })
}
fn exp_c_fma_fanout(i: &In) -> Exp {
    let v: Vec<i64> = i.items.iter().copied().filter_map(f_filter_map).collect();
    Exp { down: vec![seq1(v.clone()), seq1(v)], side: None }
}

/// resolve_futures(ordered, blocking) -> flat_map -> D0
fn run_c_resolve_flat(i: &In) -> Outcome {
    let futs: Vec<ScriptFut<i64>> = i.items.iter().map(|&x| ScriptFut::new(x)).collect();
    let mut q: FuturesOrdered<ScriptFut<i64>> = FuturesOrdered::new();
    guarded(|| drive(pin!(push::resolve_futures_state(&mut q, None, push::flat_map(f_flat, CheckPush::<i64>::new(0)))), futs, true))
}

/// fanout -> (fanout -> (D0, D1), D2)
fn run_c_fanout_nested(i: &In) -> Outcome {
    guarded(|| {
        let c = push::fanout(push::fanout(CheckPush::<i64>::new(0), CheckPush::<i64>::new(1)), CheckPush::<i64>::new(2));
        drive(pin!(c), i.items.iter().copied(), true)
    })
}
fn exp_c_fanout_nested(i: &In) -> Exp {
    Exp { down: (0..3).map(|_| seq1(i.items.iter().copied())).collect(), side: None }
}

/// sort -> persist(replay) -> D0 : a finalize-time burst into a replaying persist
fn run_c_sort_persist(i: &In) -> Outcome {
    let mut buf: Vec<i64> = Vec::new();
    if !i.prev.is_empty() {
        silent(pin!(push::persist_state(&mut buf, false, CheckPush::<i64>::new(0))), i.prev.iter().copied());
    }
    guarded(|| drive(pin!(push::sort(push::persist_state(&mut buf, true, CheckPush::<i64>::new(0)))), i.items.iter().copied(), true))
}
fn exp_c_sort_persist(i: &In) -> Exp {
    let mut v = i.items.clone();
    v.sort();
    one(seq1(i.prev.iter().copied().chain(v)))
}

pub static FAMS: &[Fam] = &[
    Fam { name: "map", nd: 1, variants: 1, prev: no_prev, inner: false, run: run_map, expect: exp_map },
    Fam { name: "filter", nd: 1, variants: 1, prev: no_prev, inner: false, run: run_filter, expect: exp_filter },
    Fam { name: "filter_map", nd: 1, variants: 1, prev: no_prev, inner: false, run: run_filter_map, expect: exp_filter_map },
    Fam { name: "inspect", nd: 1, variants: 1, prev: no_prev, inner: false, run: run_inspect, expect: exp_inspect },
    Fam { name: "flat_map", nd: 1, variants: 1, prev: no_prev, inner: false, run: run_flat_map, expect: exp_flat_map },
    Fam { name: "flatten", nd: 1, variants: 1, prev: no_prev, inner: false, run: run_flatten, expect: exp_flat_map },
    Fam { name: "for_each", nd: 0, variants: 1, prev: no_prev, inner: false, run: run_for_each, expect: exp_side_only },
    Fam { name: "vec_push", nd: 0, variants: 1, prev: all_prev, inner: false, run: run_vec_push, expect: exp_side_only },
    Fam { name: "fanout", nd: 2, variants: 1, prev: no_prev, inner: false, run: run_fanout, expect: exp_fanout },
    Fam { name: "unzip", nd: 2, variants: 1, prev: no_prev, inner: false, run: run_unzip, expect: exp_unzip },
    Fam { name: "demux_var2", nd: 2, variants: 1, prev: no_prev, inner: false, run: run_demux2, expect: exp_demux2 },
    Fam { name: "demux_var3", nd: 3, variants: 1, prev: no_prev, inner: false, run: run_demux3, expect: exp_demux3 },
    Fam { name: "fold", nd: 1, variants: 2, prev: prev_fold, inner: false, run: run_fold, expect: exp_fold },
    Fam { name: "reduce", nd: 1, variants: 3, prev: prev_reduce, inner: false, run: run_reduce, expect: exp_reduce },
    Fam { name: "accumulate_sort", nd: 1, variants: 1, prev: no_prev, inner: false, run: run_accum_sort, expect: exp_sort },
    Fam { name: "sort", nd: 1, variants: 1, prev: no_prev, inner: false, run: run_sort, expect: exp_sort },
    Fam { name: "fold_keyed", nd: 1, variants: 1, prev: all_prev, inner: false, run: run_fold_keyed, expect: exp_fold_keyed },
    Fam { name: "reduce_keyed", nd: 1, variants: 1, prev: all_prev, inner: false, run: run_reduce_keyed, expect: exp_reduce_keyed },
    Fam { name: "persist", nd: 1, variants: 2, prev: all_prev, inner: false, run: run_persist, expect: exp_persist },
    Fam { name: "state_push", nd: 2, variants: 1, prev: all_prev, inner: false, run: run_state_push, expect: exp_state_push },
    Fam { name: "resolve_futures", nd: 1, variants: 4, prev: no_prev, inner: true, run: run_resolve_futures, expect: exp_resolve_futures },
    Fam { name: "flat_map_stream", nd: 1, variants: 1, prev: no_prev, inner: true, run: run_flat_map_stream, expect: exp_flat_map },
    Fam { name: "flatten_stream", nd: 1, variants: 1, prev: no_prev, inner: true, run: run_flatten_stream, expect: exp_flat_map },
    Fam { name: "filter_map_async", nd: 1, variants: 1, prev: no_prev, inner: true, run: run_filter_map_async, expect: exp_filter_map },
    Fam { name: "sink", nd: 1, variants: 1, prev: no_prev, inner: false, run: run_sink, expect: exp_ident },
    Fam { name: "sink_compat", nd: 1, variants: 1, prev: no_prev, inner: false, run: run_sink_compat, expect: exp_map },
    Fam { name: "send_push", nd: 1, variants: 1, prev: no_prev, inner: true, run: run_send_push, expect: exp_ident },
    Fam { name: "c:map>fanout>(filter,flat_map)", nd: 2, variants: 1, prev: no_prev, inner: false, run: run_c_map_fanout, expect: exp_c_map_fanout },
    Fam { name: "c:flat_map>unzip", nd: 2, variants: 1, prev: no_prev, inner: false, run: run_c_flat_unzip, expect: exp_c_flat_unzip },
    Fam { name: "c:persist>flatten", nd: 1, variants: 1, prev: all_prev, inner: false, run: run_c_persist_flatten, expect: exp_c_persist_flatten },
    Fam { name: "c:fanout>(fold,sort)", nd: 2, variants: 1, prev: no_prev, inner: false, run: run_c_fanout_fold_sort, expect: exp_c_fanout_fold_sort },
    Fam { name: "c:filter_map>fold_keyed", nd: 1, variants: 1, prev: no_prev, inner: false, run: run_c_filter_map_fold_keyed, expect: exp_c_filter_map_fold_keyed },
    Fam { name: "c:flatten>fanout>(id,persist)", nd: 2, variants: 1, prev: all_prev, inner: false, run: run_c_flatten_fanout_persist, expect: exp_c_flatten_fanout_persist },
    Fam { name: "c:flat_map>flat_map", nd: 1, variants: 1, prev: no_prev, inner: false, run: run_c_flat_flat, expect: exp_c_flat_flat },
    Fam { name: "c:demux_var3>(map,filter,flat_map)", nd: 3, variants: 1, prev: no_prev, inner: false, run: run_c_demux3_ops, expect: exp_c_demux3_ops },
    Fam { name: "c:filter_map_async>fanout", nd: 2, variants: 1, prev: no_prev, inner: true, run: run_c_fma_fanout, expect: exp_c_fma_fanout },
    Fam { name: "c:resolve_futures>flat_map", nd: 1, variants: 1, prev: no_prev, inner: true, run: run_c_resolve_flat, expect: exp_flat_map },
    Fam { name: "c:fanout>(fanout,id)", nd: 3, variants: 1, prev: no_prev, inner: false, run: run_c_fanout_nested, expect: exp_c_fanout_nested },
    Fam { name: "c:sort>persist", nd: 1, variants: 1, prev: all_prev, inner: false, run: run_c_sort_persist, expect: exp_c_sort_persist },
];
