//! Harness building blocks for C12: the scripted / exploring downstream (`CheckPush`, `CheckSink`),
//! scripted inner futures / streams / pulls, the global event log and the protocol-obeying drivers.
//!
//! All mutable harness state lives in one thread-local [`Harness`]; the objects handed to the code
//! under test are thin handles (`CheckPush { id }`) so that they can be moved into combinators freely.

use std::cell::RefCell;
use std::collections::VecDeque;
use std::future::Future;
use std::marker::PhantomData;
use std::pin::Pin;
use std::task::{Context, Poll, Waker};

use dfir_pipes::push::{Push, PushStep};
use dfir_pipes::{Context as PCtx, Yes};

/// Every item that reaches a downstream is encoded as a pair of integers.
pub type V = (i64, i64);
pub const NIL: i64 = i64::MIN;
pub const MAXD: usize = 3;

pub trait Enc {
    fn enc(&self) -> V;
}
impl Enc for i64 {
    fn enc(&self) -> V {
        (*self, NIL)
    }
}
impl Enc for (i64, i64) {
    fn enc(&self) -> V {
        *self
    }
}
impl<T: Enc> Enc for &mut T {
    fn enc(&self) -> V {
        (**self).enc()
    }
}
impl Enc for lattices::Max<i64> {
    fn enc(&self) -> V {
        (*self.as_reveal_ref(), NIL)
    }
}

// ---------------------------------------------------------------------------------------------
// Bit scripts (1 = answer Pending), 256 positions; beyond that every answer is Done.

#[derive(Clone, Copy, Default, PartialEq, Eq, Hash, Debug)]
pub struct Bits(pub [u64; 4]);

impl Bits {
    pub const LEN: usize = 256;
    #[inline]
    pub fn get(&self, i: usize) -> bool {
        i < Self::LEN && (self.0[i >> 6] >> (i & 63)) & 1 == 1
    }
    #[inline]
    pub fn set(&mut self, i: usize) {
        if i < Self::LEN {
            self.0[i >> 6] |= 1 << (i & 63);
        }
    }
    pub fn count(&self) -> u32 {
        self.0.iter().map(|w| w.count_ones()).sum()
    }
    pub fn to_str(&self, len: usize) -> String {
        let mut last = 0;
        for i in 0..Self::LEN {
            if self.get(i) {
                last = i + 1;
            }
        }
        (0..last.max(len.min(Self::LEN))).map(|i| if self.get(i) { '1' } else { '0' }).collect()
    }
    pub fn parse(s: &str) -> Bits {
        let mut b = Bits::default();
        for (i, c) in s.chars().enumerate() {
            if c == '1' {
                b.set(i);
            }
        }
        b
    }
    pub fn random(rng: &mut vcommon::Rng, percent: u32) -> Bits {
        let mut b = Bits::default();
        if percent == 0 {
            return b;
        }
        for i in 0..Self::LEN {
            if rng.chance(percent, 100) {
                b.set(i);
            }
        }
        b
    }
}

// ---------------------------------------------------------------------------------------------
// Event log

#[derive(Clone, Copy, PartialEq, Eq, Debug)]
pub enum Op {
    Ready,
    Send,
    Fin,
}

impl Op {
    pub fn name(self) -> &'static str {
        match self {
            Op::Ready => "poll_ready",
            Op::Send => "start_send",
            Op::Fin => "poll_finalize",
        }
    }
}

#[derive(Clone, Copy, Debug)]
#[allow(dead_code)] // TopBegin's Op is only shown in replay histories
pub enum Ev {
    /// The driver is about to call the combinator under test.
    TopBegin(Op),
    /// The combinator returned (`true` = Done).
    TopEnd(Op, bool),
    /// Downstream `d` was asked `poll_ready` and answered Done (`true`) or Pending.
    DReady(u8, bool),
    DSend(u8, V),
    DFin(u8, bool),
    /// An inner future / stream / pull was polled; `true` = it answered Pending.
    Inner(bool),
    /// A closure side effect (inspect / for_each / vec_push contents).
    Side(V),
}

#[derive(Clone, Copy, Default)]
pub struct DState {
    pub sticky: bool,
    pub ready_scr: Bits,
    pub fin_scr: Bits,
    pub rpos: usize,
    pub fpos: usize,
    ready_flag: bool,
    fin_flag: bool,
    /// What was actually answered at each consuming call (the replayable script).
    pub rec_ready: Bits,
    pub rec_fin: Bits,
    pend_used: [u8; 2],
}

#[derive(Clone, Copy)]
struct Choice {
    val: bool,
    alt_ok: bool,
    kind: u8,
}

pub struct Harness {
    pub log: Vec<Ev>,
    pub down: [DState; MAXD],
    /// Explore mode: answers come from the DFS chooser; otherwise from the scripts.
    pub explore: bool,
    /// Mute: downstreams/inner polls answer Done/Ready, nothing is logged (used for "previous epoch" setup).
    pub mute: bool,
    pub k: u8,
    pub k_inner: u8,
    stack: Vec<Choice>,
    pos: usize,
    pub inner_scr: Bits,
    pub inner_pos: usize,
    pub inner_rec: Bits,
    inner_used: u8,
    pub custom: Vec<(String, String)>,
    pub diverged: bool,
    pub cap: usize,
}

thread_local! {
    pub static H: RefCell<Harness> = RefCell::new(Harness {
        log: Vec::with_capacity(1024), down: [DState::default(); MAXD], explore: false, mute: false, k: 0, k_inner: 0,
        stack: Vec::new(), pos: 0, inner_scr: Bits::default(), inner_pos: 0, inner_rec: Bits::default(),
        inner_used: 0, custom: Vec::new(), diverged: false, cap: 0,
    });
}

#[derive(Clone, Copy, Default, PartialEq, Eq, Hash, Debug)]
pub struct DScr {
    pub sticky: bool,
    pub ready: Bits,
    pub fin: Bits,
}

pub enum Mode {
    Explore { sticky: bool, k: u8, k_inner: u8 },
    Script { down: [DScr; MAXD], inner: Bits },
}

impl Harness {
    pub fn begin(&mut self, mode: &Mode, cap: usize) {
        self.log.clear();
        self.custom.clear();
        self.pos = 0;
        self.inner_pos = 0;
        self.inner_rec = Bits::default();
        self.inner_used = 0;
        self.mute = false;
        self.cap = cap;
        self.down = [DState::default(); MAXD];
        match mode {
            Mode::Explore { sticky, k, k_inner } => {
                self.explore = true;
                self.k = *k;
                self.k_inner = *k_inner;
                for d in self.down.iter_mut() {
                    d.sticky = *sticky;
                }
            }
            Mode::Script { down, inner } => {
                self.explore = false;
                self.inner_scr = *inner;
                for (d, s) in self.down.iter_mut().zip(down.iter()) {
                    d.sticky = s.sticky;
                    d.ready_scr = s.ready;
                    d.fin_scr = s.fin;
                }
            }
        }
    }
    pub fn clear_stack(&mut self) {
        self.stack.clear();
        self.diverged = false;
    }
    /// Advance the DFS to the next unexplored leaf. False when the tree is exhausted.
    pub fn backtrack(&mut self) -> bool {
        while let Some(c) = self.stack.last() {
            if c.val || !c.alt_ok {
                self.stack.pop();
            } else {
                break;
            }
        }
        match self.stack.last_mut() {
            None => false,
            Some(c) => {
                c.val = true;
                true
            }
        }
    }
    fn choose(&mut self, kind: u8, budget_ok: bool) -> bool {
        if self.pos < self.stack.len() {
            let c = self.stack[self.pos];
            if c.kind != kind {
                self.diverged = true;
            }
            self.pos += 1;
            c.val
        } else {
            self.stack.push(Choice { val: false, alt_ok: budget_ok, kind });
            self.pos += 1;
            false
        }
    }
    /// Returns true if the downstream answers Pending.
    fn d_poll(&mut self, id: u8, phase: usize) -> bool {
        if self.mute {
            return false;
        }
        let i = id as usize;
        let (sticky, flag, pos, used) = {
            let d = &self.down[i];
            if phase == 0 { (d.sticky, d.ready_flag, d.rpos, d.pend_used[0]) } else { (d.sticky, d.fin_flag, d.fpos, d.pend_used[1]) }
        };
        let pend = if sticky && flag {
            false
        } else {
            let p = if self.explore {
                let ok = used < self.k;
                self.choose(id * 2 + phase as u8, ok)
            } else if phase == 0 {
                self.down[i].ready_scr.get(pos)
            } else {
                self.down[i].fin_scr.get(pos)
            };
            let d = &mut self.down[i];
            if phase == 0 {
                if p {
                    d.rec_ready.set(pos);
                    d.pend_used[0] = d.pend_used[0].saturating_add(1);
                }
                d.rpos += 1;
            } else {
                if p {
                    d.rec_fin.set(pos);
                    d.pend_used[1] = d.pend_used[1].saturating_add(1);
                }
                d.fpos += 1;
            }
            p
        };
        let d = &mut self.down[i];
        if phase == 0 {
            d.ready_flag = !pend;
            self.log.push(Ev::DReady(id, !pend));
        } else {
            d.fin_flag = !pend;
            self.log.push(Ev::DFin(id, !pend));
        }
        pend
    }
    fn d_send(&mut self, id: u8, v: V) {
        if self.mute {
            return;
        }
        self.down[id as usize].ready_flag = false;
        self.log.push(Ev::DSend(id, v));
    }
    /// Returns true if the inner future/stream/pull answers Pending this time.
    fn inner_poll(&mut self) -> bool {
        if self.mute {
            return false;
        }
        let pos = self.inner_pos;
        let p = if self.explore {
            let ok = self.inner_used < self.k_inner;
            self.choose(255, ok)
        } else {
            self.inner_scr.get(pos)
        };
        if p {
            self.inner_rec.set(pos);
            self.inner_used = self.inner_used.saturating_add(1);
        }
        self.inner_pos += 1;
        self.log.push(Ev::Inner(p));
        p
    }
}

pub fn log(e: Ev) {
    H.with(|h| {
        let mut h = h.borrow_mut();
        if !h.mute {
            h.log.push(e)
        }
    });
}
pub fn side(v: V) {
    log(Ev::Side(v));
}
pub fn set_mute(m: bool) {
    H.with(|h| h.borrow_mut().mute = m);
}
pub fn custom(kind: &str, what: String) {
    H.with(|h| h.borrow_mut().custom.push((kind.to_string(), what)));
}
pub fn cap() -> usize {
    H.with(|h| h.borrow().cap)
}
fn inner_poll() -> bool {
    H.with(|h| h.borrow_mut().inner_poll())
}

// ---------------------------------------------------------------------------------------------
// CheckPush: the downstream. Never panics; everything is judged from the log afterwards.

pub struct CheckPush<T> {
    id: u8,
    _p: PhantomData<fn(T)>,
}
impl<T> CheckPush<T> {
    pub fn new(id: u8) -> Self {
        CheckPush { id, _p: PhantomData }
    }
}
impl<T: Enc> Push<T, ()> for CheckPush<T> {
    type Ctx<'ctx> = ();
    type CanPend = Yes;

    fn poll_ready(self: Pin<&mut Self>, _ctx: &mut ()) -> PushStep<Yes> {
        let id = self.id;
        if H.with(|h| h.borrow_mut().d_poll(id, 0)) { PushStep::Pending(Yes) } else { PushStep::Done }
    }
    fn start_send(self: Pin<&mut Self>, item: T, _meta: ()) {
        let id = self.id;
        let v = item.enc();
        H.with(|h| h.borrow_mut().d_send(id, v));
    }
    fn poll_finalize(self: Pin<&mut Self>, _ctx: &mut ()) -> PushStep<Yes> {
        let id = self.id;
        if H.with(|h| h.borrow_mut().d_poll(id, 1)) { PushStep::Pending(Yes) } else { PushStep::Done }
    }
    fn size_hint(self: Pin<&mut Self>, _hint: (usize, Option<usize>)) {}
}

/// The same downstream as a `futures::Sink` (for `push::sink`): poll_ready / start_send / poll_flush map to
/// the ready / send / finalize events.
pub struct CheckSink<T> {
    id: u8,
    _p: PhantomData<fn(T)>,
}
impl<T> CheckSink<T> {
    pub fn new(id: u8) -> Self {
        CheckSink { id, _p: PhantomData }
    }
}
impl<T: Enc> futures::Sink<T> for CheckSink<T> {
    type Error = std::convert::Infallible;
    fn poll_ready(self: Pin<&mut Self>, cx: &mut Context<'_>) -> Poll<Result<(), Self::Error>> {
        let id = self.id;
        if H.with(|h| h.borrow_mut().d_poll(id, 0)) {
            cx.waker().wake_by_ref();
            Poll::Pending
        } else {
            Poll::Ready(Ok(()))
        }
    }
    fn start_send(self: Pin<&mut Self>, item: T) -> Result<(), Self::Error> {
        let id = self.id;
        let v = item.enc();
        H.with(|h| h.borrow_mut().d_send(id, v));
        Ok(())
    }
    fn poll_flush(self: Pin<&mut Self>, cx: &mut Context<'_>) -> Poll<Result<(), Self::Error>> {
        let id = self.id;
        if H.with(|h| h.borrow_mut().d_poll(id, 1)) {
            cx.waker().wake_by_ref();
            Poll::Pending
        } else {
            Poll::Ready(Ok(()))
        }
    }
    fn poll_close(self: Pin<&mut Self>, cx: &mut Context<'_>) -> Poll<Result<(), Self::Error>> {
        self.poll_flush(cx)
    }
}

// ---------------------------------------------------------------------------------------------
// Scripted inner futures / streams / pulls

pub struct ScriptFut<T> {
    out: Option<T>,
}
impl<T> ScriptFut<T> {
    pub fn new(v: T) -> Self {
        ScriptFut { out: Some(v) }
    }
}
impl<T> Unpin for ScriptFut<T> {}
impl<T> Future for ScriptFut<T> {
    type Output = T;
    fn poll(mut self: Pin<&mut Self>, cx: &mut Context<'_>) -> Poll<T> {
        if inner_poll() {
            cx.waker().wake_by_ref();
            Poll::Pending
        } else {
            Poll::Ready(self.out.take().expect("ScriptFut polled after completion"))
        }
    }
}

pub struct ScriptStream {
    items: VecDeque<i64>,
    ended: bool,
}
impl ScriptStream {
    pub fn new(items: impl IntoIterator<Item = i64>) -> Self {
        ScriptStream { items: items.into_iter().collect(), ended: false }
    }
}
impl futures::Stream for ScriptStream {
    type Item = i64;
    fn poll_next(mut self: Pin<&mut Self>, cx: &mut Context<'_>) -> Poll<Option<i64>> {
        if self.ended {
            return Poll::Ready(None);
        }
        if inner_poll() {
            cx.waker().wake_by_ref();
            return Poll::Pending;
        }
        match self.items.pop_front() {
            Some(x) => Poll::Ready(Some(x)),
            None => {
                self.ended = true;
                Poll::Ready(None)
            }
        }
    }
}

pub struct ScriptPull {
    items: VecDeque<i64>,
    ended: bool,
}
impl ScriptPull {
    pub fn new(items: impl IntoIterator<Item = i64>) -> Self {
        ScriptPull { items: items.into_iter().collect(), ended: false }
    }
}
impl dfir_pipes::pull::Pull for ScriptPull {
    type Ctx<'ctx> = ();
    type Item = i64;
    type Meta = ();
    type CanPend = Yes;
    type CanEnd = Yes;
    fn pull(mut self: Pin<&mut Self>, _ctx: &mut ()) -> dfir_pipes::pull::PullStep<i64, (), Yes, Yes> {
        use dfir_pipes::pull::PullStep;
        if self.ended {
            return PullStep::Ended(Yes);
        }
        if inner_poll() {
            return PullStep::Pending(Yes);
        }
        match self.items.pop_front() {
            Some(x) => PullStep::Ready(x, ()),
            None => {
                self.ended = true;
                PullStep::Ended(Yes)
            }
        }
    }
    fn size_hint(&self) -> (usize, Option<usize>) {
        (self.items.len(), Some(self.items.len()))
    }
}

// ---------------------------------------------------------------------------------------------
// Drivers: obey the protocol themselves, with a step cap a correct run cannot reach.

#[derive(Clone, Debug, PartialEq, Eq)]
pub enum Outcome {
    Done,
    Hang(Op),
    Panic(String),
}

pub fn guarded(f: impl FnOnce() -> Outcome) -> Outcome {
    match vcommon::catch(f) {
        Ok(o) => o,
        Err(msg) => Outcome::Panic(msg),
    }
}

/// poll_ready until Done, start_send, ...; at the end poll_finalize until Done.
pub fn drive<P, In, I>(mut p: Pin<&mut P>, items: I, hint: bool) -> Outcome
where
    P: Push<In, ()>,
    I: IntoIterator<Item = In>,
    I::IntoIter: ExactSizeIterator,
{
    let cap = cap();
    let mut cx = Context::from_waker(Waker::noop());
    let it = items.into_iter();
    if hint {
        let n = it.len();
        p.as_mut().size_hint((n, Some(n)));
    }
    let mut steps = 0usize;
    for item in it {
        loop {
            steps += 1;
            if steps > cap {
                return Outcome::Hang(Op::Ready);
            }
            log(Ev::TopBegin(Op::Ready));
            let r = p.as_mut().poll_ready(<P::Ctx<'_> as PCtx<'_>>::from_task(&mut cx)).is_done();
            log(Ev::TopEnd(Op::Ready, r));
            if r {
                break;
            }
        }
        log(Ev::TopBegin(Op::Send));
        p.as_mut().start_send(item, ());
        log(Ev::TopEnd(Op::Send, true));
    }
    loop {
        steps += 1;
        if steps > cap {
            return Outcome::Hang(Op::Fin);
        }
        log(Ev::TopBegin(Op::Fin));
        let r = p.as_mut().poll_finalize(<P::Ctx<'_> as PCtx<'_>>::from_task(&mut cx)).is_done();
        log(Ev::TopEnd(Op::Fin, r));
        if r {
            break;
        }
    }
    Outcome::Done
}

/// Same protocol through the `futures::Sink` interface (for `SinkCompat`): poll_ready / start_send, one
/// poll_flush (documented no-op) and poll_close until Ready.
pub fn drive_sink<S, In, I>(mut s: Pin<&mut S>, items: I) -> Outcome
where
    S: futures::Sink<In>,
    I: IntoIterator<Item = In>,
{
    let cap = cap();
    let mut cx = Context::from_waker(Waker::noop());
    let mut steps = 0usize;
    for item in items {
        loop {
            steps += 1;
            if steps > cap {
                return Outcome::Hang(Op::Ready);
            }
            log(Ev::TopBegin(Op::Ready));
            let r = match s.as_mut().poll_ready(&mut cx) {
                Poll::Ready(Ok(())) => true,
                Poll::Ready(Err(_)) => {
                    custom("sink-error", "poll_ready returned Err".into());
                    true
                }
                Poll::Pending => false,
            };
            log(Ev::TopEnd(Op::Ready, r));
            if r {
                break;
            }
        }
        log(Ev::TopBegin(Op::Send));
        if s.as_mut().start_send(item).is_err() {
            custom("sink-error", "start_send returned Err".into());
        }
        log(Ev::TopEnd(Op::Send, true));
    }
    // documented: poll_flush is a no-op that is immediately Ready
    if !matches!(s.as_mut().poll_flush(&mut cx), Poll::Ready(Ok(()))) {
        custom("flush-not-noop", "SinkCompat::poll_flush did not return Ready(Ok)".into());
    }
    loop {
        steps += 1;
        if steps > cap {
            return Outcome::Hang(Op::Fin);
        }
        log(Ev::TopBegin(Op::Fin));
        let r = matches!(s.as_mut().poll_close(&mut cx), Poll::Ready(_));
        log(Ev::TopEnd(Op::Fin, r));
        if r {
            break;
        }
    }
    Outcome::Done
}

/// Poll a future (`SendPush`) to completion; each poll is judged like a `poll_finalize` call.
pub fn drive_future<F: Future<Output = ()>>(mut f: Pin<&mut F>) -> Outcome {
    let cap = cap();
    let mut cx = Context::from_waker(Waker::noop());
    let mut steps = 0usize;
    loop {
        steps += 1;
        if steps > cap {
            return Outcome::Hang(Op::Fin);
        }
        log(Ev::TopBegin(Op::Fin));
        let r = f.as_mut().poll(&mut cx).is_ready();
        log(Ev::TopEnd(Op::Fin, r));
        if r {
            return Outcome::Done;
        }
    }
}
