//! Workload families for the array-based checkers.

use vcommon::{Args, Reporter, Rng};

use crate::core::*;
use crate::lib_ops::*;

const M0: Map = [0; MAXN];
const SINGLE_NOPARAM: [Ck; 4] = [Ck::Associativity, Ck::Semigroup, Ck::Commutativity, Ck::Idempotency];
const SINGLE_E: [Ck; 5] = [Ck::Identity, Ck::AbsorbingElement, Ck::Monoid, Ck::CommutativeMonoid, Ck::NoNonzeroZeroDivisors];
const SINGLE_EB: [Ck; 3] = [Ck::Inverse, Ck::Group, Ck::AbelianGroup];
const DIST: [Ck; 3] = [Ck::LeftDistributes, Ck::RightDistributes, Ck::Distributive];
const RINGS: [Ck; 3] = [Ck::Ring, Ck::CommutativeRing, Ck::IntegralDomain];

pub struct Ctx<'a> {
    pub rep: &'a mut Reporter,
    pub tally: Tally,
    pub args: &'a Args,
}
impl<'a> Ctx<'a> {
    fn j(&mut self, c: &Case, fam: &str) -> Verdict {
        judge(self.rep, &mut self.tally, c, fam)
    }
}

/// Every operation table on 0..n with every identity / absorbing / zero candidate and every inverse map.
pub fn fam_single(cx: &mut Ctx, n: usize) {
    let fam = "single-op-exhaustive";
    let z = Tab::zero(n, n);
    let nmap = ipow(n, n);
    let mut idx = 0usize;
    for code in 0..ipow(n, n * n) {
        idx += 1;
        if !cx.args.in_shard(idx) {
            continue;
        }
        let f = Tab::from_code(n, n, n, code);
        for ck in SINGLE_NOPARAM {
            cx.j(&Case::new(ck, n, &f, &z, 0, 0, &M0, &M0), fam);
        }
        for e in 0..n as u8 {
            for ck in SINGLE_E {
                cx.j(&Case::new(ck, n, &f, &z, e, 0, &M0, &M0), fam);
            }
            for bc in 0..nmap {
                let b = map_from_code(n, n, bc);
                for ck in SINGLE_EB {
                    cx.j(&Case::new(ck, n, &f, &z, e, 0, &b, &M0), fam);
                }
                for zero in 0..n as u8 {
                    cx.j(&Case::new(Ck::NonzeroInverse, n, &f, &z, e, zero, &b, &M0), fam);
                }
            }
        }
    }
    cx.rep.count(&format!("single_exhaustive_n{n}_done"));
}

fn two_op_all(cx: &mut Ctx, n: usize, f: &Tab, g: &Tab, zero: u8, one: u8, b: &Map, ig: &Map, fam: &str) {
    for ck in DIST {
        cx.j(&Case::new(ck, n, f, g, 0, 0, &M0, &M0), fam);
    }
    cx.j(&Case::new(Ck::Semiring, n, f, g, zero, one, &M0, &M0), fam);
    for ck in RINGS {
        cx.j(&Case::new(ck, n, f, g, zero, one, b, &M0), fam);
    }
    cx.j(&Case::new(Ck::Field, n, f, g, zero, one, b, ig), fam);
}

/// Every pair of tables on 0..n (n <= 2) with every zero/one candidate and every pair of inverse maps.
pub fn fam_pairs_small(cx: &mut Ctx, n: usize) {
    let fam = "two-op-exhaustive";
    let ntab = ipow(n, n * n);
    let nmap = ipow(n, n);
    for fc in 0..ntab {
        let f = Tab::from_code(n, n, n, fc);
        for gc in 0..ntab {
            let g = Tab::from_code(n, n, n, gc);
            for ck in DIST {
                cx.j(&Case::new(ck, n, &f, &g, 0, 0, &M0, &M0), fam);
            }
            for zero in 0..n as u8 {
                for one in 0..n as u8 {
                    cx.j(&Case::new(Ck::Semiring, n, &f, &g, zero, one, &M0, &M0), fam);
                    for bc in 0..nmap {
                        let b = map_from_code(n, n, bc);
                        for ck in RINGS {
                            cx.j(&Case::new(ck, n, &f, &g, zero, one, &b, &M0), fam);
                        }
                        for ic in 0..nmap {
                            let ig = map_from_code(n, n, ic);
                            cx.j(&Case::new(Ck::Field, n, &f, &g, zero, one, &b, &ig), fam);
                        }
                    }
                }
            }
        }
    }
    cx.rep.count(&format!("two_op_exhaustive_n{n}_done"));
}

pub struct Class3 {
    pub all: Vec<Tab>,
    /// associative
    pub assoc: Vec<Tab>,
    /// associative with a two-sided identity
    pub mon: Vec<Tab>,
    /// commutative monoids
    pub cm: Vec<Tab>,
}
pub fn classify3() -> Class3 {
    let s = [0u8, 1, 2];
    let all: Vec<Tab> = (0..ipow(3, 9)).map(|c| Tab::from_code(3, 3, 3, c)).collect();
    let assoc: Vec<Tab> = all.iter().copied().filter(|t| n_assoc(&s, t) == 0).collect();
    let has_id = |t: &Tab| s.iter().any(|&e| n_left_id(&s, t, e) == 0 && n_right_id(&s, t, e) == 0);
    let mon: Vec<Tab> = assoc.iter().copied().filter(has_id).collect();
    let cm: Vec<Tab> = mon.iter().copied().filter(|t| n_comm(&s, t) == 0).collect();
    Class3 { all, assoc, mon, cm }
}

/// Carrier of size 3, two operations: structured exhaustive sub-spaces, near-misses, random pairs.
pub fn fam_pairs3(cx: &mut Ctx, cl: &Class3, rng: &mut Rng) {
    let n = 3;
    // (a) distributivity: every f x every monoid / projection / constant g, and every commutative monoid f x every g
    let fam = "two-op-n3-distributivity";
    let mut gs: Vec<Tab> = cl.mon.clone();
    for (name, t) in ops(3) {
        if ["first", "second", "const0", "const_last", "sub_mod"].contains(&name) {
            gs.push(t);
        }
    }
    let stride = cx.args.budget(1, 1, 400);
    for (i, f) in cl.all.iter().enumerate() {
        if i % stride != 0 {
            continue;
        }
        for g in &gs {
            for ck in DIST {
                cx.j(&Case::new(ck, n, f, g, 0, 0, &M0, &M0), fam);
            }
        }
    }
    for f in &cl.cm {
        for (i, g) in cl.all.iter().enumerate() {
            if i % stride != 0 {
                continue;
            }
            for ck in DIST {
                cx.j(&Case::new(ck, n, f, g, 0, 0, &M0, &M0), fam);
            }
        }
    }
    // (b) composites: every commutative monoid f x every monoid g x every (zero, one) x every additive inverse map;
    //     multiplicative inverse maps exhaustively where the commutative-ring part is at most 2 tuples away from holding
    let fam = "two-op-n3-composite";
    let mut semirings: Vec<(Tab, Tab, u8, u8)> = vec![];
    let nmap = ipow(3, 3);
    for (i, f) in cl.cm.iter().enumerate() {
        if i % stride != 0 {
            continue;
        }
        for g in &cl.mon {
            for zero in 0..3u8 {
                for one in 0..3u8 {
                    let v = cx.j(&Case::new(Ck::Semiring, n, f, g, zero, one, &M0, &M0), fam);
                    if v.fails == 0 {
                        semirings.push((*f, *g, zero, one));
                    }
                    for bc in 0..nmap {
                        let b = map_from_code(3, 3, bc);
                        cx.j(&Case::new(Ck::Ring, n, f, g, zero, one, &b, &M0), fam);
                        cx.j(&Case::new(Ck::IntegralDomain, n, f, g, zero, one, &b, &M0), fam);
                        let v = cx.j(&Case::new(Ck::CommutativeRing, n, f, g, zero, one, &b, &M0), fam);
                        if v.fails <= 2 {
                            for ic in 0..nmap {
                                let ig = map_from_code(3, 3, ic);
                                cx.j(&Case::new(Ck::Field, n, f, g, zero, one, &b, &ig), fam);
                            }
                        } else {
                            let ig = rand_map(rng, 3, 3);
                            cx.j(&Case::new(Ck::Field, n, f, g, zero, one, &b, &ig), fam);
                        }
                    }
                }
            }
        }
    }
    cx.rep.count_n("semirings_on_3_elements_found", semirings.len() as u64);
    // (c) near-misses: every single-cell change of either table of every semiring found in (b)
    let fam = "two-op-n3-near-miss";
    for (f, g, zero, one) in &semirings {
        let mut variants: Vec<(Tab, Tab)> = cell_mutants(f, 3).into_iter().map(|m| (m, *g)).collect();
        variants.extend(cell_mutants(g, 3).into_iter().map(|m| (*f, m)));
        for (f2, g2) in variants {
            for (z2, o2) in [(*zero, *one), (*one, *zero)] {
                let b = find_inverse(&f2, z2, None);
                let ig = find_inverse(&g2, o2, Some(z2));
                two_op_all(cx, n, &f2, &g2, z2, o2, &b, &ig, fam);
                let b2 = mutate_map(rng, &b, 3, 3);
                let ig2 = mutate_map(rng, &ig, 3, 3);
                two_op_all(cx, n, &f2, &g2, z2, o2, &b2, &ig2, fam);
            }
        }
    }
    // (d) random pairs with random parameters
    let fam = "two-op-n3-random";
    for _ in 0..cx.args.budget(150_000, 3_000_000, 50) {
        let f = *rng.choose(&cl.all);
        let g = *rng.choose(&cl.all);
        let (zero, one) = (rng.below(3) as u8, rng.below(3) as u8);
        let (b, ig) = (rand_map(rng, 3, 3), rand_map(rng, 3, 3));
        two_op_all(cx, n, &f, &g, zero, one, &b, &ig, fam);
    }
}

/// Thorough tier: `left_distributes`, `right_distributes`, `distributive` on EVERY ordered pair of tables on 3
/// elements (19 683^2), split over worker threads.
pub fn fam_dist3_all_pairs(cx: &mut Ctx, cl: &Class3) {
    let fam = "two-op-n3-distributivity-all-pairs";
    let workers = std::thread::available_parallelism().map(|x| x.get()).unwrap_or(4).clamp(1, 8);
    struct Part {
        tally: Tally,
        evals: u64,
        hashes: Vec<u64>,
        viol: Vec<(Case, String, String)>,
        viol_total: u64,
    }
    let all = &cl.all;
    let parts: Vec<Part> = std::thread::scope(|sc| {
        let hs: Vec<_> = (0..workers)
            .map(|w| {
                sc.spawn(move || {
                    let mut p = Part { tally: [[0; 4]; NCK], evals: 0, hashes: vec![], viol: vec![], viol_total: 0 };
                    for (i, f) in all.iter().enumerate() {
                        if i % workers != w {
                            continue;
                        }
                        for g in all.iter() {
                            for ck in DIST {
                                let c = Case::new(ck, 3, f, g, 0, 0, &M0, &M0);
                                let o = judge_core(&c);
                                p.evals += 1;
                                let t = &mut p.tally[ck as usize];
                                match o.verdict.expect {
                                    Expect::Ok => t[0] += 1,
                                    Expect::Err => t[1] += 1,
                                    Expect::Either => t[2] += 1,
                                }
                                if o.verdict.fails >= 1 && o.verdict.fails <= 2 {
                                    t[3] += 1;
                                }
                                if o.nontrivial {
                                    p.hashes.push(vcommon::hash_of(&c));
                                }
                                if let Some((sig, what)) = o.violation {
                                    p.viol_total += 1;
                                    if p.viol.iter().filter(|x| x.1 == sig).count() < 3 {
                                        p.viol.push((c, sig, what));
                                    }
                                }
                            }
                        }
                    }
                    p
                })
            })
            .collect();
        hs.into_iter().map(|h| h.join().expect("worker")).collect()
    });
    let mut stored = 0u64;
    let mut total = 0u64;
    for p in parts {
        cx.rep.evals(p.evals);
        for (a, b) in cx.tally.iter_mut().zip(p.tally.iter()) {
            for k in 0..4 {
                a[k] += b[k];
            }
        }
        for h in p.hashes {
            cx.rep.nontrivial(h);
        }
        total += p.viol_total;
        for (c, sig, what) in p.viol {
            stored += 1;
            cx.rep.violation(&sig, &what, c.to_json(fam));
        }
    }
    cx.rep.count_n("dist3_all_pairs_judgements", 3 * ipow(3, 9) * ipow(3, 9));
    if total > stored {
        cx.rep.count_n("dist3_all_pairs_violations_not_listed", total - stored);
    }
}

fn find_identity(f: &Tab) -> Option<u8> {
    let s: Vec<u8> = (0..f.rows).collect();
    s.iter().copied().find(|&e| n_left_id(&s, f, e) == 0 && n_right_id(&s, f, e) == 0)
}
fn find_absorbing(f: &Tab) -> Option<u8> {
    let s: Vec<u8> = (0..f.rows).collect();
    s.iter().copied().find(|&z| n_az(&s, f, z) == 0 && n_za(&s, f, z) == 0)
}

fn single_all(cx: &mut Ctx, n: usize, items: Option<&[u8]>, f: &Tab, e: u8, zero: u8, b: &Map, fam: &str) {
    let z = Tab::zero(n, n);
    let mk = |ck: Ck, p1: u8, p2: u8| {
        let c = Case::new(ck, n, f, &z, p1, p2, b, &M0);
        match items {
            Some(it) => c.with_items(it),
            None => c,
        }
    };
    for ck in SINGLE_NOPARAM {
        cx.j(&mk(ck, 0, 0), fam);
    }
    for ck in [Ck::Identity, Ck::Monoid, Ck::CommutativeMonoid] {
        cx.j(&mk(ck, e, 0), fam);
    }
    for ck in [Ck::AbsorbingElement, Ck::NoNonzeroZeroDivisors] {
        cx.j(&mk(ck, zero, 0), fam);
    }
    for ck in SINGLE_EB {
        cx.j(&mk(ck, e, 0), fam);
    }
    cx.j(&mk(Ck::NonzeroInverse, e, zero), fam);
}

/// Carriers of size 4, 5, 6 and 8: well-known structures, renamed by a random permutation, with 0..2 random cell changes and
/// occasionally perturbed parameters; plus plain random tables.
pub fn fam_large(cx: &mut Ctx, rng: &mut Rng) {
    let iters = cx.args.budget(40_000, 800_000, 30);
    for it in 0..iters {
        let n = [4, 5, 6, 8][rng.below(4)];
        let p = rand_perm(rng, n);
        // ---- one operation
        let fam = "large-single-op";
        let lib = ops(n);
        let mut f = match rng.below(8) {
            0 => rand_tab(rng, n, n, n),
            1 => {
                // random commutative table with identity 0
                let r = rand_tab(rng, n, n, n);
                Tab::from_fn(n, n, |a, b| if a == 0 { b } else if b == 0 { a } else { r.t[a.min(b) * n + a.max(b)] as usize })
            }
            _ => rng.choose(&lib).1,
        };
        f = relabel_op(&f, &p);
        for _ in 0..rng.below(3) {
            f = mutate_cell(rng, &f, n);
        }
        let mut e = find_identity(&f).unwrap_or(rng.below(n) as u8);
        let mut zero = find_absorbing(&f).unwrap_or(rng.below(n) as u8);
        let mut b = find_inverse(&f, e, if rng.chance(1, 2) { Some(zero) } else { None });
        match rng.below(6) {
            0 => e = rng.below(n) as u8,
            1 => zero = rng.below(n) as u8,
            2 => b = mutate_map(rng, &b, n, n),
            _ => {}
        }
        single_all(cx, n, None, &f, e, zero, &b, fam);
        // ---- two operations
        let fam = "large-two-op";
        let pl = pairs(n);
        let (mut f, mut g, mut zero, mut one) = if rng.chance(1, 10) {
            (rand_tab(rng, n, n, n), rand_tab(rng, n, n, n), rng.below(n) as u8, rng.below(n) as u8)
        } else {
            let (_, f, g, z, o) = rng.choose(&pl);
            (relabel_op(f, &p), relabel_op(g, &p), p[*z as usize], p[*o as usize])
        };
        for _ in 0..rng.below(3) {
            if rng.chance(1, 2) {
                f = mutate_cell(rng, &f, n);
            } else {
                g = mutate_cell(rng, &g, n);
            }
        }
        let mut b = find_inverse(&f, zero, None);
        let mut ig = find_inverse(&g, one, Some(zero));
        match rng.below(8) {
            0 => zero = rng.below(n) as u8,
            1 => one = rng.below(n) as u8,
            2 => b = mutate_map(rng, &b, n, n),
            3 => ig = mutate_map(rng, &ig, n, n),
            _ => {}
        }
        two_op_all(cx, n, &f, &g, zero, one, &b, &ig, fam);
        let _ = it;
    }
}

/// The `items` array is a permutation of the carrier, contains duplicates, or is a sub-carrier of the tables' domain
/// (the law is then quantified over the listed items only).
pub fn fam_items(cx: &mut Ctx, cl: &Class3, rng: &mut Rng) {
    let fam = "items-permuted-duplicated-subcarrier";
    for _ in 0..cx.args.budget(30_000, 400_000, 20) {
        let n = 2 + rng.below(4); // 2..5
        let lib = ops(n);
        let mut f = if n == 3 && rng.chance(1, 2) { *rng.choose(&cl.assoc) } else { rng.choose(&lib).1 };
        let p = rand_perm(rng, n);
        f = relabel_op(&f, &p);
        if rng.chance(1, 3) {
            f = mutate_cell(rng, &f, n);
        }
        // items
        let mut items: Vec<u8> = match rng.below(3) {
            0 => rand_perm(rng, n),
            1 => {
                let mut v = rand_perm(rng, n);
                while v.len() < MAXITEMS && rng.chance(2, 3) {
                    v.push(rng.below(n) as u8);
                }
                rng.shuffle(&mut v);
                v
            }
            _ => {
                let mut v = rand_perm(rng, n);
                v.truncate(1 + rng.below(n));
                v
            }
        };
        if items.is_empty() {
            items.push(0);
        }
        let e = if rng.chance(2, 3) { find_identity(&f).unwrap_or(items[0]) } else { *rng.choose(&items) };
        let zero = if rng.chance(2, 3) { find_absorbing(&f).unwrap_or(items[0]) } else { *rng.choose(&items) };
        let mut b = find_inverse(&f, e, None);
        if rng.chance(1, 4) {
            b = mutate_map(rng, &b, n, n);
        }
        single_all(cx, n, Some(&items), &f, e, zero, &b, fam);
        // two operations on the same items
        let pl = pairs(n);
        let (_, f2, g2, z2, o2) = rng.choose(&pl);
        let (mut f2, mut g2) = (relabel_op(f2, &p), relabel_op(g2, &p));
        if rng.chance(1, 3) {
            if rng.chance(1, 2) {
                f2 = mutate_cell(rng, &f2, n);
            } else {
                g2 = mutate_cell(rng, &g2, n);
            }
        }
        let (z2, o2) = (p[*z2 as usize], p[*o2 as usize]);
        let b2 = find_inverse(&f2, z2, None);
        let ig2 = find_inverse(&g2, o2, Some(z2));
        for ck in [Ck::LeftDistributes, Ck::RightDistributes, Ck::Distributive, Ck::Semiring, Ck::Ring, Ck::CommutativeRing, Ck::IntegralDomain, Ck::Field] {
            let c = Case::new(ck, n, &f2, &g2, z2, o2, &b2, &ig2).with_items(&items);
            cx.j(&c, fam);
        }
    }
}
