//! Operation tables, the case descriptor for the array-based checkers of `lattices::algebra`, the call
//! into the real checker, and the independent oracle (textbook laws, quantifier by quantifier).

use lattices::algebra;
use vcommon::{Reporter, Value, hash_of, json};

pub const MAXN: usize = 8;
pub type Map = [u8; MAXN];

/// A finite map `rows x cols -> values`, `t[a*cols+b]`. For a binary operation on a carrier of size n:
/// rows = cols = n.
#[derive(Clone, Copy, PartialEq, Eq, Hash, Debug)]
pub struct Tab {
    pub rows: u8,
    pub cols: u8,
    pub t: [u8; MAXN * MAXN],
}

impl Tab {
    pub fn zero(rows: usize, cols: usize) -> Tab {
        Tab { rows: rows as u8, cols: cols as u8, t: [0; MAXN * MAXN] }
    }
    /// Cell i (row-major) = digit i of `code` in base `vals`.
    pub fn from_code(rows: usize, cols: usize, vals: usize, mut code: u64) -> Tab {
        let mut t = Tab::zero(rows, cols);
        for i in 0..rows * cols {
            t.t[i] = (code % vals as u64) as u8;
            code /= vals as u64;
        }
        t
    }
    pub fn from_fn(rows: usize, cols: usize, f: impl Fn(usize, usize) -> usize) -> Tab {
        let mut t = Tab::zero(rows, cols);
        for a in 0..rows {
            for b in 0..cols {
                t.t[a * cols + b] = f(a, b) as u8;
            }
        }
        t
    }
    #[inline]
    pub fn ap(&self, a: u8, b: u8) -> u8 {
        self.t[a as usize * self.cols as usize + b as usize]
    }
    pub fn cells(&self) -> usize {
        self.rows as usize * self.cols as usize
    }
    pub fn to_json(&self) -> Value {
        let rows: Vec<Vec<u8>> = (0..self.rows as usize)
            .map(|a| (0..self.cols as usize).map(|b| self.t[a * self.cols as usize + b]).collect())
            .collect();
        json!(rows)
    }
    pub fn from_json(v: &Value) -> Tab {
        let rows = v.as_array().expect("table rows");
        let r = rows.len();
        let c = if r == 0 { 0 } else { rows[0].as_array().expect("row").len() };
        let mut t = Tab::zero(r, c);
        for (a, row) in rows.iter().enumerate() {
            for (b, x) in row.as_array().expect("row").iter().enumerate() {
                t.t[a * c + b] = x.as_u64().expect("cell") as u8;
            }
        }
        t
    }
}

pub fn map_from_code(n: usize, vals: usize, mut code: u64) -> Map {
    let mut m = [0u8; MAXN];
    for x in m.iter_mut().take(n) {
        *x = (code % vals as u64) as u8;
        code /= vals as u64;
    }
    m
}
pub fn map_json(m: &Map, n: usize) -> Value {
    json!(m[..n].to_vec())
}
pub fn map_from_json(v: &Value) -> Map {
    let mut m = [0u8; MAXN];
    for (i, x) in v.as_array().expect("map").iter().enumerate() {
        m[i] = x.as_u64().expect("map entry") as u8;
    }
    m
}
pub fn ipow(b: usize, e: usize) -> u64 {
    (b as u64).pow(e as u32)
}

// ---------------------------------------------------------------------------------------------
// Checkers taking `&[S; N]`

#[derive(Clone, Copy, PartialEq, Eq, Hash, Debug)]
pub enum Ck {
    Associativity,
    Semigroup,
    Commutativity,
    Idempotency,
    Identity,
    AbsorbingElement,
    Monoid,
    CommutativeMonoid,
    NoNonzeroZeroDivisors,
    Inverse,
    NonzeroInverse,
    Group,
    AbelianGroup,
    LeftDistributes,
    RightDistributes,
    Distributive,
    Semiring,
    Ring,
    CommutativeRing,
    IntegralDomain,
    Field,
}
pub const NCK: usize = 21;
pub const ALL_CK: [Ck; NCK] = [
    Ck::Associativity,
    Ck::Semigroup,
    Ck::Commutativity,
    Ck::Idempotency,
    Ck::Identity,
    Ck::AbsorbingElement,
    Ck::Monoid,
    Ck::CommutativeMonoid,
    Ck::NoNonzeroZeroDivisors,
    Ck::Inverse,
    Ck::NonzeroInverse,
    Ck::Group,
    Ck::AbelianGroup,
    Ck::LeftDistributes,
    Ck::RightDistributes,
    Ck::Distributive,
    Ck::Semiring,
    Ck::Ring,
    Ck::CommutativeRing,
    Ck::IntegralDomain,
    Ck::Field,
];
impl Ck {
    pub fn name(self) -> &'static str {
        match self {
            Ck::Associativity => "associativity",
            Ck::Semigroup => "semigroup",
            Ck::Commutativity => "commutativity",
            Ck::Idempotency => "idempotency",
            Ck::Identity => "identity",
            Ck::AbsorbingElement => "absorbing_element",
            Ck::Monoid => "monoid",
            Ck::CommutativeMonoid => "commutative_monoid",
            Ck::NoNonzeroZeroDivisors => "no_nonzero_zero_divisors",
            Ck::Inverse => "inverse",
            Ck::NonzeroInverse => "nonzero_inverse",
            Ck::Group => "group",
            Ck::AbelianGroup => "abelian_group",
            Ck::LeftDistributes => "left_distributes",
            Ck::RightDistributes => "right_distributes",
            Ck::Distributive => "distributive",
            Ck::Semiring => "semiring",
            Ck::Ring => "ring",
            Ck::CommutativeRing => "commutative_ring",
            Ck::IntegralDomain => "integral_domain",
            Ck::Field => "field",
        }
    }
    pub fn from_name(s: &str) -> Option<Ck> {
        ALL_CK.iter().copied().find(|c| c.name() == s)
    }
    /// (uses g, uses p1, uses p2, uses b, uses ig)
    pub fn uses(self) -> (bool, bool, bool, bool, bool) {
        match self {
            Ck::Associativity | Ck::Semigroup | Ck::Commutativity | Ck::Idempotency => (false, false, false, false, false),
            Ck::Identity | Ck::AbsorbingElement | Ck::Monoid | Ck::CommutativeMonoid | Ck::NoNonzeroZeroDivisors => {
                (false, true, false, false, false)
            }
            Ck::Inverse | Ck::Group | Ck::AbelianGroup => (false, true, false, true, false),
            Ck::NonzeroInverse => (false, true, true, true, false),
            Ck::LeftDistributes | Ck::RightDistributes | Ck::Distributive => (true, false, false, false, false),
            Ck::Semiring => (true, true, true, false, false),
            Ck::Ring | Ck::CommutativeRing | Ck::IntegralDomain => (true, true, true, true, false),
            Ck::Field => (true, true, true, true, true),
        }
    }
}

pub const MAXITEMS: usize = 8;

/// One call of an array-based checker. Parameter roles (names as in algebra.rs):
/// identity: e=p1; absorbing_element: z=p1; monoid/commutative_monoid/group/abelian_group: zero=p1;
/// no_nonzero_zero_divisors: zero=p1; inverse: e=p1,b; nonzero_inverse: e=p1, zero=p2, b;
/// *distributes(f,g); semiring..field: zero=p1, one=p2, b = additive inverse, ig = multiplicative inverse.
#[derive(Clone, Copy, PartialEq, Eq, Hash, Debug)]
pub struct Case {
    pub ck: Ck,
    pub items: [u8; MAXITEMS],
    pub ilen: u8,
    pub f: Tab,
    pub g: Tab,
    pub p1: u8,
    pub p2: u8,
    pub b: Map,
    pub ig: Map,
}

impl Case {
    /// Canonical form: unused parameters zeroed. `n` = size of the table domain; items = 0..n.
    pub fn new(ck: Ck, n: usize, f: &Tab, g: &Tab, p1: u8, p2: u8, b: &Map, ig: &Map) -> Case {
        let mut items = [0u8; MAXITEMS];
        for (i, x) in items.iter_mut().enumerate().take(n) {
            *x = i as u8;
        }
        let (ug, u1, u2, ub, uig) = ck.uses();
        Case {
            ck,
            items,
            ilen: n as u8,
            f: *f,
            g: if ug { *g } else { Tab::zero(n, n) },
            p1: if u1 { p1 } else { 0 },
            p2: if u2 { p2 } else { 0 },
            b: if ub { *b } else { [0; MAXN] },
            ig: if uig { *ig } else { [0; MAXN] },
        }
    }
    pub fn with_items(mut self, its: &[u8]) -> Case {
        self.items = [0; MAXITEMS];
        self.items[..its.len()].copy_from_slice(its);
        self.ilen = its.len() as u8;
        self
    }
    pub fn to_json(&self, family: &str) -> Value {
        let (ug, u1, u2, ub, uig) = self.ck.uses();
        let n = self.f.rows as usize;
        let mut o = json!({
            "engine": "mon_algebra", "family": family, "kind": "array", "checker": self.ck.name(),
            "items": self.items[..self.ilen as usize].to_vec(), "f": self.f.to_json(),
        });
        let m = o.as_object_mut().unwrap();
        if ug {
            m.insert("g".into(), self.g.to_json());
        }
        if u1 {
            m.insert("p1".into(), json!(self.p1));
        }
        if u2 {
            m.insert("p2".into(), json!(self.p2));
        }
        if ub {
            m.insert("b".into(), map_json(&self.b, n));
        }
        if uig {
            m.insert("ig".into(), map_json(&self.ig, n));
        }
        m.insert(
            "param_roles".into(),
            json!("identity e=p1; absorbing z=p1; monoid/group zero=p1; no_nonzero_zero_divisors zero=p1; nonzero_inverse e=p1 zero=p2; semiring..field zero=p1 one=p2, b=inverse w.r.t. f, ig=inverse w.r.t. g; tables are row-major t[a][b]=op(a,b)"),
        );
        o
    }
    pub fn from_json(v: &Value) -> Case {
        let ck = Ck::from_name(v["checker"].as_str().expect("checker")).expect("known checker");
        let f = Tab::from_json(&v["f"]);
        let n = f.rows as usize;
        let g = if v.get("g").is_some() { Tab::from_json(&v["g"]) } else { Tab::zero(n, n) };
        let num = |k: &str| v.get(k).and_then(|x| x.as_u64()).unwrap_or(0) as u8;
        let mp = |k: &str| v.get(k).map(map_from_json).unwrap_or([0; MAXN]);
        let items: Vec<u8> = v["items"].as_array().expect("items").iter().map(|x| x.as_u64().unwrap() as u8).collect();
        Case::new(ck, n, &f, &g, num("p1"), num("p2"), &mp("b"), &mp("ig")).with_items(&items)
    }
}

fn call_n<const N: usize>(c: &Case) -> Result<(), &'static str> {
    let items: [u8; N] = std::array::from_fn(|i| c.items[i]);
    let (ft, gt, bm, igm) = (c.f, c.g, c.b, c.ig);
    let f = move |a: u8, b: u8| ft.ap(a, b);
    let g = move |a: u8, b: u8| gt.ap(a, b);
    let b = move |a: u8| bm[a as usize];
    let ig = move |a: u8| igm[a as usize];
    let (p1, p2) = (c.p1, c.p2);
    match c.ck {
        Ck::Associativity => algebra::associativity(&items, f),
        Ck::Semigroup => algebra::semigroup(&items, &f),
        Ck::Commutativity => algebra::commutativity(&items, f),
        Ck::Idempotency => algebra::idempotency(&items, f),
        Ck::Identity => algebra::identity(&items, f, p1),
        Ck::AbsorbingElement => algebra::absorbing_element(&items, f, p1),
        Ck::Monoid => algebra::monoid(&items, &f, p1),
        Ck::CommutativeMonoid => algebra::commutative_monoid(&items, &f, p1),
        Ck::NoNonzeroZeroDivisors => algebra::no_nonzero_zero_divisors(&items, &f, p1),
        Ck::Inverse => algebra::inverse(&items, f, p1, b),
        Ck::NonzeroInverse => algebra::nonzero_inverse(&items, f, p1, p2, b),
        Ck::Group => algebra::group(&items, &f, p1, &b),
        Ck::AbelianGroup => algebra::abelian_group(&items, &f, p1, &b),
        Ck::LeftDistributes => algebra::left_distributes(&items, f, g),
        Ck::RightDistributes => algebra::right_distributes(&items, f, g),
        Ck::Distributive => algebra::distributive(&items, &f, &g),
        Ck::Semiring => algebra::semiring(&items, &f, &g, p1, p2),
        Ck::Ring => algebra::ring(&items, &f, &g, p1, p2, &b),
        Ck::CommutativeRing => algebra::commutative_ring(&items, &f, &g, p1, p2, &b),
        Ck::IntegralDomain => algebra::integral_domain(&items, &f, &g, p1, p2, &b),
        Ck::Field => algebra::field(&items, &f, &g, p1, p2, &b, &ig),
    }
}

/// Run the real checker. Outer Err = panic message.
pub fn call(c: &Case) -> Result<Result<(), &'static str>, String> {
    let r = std::panic::catch_unwind(std::panic::AssertUnwindSafe(|| match c.ilen {
        0 => call_n::<0>(c),
        1 => call_n::<1>(c),
        2 => call_n::<2>(c),
        3 => call_n::<3>(c),
        4 => call_n::<4>(c),
        5 => call_n::<5>(c),
        6 => call_n::<6>(c),
        7 => call_n::<7>(c),
        8 => call_n::<8>(c),
        _ => unreachable!(),
    }));
    r.map_err(|e| {
        if let Some(s) = e.downcast_ref::<&str>() {
            s.to_string()
        } else if let Some(s) = e.downcast_ref::<String>() {
            s.clone()
        } else {
            "<non-string panic>".to_string()
        }
    })
}

// ---------------------------------------------------------------------------------------------
// Oracle: textbook laws, each a count of the tuples of the carrier on which the law's equation fails.

pub fn n_assoc(s: &[u8], f: &Tab) -> u32 {
    let mut k = 0;
    for &a in s {
        for &b in s {
            for &c in s {
                // (a.b).c = a.(b.c)
                if f.ap(f.ap(a, b), c) != f.ap(a, f.ap(b, c)) {
                    k += 1;
                }
            }
        }
    }
    k
}
pub fn n_comm(s: &[u8], f: &Tab) -> u32 {
    let mut k = 0;
    for &x in s {
        for &y in s {
            if f.ap(x, y) != f.ap(y, x) {
                k += 1;
            }
        }
    }
    k
}
pub fn n_idem(s: &[u8], f: &Tab) -> u32 {
    s.iter().filter(|&&x| f.ap(x, x) != x).count() as u32
}
/// e.a = a
pub fn n_left_id(s: &[u8], f: &Tab, e: u8) -> u32 {
    s.iter().filter(|&&a| f.ap(e, a) != a).count() as u32
}
/// a.e = a
pub fn n_right_id(s: &[u8], f: &Tab, e: u8) -> u32 {
    s.iter().filter(|&&a| f.ap(a, e) != a).count() as u32
}
/// a.z = z
pub fn n_az(s: &[u8], f: &Tab, z: u8) -> u32 {
    s.iter().filter(|&&a| f.ap(a, z) != z).count() as u32
}
/// z.a = z
pub fn n_za(s: &[u8], f: &Tab, z: u8) -> u32 {
    s.iter().filter(|&&a| f.ap(z, a) != z).count() as u32
}
/// a.inv(a) = e for every a (except `skip`, if given)
pub fn n_a_inv(s: &[u8], f: &Tab, e: u8, inv: &Map, skip: Option<u8>) -> u32 {
    s.iter().filter(|&&a| Some(a) != skip && f.ap(a, inv[a as usize]) != e).count() as u32
}
/// inv(a).a = e
pub fn n_inv_a(s: &[u8], f: &Tab, e: u8, inv: &Map, skip: Option<u8>) -> u32 {
    s.iter().filter(|&&a| Some(a) != skip && f.ap(inv[a as usize], a) != e).count() as u32
}
/// pairs of nonzero elements whose product is zero
pub fn n_zero_div(s: &[u8], f: &Tab, zero: u8) -> u32 {
    let mut k = 0;
    for &x in s {
        for &y in s {
            if x != zero && y != zero && f.ap(x, y) == zero {
                k += 1;
            }
        }
    }
    k
}
/// a*(b+c) = a*b + a*c   (+ = f, * = g)
pub fn n_left_dist(s: &[u8], f: &Tab, g: &Tab) -> u32 {
    let mut k = 0;
    for &a in s {
        for &b in s {
            for &c in s {
                let lhs = g.ap(a, f.ap(b, c));
                let rhs = f.ap(g.ap(a, b), g.ap(a, c));
                if lhs != rhs {
                    k += 1;
                }
            }
        }
    }
    k
}
/// (b+c)*a = b*a + c*a
pub fn n_right_dist(s: &[u8], f: &Tab, g: &Tab) -> u32 {
    let mut k = 0;
    for &a in s {
        for &b in s {
            for &c in s {
                let lhs = g.ap(f.ap(b, c), a);
                let rhs = f.ap(g.ap(b, a), g.ap(c, a));
                if lhs != rhs {
                    k += 1;
                }
            }
        }
    }
    k
}

#[derive(Clone, Copy, PartialEq, Eq, Debug)]
pub enum Expect {
    Ok,
    Err,
    /// documentation silent on a textbook component that fails here: either answer is accepted
    Either,
}

#[derive(Clone, Copy, Debug)]
pub struct Verdict {
    pub expect: Expect,
    /// number of failing (component, tuple) pairs among the documented components
    pub fails: u32,
    /// first failing documented component in textbook order
    pub first: &'static str,
}

struct Acc {
    fails: u32,
    first: &'static str,
}
impl Acc {
    fn add(&mut self, name: &'static str, k: u32) {
        if k > 0 && self.fails == 0 {
            self.first = name;
        }
        self.fails += k;
    }
}

pub fn carrier(items: &[u8]) -> ([u8; MAXITEMS], usize) {
    let mut out = [0u8; MAXITEMS];
    let mut k = 0;
    for &x in items {
        if !out[..k].contains(&x) {
            out[k] = x;
            k += 1;
        }
    }
    (out, k)
}

/// What the documentation of each checker in algebra.rs says the structure is (see the table in main.rs).
pub fn oracle(c: &Case) -> Verdict {
    let (car, k) = carrier(&c.items[..c.ilen as usize]);
    let s = &car[..k];
    let (f, g) = (&c.f, &c.g);
    let mut v = Acc { fails: 0, first: "" };
    let mut either_if_holds = false;
    // building blocks
    fn monoid(v: &mut Acc, s: &[u8], f: &Tab, e: u8, p: [&'static str; 3]) {
        v.add(p[0], n_assoc(s, f));
        v.add(p[1], n_left_id(s, f, e));
        v.add(p[2], n_right_id(s, f, e));
    }
    fn semiring(v: &mut Acc, s: &[u8], f: &Tab, g: &Tab, zero: u8, one: u8) {
        // (S,+,zero) commutative monoid; (S,*,one) monoid; zero absorbing for *; * distributes over + on both sides
        monoid(v, s, f, zero, ["f-assoc", "f-left-identity", "f-right-identity"]);
        v.add("f-commutative", n_comm(s, f));
        monoid(v, s, g, one, ["g-assoc", "g-left-identity", "g-right-identity"]);
        v.add("g-a*zero", n_az(s, g, zero));
        v.add("g-zero*a", n_za(s, g, zero));
        v.add("left-distributive", n_left_dist(s, f, g));
        v.add("right-distributive", n_right_dist(s, f, g));
    }
    fn ring(v: &mut Acc, s: &[u8], c: &Case) {
        semiring(v, s, &c.f, &c.g, c.p1, c.p2);
        v.add("f-a+inv(a)", n_a_inv(s, &c.f, c.p1, &c.b, None));
        v.add("f-inv(a)+a", n_inv_a(s, &c.f, c.p1, &c.b, None));
    }
    match c.ck {
        Ck::Associativity | Ck::Semigroup => v.add("assoc", n_assoc(s, f)),
        Ck::Commutativity => v.add("commutative", n_comm(s, f)),
        Ck::Idempotency => v.add("idempotent", n_idem(s, f)),
        Ck::Identity => {
            v.add("left-identity", n_left_id(s, f, c.p1));
            v.add("right-identity", n_right_id(s, f, c.p1));
        }
        Ck::AbsorbingElement => {
            v.add("a*z", n_az(s, f, c.p1));
            v.add("z*a", n_za(s, f, c.p1));
        }
        Ck::Monoid => monoid(&mut v, s, f, c.p1, ["assoc", "left-identity", "right-identity"]),
        Ck::CommutativeMonoid => {
            monoid(&mut v, s, f, c.p1, ["assoc", "left-identity", "right-identity"]);
            v.add("commutative", n_comm(s, f));
        }
        Ck::NoNonzeroZeroDivisors => v.add("zero-divisor", n_zero_div(s, f, c.p1)),
        Ck::Inverse => {
            v.add("a*inv(a)", n_a_inv(s, f, c.p1, &c.b, None));
            v.add("inv(a)*a", n_inv_a(s, f, c.p1, &c.b, None));
        }
        Ck::NonzeroInverse => {
            v.add("a*inv(a)", n_a_inv(s, f, c.p1, &c.b, Some(c.p2)));
            v.add("inv(a)*a", n_inv_a(s, f, c.p1, &c.b, Some(c.p2)));
        }
        Ck::Group | Ck::AbelianGroup => {
            monoid(&mut v, s, f, c.p1, ["assoc", "left-identity", "right-identity"]);
            v.add("a*inv(a)", n_a_inv(s, f, c.p1, &c.b, None));
            v.add("inv(a)*a", n_inv_a(s, f, c.p1, &c.b, None));
            if c.ck == Ck::AbelianGroup {
                v.add("commutative", n_comm(s, f));
            }
        }
        Ck::LeftDistributes => v.add("left-distributive", n_left_dist(s, f, g)),
        Ck::RightDistributes => v.add("right-distributive", n_right_dist(s, f, g)),
        Ck::Distributive => {
            v.add("left-distributive", n_left_dist(s, f, g));
            v.add("right-distributive", n_right_dist(s, f, g));
        }
        Ck::Semiring => semiring(&mut v, s, f, g, c.p1, c.p2),
        Ck::Ring => ring(&mut v, s, c),
        Ck::CommutativeRing => {
            ring(&mut v, s, c);
            v.add("g-commutative", n_comm(s, g));
        }
        Ck::IntegralDomain => {
            // documented: "a nonzero commutative ring with no nonzero zero divisors"
            ring(&mut v, s, c);
            v.add("g-commutative", n_comm(s, g));
            v.add("zero-divisor", n_zero_div(s, g, c.p1));
            let has_nonzero = s.iter().any(|&a| a != c.p1);
            v.add("zero-ring", if has_nonzero { 0 } else { 1 });
        }
        Ck::Field => {
            // documented: commutative ring + multiplicative inverses (of the nonzero elements, see
            // `nonzero_inverse` and the parameter comments); the textbook additionally wants 0 != 1, on
            // which the documentation is silent.
            ring(&mut v, s, c);
            v.add("g-commutative", n_comm(s, g));
            v.add("g-a*inv(a)", n_a_inv(s, g, c.p2, &c.ig, Some(c.p1)));
            v.add("g-inv(a)*a", n_inv_a(s, g, c.p2, &c.ig, Some(c.p1)));
            let has_nonzero = s.iter().any(|&a| a != c.p1);
            either_if_holds = !has_nonzero;
        }
    }
    let expect = if v.fails > 0 {
        Expect::Err
    } else if either_if_holds {
        Expect::Either
    } else {
        Expect::Ok
    };
    Verdict { expect, fails: v.fails, first: v.first }
}

// ---------------------------------------------------------------------------------------------
// Judgement

pub struct Outcome {
    pub verdict: Verdict,
    /// (signature, what)
    pub violation: Option<(String, String)>,
    pub nontrivial: bool,
}

pub fn slug(msg: &str) -> String {
    msg.trim_end_matches('.').to_lowercase().replace(' ', "-")
}

pub fn judge_core(c: &Case) -> Outcome {
    let got = call(c);
    let v = oracle(c);
    let name = c.ck.name();
    let violation = match (&got, v.expect) {
        (Err(p), _) => Some((
            format!("C09|algebra::{name}|panic"),
            format!("{name} panicked ({p}) on a finite carrier with total operations"),
        )),
        (Ok(Ok(())), Expect::Err) => Some((
            format!("C09|algebra::{name}|ok-but-law-fails|fails={}", v.first),
            format!(
                "{name} returned Ok although its documented law fails on {} (component,tuple) pairs of the carrier; first failing component: {}{}",
                v.fails,
                v.first,
                if v.first == "zero-ring" { " (documented as 'a nonzero commutative ring', but the carrier has no element other than zero)" } else { "" }
            ),
        )),
        (Ok(Err(m)), Expect::Ok) => Some((
            format!("C09|algebra::{name}|err-but-law-holds|msg={}", slug(m)),
            format!("{name} returned Err({m:?}) although every documented component law holds on every tuple of the carrier"),
        )),
        _ => None,
    };
    let nontrivial = v.fails <= 2;
    Outcome { verdict: v, violation, nontrivial }
}

/// per checker: [expected Ok, expected Err, either, near-miss (1..=2 failing tuples)]
pub type Tally = [[u64; 4]; NCK];

thread_local! {
    /// (checker, first failing documented component) -> cases judged
    pub static FIRST_FAILING: std::cell::RefCell<std::collections::BTreeMap<(&'static str, &'static str), u64>> =
        const { std::cell::RefCell::new(std::collections::BTreeMap::new()) };
}

pub fn record(rep: &mut Reporter, tally: &mut Tally, c: &Case, o: &Outcome, family: &str) {
    rep.eval();
    if o.verdict.fails > 0 {
        FIRST_FAILING.with(|m| *m.borrow_mut().entry((c.ck.name(), o.verdict.first)).or_insert(0) += 1);
    }
    let t = &mut tally[c.ck as usize];
    match o.verdict.expect {
        Expect::Ok => t[0] += 1,
        Expect::Err => t[1] += 1,
        Expect::Either => t[2] += 1,
    }
    if o.verdict.fails >= 1 && o.verdict.fails <= 2 {
        t[3] += 1;
    }
    if o.nontrivial {
        rep.nontrivial(hash_of(c));
        rep.sample(|| {
            let mut j = c.to_json(family);
            j["oracle"] = json!({"failing": o.verdict.fails, "first_failing_component": o.verdict.first});
            j
        });
    }
    if let Some((sig, what)) = &o.violation {
        rep.violation(sig, what, c.to_json(family));
    }
}

pub fn judge(rep: &mut Reporter, tally: &mut Tally, c: &Case, family: &str) -> Verdict {
    let o = judge_core(c);
    record(rep, tally, c, &o, family);
    o.verdict
}
