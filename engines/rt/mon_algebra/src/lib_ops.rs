//! Workload material: well-known operations on carriers 0..n (used to reach law-holding cases on carriers of
//! size 4..6, where random tables essentially never satisfy anything), relabelling and cell mutation.

use vcommon::Rng;

use crate::core::*;

pub fn rand_tab(rng: &mut Rng, rows: usize, cols: usize, vals: usize) -> Tab {
    let mut t = Tab::zero(rows, cols);
    for i in 0..rows * cols {
        t.t[i] = rng.below(vals) as u8;
    }
    t
}
pub fn rand_map(rng: &mut Rng, n: usize, vals: usize) -> Map {
    let mut m = [0u8; MAXN];
    for x in m.iter_mut().take(n) {
        *x = rng.below(vals) as u8;
    }
    m
}
pub fn rand_perm(rng: &mut Rng, n: usize) -> Vec<u8> {
    let mut p: Vec<u8> = (0..n as u8).collect();
    rng.shuffle(&mut p);
    p
}
/// Change one cell to a different value (no-op if only one value exists).
pub fn mutate_cell(rng: &mut Rng, t: &Tab, vals: usize) -> Tab {
    let mut t = *t;
    if vals > 1 && t.cells() > 0 {
        let i = rng.below(t.cells());
        t.t[i] = ((t.t[i] as usize + 1 + rng.below(vals - 1)) % vals) as u8;
    }
    t
}
pub fn mutate_map(rng: &mut Rng, m: &Map, n: usize, vals: usize) -> Map {
    let mut m = *m;
    if vals > 1 && n > 0 {
        let i = rng.below(n);
        m[i] = ((m[i] as usize + 1 + rng.below(vals - 1)) % vals) as u8;
    }
    m
}
/// All single-cell mutants of a table.
pub fn cell_mutants(t: &Tab, vals: usize) -> Vec<Tab> {
    let mut out = vec![];
    for i in 0..t.cells() {
        for d in 1..vals {
            let mut m = *t;
            m.t[i] = ((t.t[i] as usize + d) % vals) as u8;
            out.push(m);
        }
    }
    out
}
/// Rename the elements of a binary operation: t'(p a, p b) = p t(a,b).
pub fn relabel_op(t: &Tab, p: &[u8]) -> Tab {
    let n = t.rows as usize;
    let mut out = Tab::zero(n, n);
    for a in 0..n {
        for b in 0..n {
            out.t[p[a] as usize * n + p[b] as usize] = p[t.t[a * n + b] as usize];
        }
    }
    out
}
/// The six permutations of {0,1,2} in a fixed order; S3 multiplication table (composition).
pub fn s3() -> Tab {
    let perms: [[usize; 3]; 6] = [[0, 1, 2], [1, 2, 0], [2, 0, 1], [1, 0, 2], [0, 2, 1], [2, 1, 0]];
    Tab::from_fn(6, 6, |a, b| {
        // (a o b)(x) = a(b(x))
        let c: [usize; 3] = std::array::from_fn(|x| perms[a][perms[b][x]]);
        perms.iter().position(|p| *p == c).unwrap()
    })
}
/// GF(4) multiplication on {0,1,2=x,3=x+1} (addition is xor).
pub fn gf4_mul() -> Tab {
    let m = [[0, 0, 0, 0], [0, 1, 2, 3], [0, 2, 3, 1], [0, 3, 1, 2]];
    Tab::from_fn(4, 4, |a, b| m[a][b])
}

/// Named single operations on 0..n.
pub fn ops(n: usize) -> Vec<(&'static str, Tab)> {
    let mut v: Vec<(&'static str, Tab)> = vec![
        ("add_mod", Tab::from_fn(n, n, |a, b| (a + b) % n)),
        ("mul_mod", Tab::from_fn(n, n, |a, b| (a * b) % n)),
        ("sub_mod", Tab::from_fn(n, n, |a, b| (a + n - b) % n)),
        ("max", Tab::from_fn(n, n, |a, b| a.max(b))),
        ("min", Tab::from_fn(n, n, |a, b| a.min(b))),
        ("sat_add", Tab::from_fn(n, n, |a, b| (a + b).min(n - 1))),
        ("first", Tab::from_fn(n, n, |a, _| a)),
        ("second", Tab::from_fn(n, n, |_, b| b)),
        ("const0", Tab::from_fn(n, n, |_, _| 0)),
        ("const_last", Tab::from_fn(n, n, |_, _| n - 1)),
        // left-zero semigroup with an identity adjoined at n-1 (a non-commutative monoid)
        ("first_plus_identity", Tab::from_fn(n, n, |a, b| if a == n - 1 { b } else if b == n - 1 { a } else { a })),
        ("second_plus_identity", Tab::from_fn(n, n, |a, b| if a == n - 1 { b } else if b == n - 1 { a } else { b })),
    ];
    if n == 4 {
        v.push(("xor", Tab::from_fn(4, 4, |a, b| a ^ b)));
        v.push(("and", Tab::from_fn(4, 4, |a, b| a & b)));
        v.push(("or", Tab::from_fn(4, 4, |a, b| a | b)));
        v.push(("gf4_mul", gf4_mul()));
    }
    if n == 6 {
        v.push(("s3", s3()));
    }
    if n == 8 {
        v.push(("xor", Tab::from_fn(8, 8, |a, b| a ^ b)));
        v.push(("and", Tab::from_fn(8, 8, |a, b| a & b)));
        v.push(("t2_mul", t2_mul()));
    }
    v
}

/// Multiplication of upper-triangular 2x2 matrices over GF(2), [[a,b],[0,c]] encoded as a + 2b + 4c (addition is
/// xor, one = 5): the smallest non-commutative ring with unity.
pub fn t2_mul() -> Tab {
    Tab::from_fn(8, 8, |x, y| {
        let (a1, b1, c1) = (x & 1, (x >> 1) & 1, (x >> 2) & 1);
        let (a2, b2, c2) = (y & 1, (y >> 1) & 1, (y >> 2) & 1);
        (a1 & a2) | (((a1 & b2) ^ (b1 & c2)) << 1) | ((c1 & c2) << 2)
    })
}

/// Named (f = addition, g = multiplication, zero, one) candidates on 0..n: rings, fields, semirings and
/// look-alikes that are not.
pub fn pairs(n: usize) -> Vec<(&'static str, Tab, Tab, u8, u8)> {
    let o = ops(n);
    let get = |name: &str| o.iter().find(|(k, _)| *k == name).unwrap().1;
    let last = (n - 1) as u8;
    let mut v = vec![
        ("Z_n", get("add_mod"), get("mul_mod"), 0, 1 % n as u8),
        ("max_min", get("max"), get("min"), 0, last),
        ("min_max", get("min"), get("max"), last, 0),
        ("tropical_sat", get("min"), get("sat_add"), last, 0),
        ("max_sat_add", get("max"), get("sat_add"), 0, 0),
        ("add_first", get("add_mod"), get("first"), 0, 0),
        ("max_first_plus_identity", get("max"), get("first_plus_identity"), 0, last),
        ("mul_add_swapped", get("mul_mod"), get("add_mod"), 1 % n as u8, 0),
    ];
    if n == 4 {
        v.push(("GF4", get("xor"), get("gf4_mul"), 0, 1));
        v.push(("bool_ring", get("xor"), get("and"), 0, 3));
        v.push(("or_and", get("or"), get("and"), 0, 3));
        v.push(("and_or", get("and"), get("or"), 3, 0));
    }
    if n == 6 {
        v.push(("add_s3", get("add_mod"), get("s3"), 0, 0));
    }
    if n == 8 {
        v.push(("T2_F2", get("xor"), get("t2_mul"), 0, 5));
        v.push(("T2_F2_again", get("xor"), get("t2_mul"), 0, 5));
        v.push(("bool_ring", get("xor"), get("and"), 0, 7));
    }
    v
}

/// A two-sided inverse map w.r.t. (f, e) where one exists per element (else 0): workload helper only.
pub fn find_inverse(f: &Tab, e: u8, skip: Option<u8>) -> Map {
    let n = f.rows as usize;
    let mut m = [0u8; MAXN];
    for a in 0..n as u8 {
        if Some(a) == skip {
            continue;
        }
        for b in 0..n as u8 {
            if f.ap(a, b) == e && f.ap(b, a) == e {
                m[a as usize] = b;
                break;
            }
        }
    }
    m
}
