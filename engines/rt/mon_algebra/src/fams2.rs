//! Workload families for `linearity`, `bilinearity`, `get_single_function_properties`.

use vcommon::{Args, Reporter, Rng};

use crate::core::*;
use crate::fams::Class3;
use crate::lib_ops::*;
use crate::lin::*;

pub struct Cx2<'a> {
    pub rep: &'a mut Reporter,
    pub t: LinTally,
    pub args: &'a Args,
}

fn all_tabs(n: usize) -> Vec<Tab> {
    (0..ipow(n, n * n)).map(|c| Tab::from_code(n, n, n, c)).collect()
}

pub fn fam_linearity(cx: &mut Cx2, cl: &Class3, rng: &mut Rng) {
    let stride = cx.args.budget(1, 1, 2000);
    // (a) exhaustive: every f on S, g on R, q: S -> R for (|S|,|R|) in {1,2,3}^2 \ {(3,3)}
    let fam = "linearity-exhaustive";
    let mut idx = 0usize;
    for ns in 1..=3usize {
        for nr in 1..=3usize {
            if ns == 3 && nr == 3 {
                continue;
            }
            let (fs, gs) = (all_tabs(ns), all_tabs(nr));
            for f in &fs {
                for g in &gs {
                    idx += 1;
                    if idx % stride != 0 {
                        continue;
                    }
                    for qc in 0..ipow(nr, ns) {
                        let q = map_from_code(ns, nr, qc);
                        judge_lin(cx.rep, &mut cx.t, &LinCase::new(f, g, &q), fam);
                    }
                }
            }
            cx.rep.count(&format!("linearity_exhaustive_{ns}x{nr}_done"));
        }
    }
    // (b) |S| = |R| = 3: every f x {projections, Z3 add/mul, max, min, constants, non-commutative monoids} x every q;
    //     every associative f x every associative g x every q; (thorough) every f x every associative g x every q
    let fam = "linearity-n3-structured";
    let mut special: Vec<Tab> = ops(3).into_iter().map(|x| x.1).collect();
    special.dedup();
    let thorough = cx.args.tier == vcommon::Tier::Thorough;
    let g_list: &Vec<Tab> = if thorough { &cl.assoc } else { &special };
    for (i, f) in cl.all.iter().enumerate() {
        if i % stride != 0 {
            continue;
        }
        for g in g_list {
            for qc in 0..27 {
                judge_lin(cx.rep, &mut cx.t, &LinCase::new(f, g, &map_from_code(3, 3, qc)), fam);
            }
        }
    }
    if !thorough {
        for (i, f) in cl.assoc.iter().enumerate() {
            if i % stride != 0 {
                continue;
            }
            for g in &cl.assoc {
                for qc in 0..27 {
                    judge_lin(cx.rep, &mut cx.t, &LinCase::new(f, g, &map_from_code(3, 3, qc)), fam);
                }
            }
        }
    }
    // (c) random triples on 3 elements
    let fam = "linearity-n3-random";
    for _ in 0..cx.args.budget(200_000, 4_000_000, 50) {
        let c = LinCase::new(rng.choose(&cl.all), rng.choose(&cl.all), &rand_map(rng, 3, 3));
        judge_lin(cx.rep, &mut cx.t, &c, fam);
    }
    // (d) larger carriers: homomorphisms between well-known structures, renamed, with 0..2 cell changes
    let fam = "linearity-large";
    let s3t = s3();
    let s3_inv = find_inverse(&s3t, 0, None);
    for _ in 0..cx.args.budget(60_000, 1_200_000, 30) {
        let (mut f, mut g, mut q): (Tab, Tab, Map);
        match rng.below(6) {
            0 => {
                // Z_n -> Z_m, x -> k*x mod m (a homomorphism iff m | k*n)
                let (n, m) = (2 + rng.below(5), 2 + rng.below(5));
                let k = rng.below(m);
                f = Tab::from_fn(n, n, |a, b| (a + b) % n);
                g = Tab::from_fn(m, m, |a, b| (a + b) % m);
                q = [0; MAXN];
                for (x, y) in q.iter_mut().enumerate().take(n) {
                    *y = ((k * x) % m) as u8;
                }
            }
            1 => {
                // S3 -> S3: identity, an inner automorphism x -> c x c^-1, or the anti-automorphism x -> x^-1
                f = s3t;
                g = s3t;
                q = [0; MAXN];
                let c = rng.below(6) as u8;
                let mode = rng.below(3);
                for x in 0..6u8 {
                    q[x as usize] = match mode {
                        0 => x,
                        1 => s3t.ap(s3t.ap(c, x), s3_inv[c as usize]),
                        _ => s3_inv[x as usize],
                    };
                }
            }
            2 => {
                // S3 -> Z_2 (sign) or S3 -> Z_3 (not a homomorphism)
                f = s3t;
                let m = 2 + rng.below(2);
                g = Tab::from_fn(m, m, |a, b| (a + b) % m);
                q = [0; MAXN];
                for x in 0..6 {
                    q[x] = if x >= 3 { 1 } else { 0 };
                }
            }
            3 => {
                // projections: any q is linear between two left-zero (or two right-zero) semigroups
                let (n, m) = (2 + rng.below(5), 2 + rng.below(5));
                let first = rng.chance(1, 2);
                let same = rng.chance(3, 4);
                f = Tab::from_fn(n, n, |a, b| if first { a } else { b });
                g = Tab::from_fn(m, m, |a, b| if first == same { a } else { b });
                q = rand_map(rng, n, m);
            }
            4 => {
                // monoids with adjoined identity, max/min lattices: monotone maps
                let (n, m) = (2 + rng.below(5), 2 + rng.below(5));
                let (fo, go) = (ops(n), ops(m));
                let k = rng.below(fo.len().min(12));
                f = fo[k].1;
                g = go[k].1;
                q = [0; MAXN];
                for (x, y) in q.iter_mut().enumerate().take(n) {
                    *y = (x * (m - 1) / (n - 1).max(1)) as u8;
                }
            }
            _ => {
                let (n, m) = (4 + rng.below(3), 4 + rng.below(3));
                f = rand_tab(rng, n, n, n);
                g = rand_tab(rng, m, m, m);
                q = rand_map(rng, n, m);
            }
        }
        let (n, m) = (f.rows as usize, g.rows as usize);
        // rename both carriers
        let (p, r) = (rand_perm(rng, n), rand_perm(rng, m));
        f = relabel_op(&f, &p);
        g = relabel_op(&g, &r);
        let mut q2 = [0u8; MAXN];
        for x in 0..n {
            q2[p[x] as usize] = r[q[x] as usize];
        }
        q = q2;
        for _ in 0..rng.below(3) {
            match rng.below(3) {
                0 => f = mutate_cell(rng, &f, n),
                1 => g = mutate_cell(rng, &g, m),
                _ => q = mutate_map(rng, &q, n, m),
            }
        }
        let mut c = LinCase::new(&f, &g, &q);
        // occasionally a sub-carrier, duplicated items or the empty slice
        match rng.below(10) {
            0 => c = c.with_items(&[]),
            1 => {
                let mut it = rand_perm(rng, n);
                it.truncate(1 + rng.below(n));
                c = c.with_items(&it);
            }
            2 => {
                let mut it = rand_perm(rng, n);
                while it.len() < MAXITEMS && rng.chance(1, 2) {
                    it.push(rng.below(n) as u8);
                }
                c = c.with_items(&it);
            }
            _ => {}
        }
        judge_lin(cx.rep, &mut cx.t, &c, fam);
    }
}

pub fn fam_bilinearity(cx: &mut Cx2, rng: &mut Rng) {
    let stride = cx.args.budget(1, 1, 3000);
    // (a) exhaustive: |S|,|T|,|R| in {1,2}: every f, h, g and every q: S x T -> R
    let fam = "bilinearity-exhaustive";
    let mut idx = 0;
    for ns in 1..=2usize {
        for nt in 1..=2usize {
            for nr in 1..=2usize {
                let (fs, hs, gs) = (all_tabs(ns), all_tabs(nt), all_tabs(nr));
                for f in &fs {
                    for h in &hs {
                        for g in &gs {
                            for qc in 0..ipow(nr, ns * nt) {
                                idx += 1;
                                if idx % stride != 0 {
                                    continue;
                                }
                                let q = Tab::from_code(ns, nt, nr, qc);
                                judge_bil(cx.rep, &mut cx.t, &BilCase::new(f, h, g, &q), fam);
                            }
                        }
                    }
                }
            }
        }
    }
    cx.rep.count("bilinearity_exhaustive_le2_done");
    // (b) sizes up to 3: f, h, g drawn from the well-known operations, EVERY q; near-misses of every bilinear case
    let fam = "bilinearity-structured-all-q";
    let reps = cx.args.budget(60, 600, 1);
    let mut positives: Vec<BilCase> = vec![];
    for _ in 0..reps {
        let (ns, nt, nr) = (1 + rng.below(3), 1 + rng.below(3), 1 + rng.below(3));
        let (fo, ho, go) = (ops(ns), ops(nt), ops(nr));
        let aligned = rng.chance(1, 2);
        let k = rng.below(fo.len());
        let f = fo[k].1;
        let h = if aligned { ho[k].1 } else { rng.choose(&ho).1 };
        let g = if aligned { go[k].1 } else { rng.choose(&go).1 };
        let nq = ipow(nr, ns * nt);
        for qc in 0..nq {
            if cx.args.tier == vcommon::Tier::Miri && qc % 997 != 0 {
                continue;
            }
            let q = Tab::from_code(ns, nt, nr, qc);
            let c = BilCase::new(&f, &h, &g, &q);
            if judge_bil(cx.rep, &mut cx.t, &c, fam) == 0 && positives.len() < 4000 {
                positives.push(c);
            }
        }
    }
    let fam = "bilinearity-near-miss";
    for c in &positives {
        let nr = c.g.rows as usize;
        for q in cell_mutants(&c.q, nr) {
            judge_bil(cx.rep, &mut cx.t, &BilCase { q, ..*c }, fam);
        }
        let m = BilCase { f: mutate_cell(rng, &c.f, c.f.rows as usize), ..*c };
        judge_bil(cx.rep, &mut cx.t, &m, fam);
        let m = BilCase { h: mutate_cell(rng, &c.h, c.h.rows as usize), ..*c };
        judge_bil(cx.rep, &mut cx.t, &m, fam);
        let m = BilCase { g: mutate_cell(rng, &c.g, nr), ..*c };
        judge_bil(cx.rep, &mut cx.t, &m, fam);
        // sub-carriers (including empty item slices): the law is quantified over the listed items only
        let m = BilCase { sf: rng.below(c.f.rows as usize + 1) as u8, sh: rng.below(c.h.rows as usize + 1) as u8, ..*c };
        judge_bil(cx.rep, &mut cx.t, &m, fam);
    }
    // (c) larger carriers: multiplication-like maps over well-known additive structures, renamed and perturbed; random
    let fam = "bilinearity-large";
    for _ in 0..cx.args.budget(60_000, 1_200_000, 30) {
        let (ns, nt, nr): (usize, usize, usize);
        let (mut f, mut h, mut g, mut q): (Tab, Tab, Tab, Tab);
        match rng.below(5) {
            0 => {
                // Z_n x Z_n -> Z_n, (a,b) -> k*a*b
                let n = 2 + rng.below(5);
                let k = rng.below(n);
                (ns, nt, nr) = (n, n, n);
                f = Tab::from_fn(n, n, |a, b| (a + b) % n);
                h = f;
                g = f;
                q = Tab::from_fn(n, n, |a, b| (k * a * b) % n);
            }
            1 => {
                // max/min lattices: q = min is "bilinear" over max
                let n = 2 + rng.below(5);
                (ns, nt, nr) = (n, n, n);
                f = Tab::from_fn(n, n, |a, b| a.max(b));
                h = f;
                g = f;
                q = Tab::from_fn(n, n, |a, b| a.min(b));
            }
            2 => {
                // projections everywhere: every q qualifies when f, h, g all project on the same side... or not
                (ns, nt, nr) = (2 + rng.below(5), 2 + rng.below(5), 2 + rng.below(5));
                let side = rng.chance(1, 2);
                let odd = rng.chance(1, 4);
                f = Tab::from_fn(ns, ns, |a, b| if side { a } else { b });
                h = Tab::from_fn(nt, nt, |a, b| if side { a } else { b });
                g = Tab::from_fn(nr, nr, |a, b| if side != odd { a } else { b });
                q = rand_tab(rng, ns, nt, nr);
            }
            3 => {
                // xor / and on 2 bits, GF(4)
                (ns, nt, nr) = (4, 4, 4);
                f = Tab::from_fn(4, 4, |a, b| a ^ b);
                h = f;
                g = f;
                q = if rng.chance(1, 2) { Tab::from_fn(4, 4, |a, b| a & b) } else { gf4_mul() };
            }
            _ => {
                (ns, nt, nr) = (1 + rng.below(6), 1 + rng.below(6), 1 + rng.below(6));
                f = rand_tab(rng, ns, ns, ns);
                h = rand_tab(rng, nt, nt, nt);
                g = rand_tab(rng, nr, nr, nr);
                q = rand_tab(rng, ns, nt, nr);
            }
        }
        // rename the three carriers
        let (p, s, r) = (rand_perm(rng, ns), rand_perm(rng, nt), rand_perm(rng, nr));
        f = relabel_op(&f, &p);
        h = relabel_op(&h, &s);
        g = relabel_op(&g, &r);
        let mut q2 = Tab::zero(ns, nt);
        for a in 0..ns {
            for b in 0..nt {
                q2.t[p[a] as usize * nt + s[b] as usize] = r[q.t[a * nt + b] as usize];
            }
        }
        q = q2;
        for _ in 0..rng.below(3) {
            match rng.below(4) {
                0 => f = mutate_cell(rng, &f, ns),
                1 => h = mutate_cell(rng, &h, nt),
                2 => g = mutate_cell(rng, &g, nr),
                _ => q = mutate_cell(rng, &q, nr),
            }
        }
        judge_bil(cx.rep, &mut cx.t, &BilCase::new(&f, &h, &g, &q), fam);
    }
}

pub fn fam_sfp(cx: &mut Cx2, rng: &mut Rng) {
    let fam = "single-function-properties";
    let thorough = cx.args.tier == vcommon::Tier::Thorough;
    let stride = cx.args.budget(1, 1, 500);
    for n in 1..=3usize {
        for (i, f) in all_tabs(n).iter().enumerate() {
            if i % stride != 0 {
                continue;
            }
            for e in 0..n as u8 {
                for z in 0..n as u8 {
                    if n < 3 || thorough {
                        for bc in 0..ipow(n, n) {
                            judge_sfp(cx.rep, &mut cx.t, &SfpCase { f: *f, e, b: map_from_code(n, n, bc), z }, fam);
                        }
                    } else {
                        let b = find_inverse(f, e, None);
                        judge_sfp(cx.rep, &mut cx.t, &SfpCase { f: *f, e, b, z }, fam);
                        judge_sfp(cx.rep, &mut cx.t, &SfpCase { f: *f, e, b: rand_map(rng, n, n), z }, fam);
                    }
                }
            }
        }
    }
    // larger: well-known operations, renamed, perturbed
    for _ in 0..cx.args.budget(20_000, 300_000, 20) {
        let n = [4, 5, 6, 8][rng.below(4)];
        let lib = ops(n);
        let p = rand_perm(rng, n);
        let mut f = relabel_op(&rng.choose(&lib).1, &p);
        if rng.chance(1, 3) {
            f = mutate_cell(rng, &f, n);
        }
        let s: Vec<u8> = (0..n as u8).collect();
        let e = s.iter().copied().find(|&e| n_left_id(&s, &f, e) == 0 && n_right_id(&s, &f, e) == 0).unwrap_or(rng.below(n) as u8);
        let z = s.iter().copied().find(|&z| n_az(&s, &f, z) == 0 && n_za(&s, &f, z) == 0).unwrap_or(rng.below(n) as u8);
        let mut b = find_inverse(&f, e, None);
        if rng.chance(1, 4) {
            b = mutate_map(rng, &b, n, n);
        }
        judge_sfp(cx.rep, &mut cx.t, &SfpCase { f, e, b, z }, fam);
    }
}
