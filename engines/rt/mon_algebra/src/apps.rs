//! The shipped semiring applications (`lattices::semiring_application`): semiring laws on value sets where
//! machine arithmetic is exact (no overflow, dyadic floats).

use std::fmt::Debug;

use lattices::semiring_application::{BinaryTrust, ConfidenceScore, Cost, FuzzyLogic, Multiplicity, U32WithInfinity};
use lattices::{Addition, Multiplication, One, Zero};
use vcommon::{Args, Reporter, Tier, Value, hash_of, json};

fn guarded<T>(f: impl FnOnce() -> T) -> Result<T, String> {
    std::panic::catch_unwind(std::panic::AssertUnwindSafe(f)).map_err(|e| {
        if let Some(s) = e.downcast_ref::<&str>() {
            s.to_string()
        } else if let Some(s) = e.downcast_ref::<String>() {
            s.clone()
        } else {
            "<non-string panic>".to_string()
        }
    })
}

/// One semiring application seen through its public traits plus the H1 accessors.
struct App<'a, V, W> {
    name: &'static str,
    mk: &'a dyn Fn(V) -> W,
    val: &'a dyn Fn(&W) -> V,
    tojson: &'a dyn Fn(V) -> Value,
}

impl<'a, V, W> App<'a, V, W>
where
    V: Copy + PartialEq + Debug,
    W: Addition<W> + Multiplication<W> + Zero<V> + One<V>,
{
    fn add(&self, a: V, b: V) -> Result<V, String> {
        guarded(|| {
            let mut x = (self.mk)(a);
            x.add((self.mk)(b));
            (self.val)(&x)
        })
    }
    fn mul(&self, a: V, b: V) -> Result<V, String> {
        guarded(|| {
            let mut x = (self.mk)(a);
            x.mul((self.mk)(b));
            (self.val)(&x)
        })
    }
    fn case(&self, law: &str, vals: &[V]) -> Value {
        json!({"engine":"mon_algebra","family":"semiring_application","kind":"app","type":self.name,"law":law,
               "values": vals.iter().map(|v| (self.tojson)(*v)).collect::<Vec<_>>()})
    }
    fn viol(&self, rep: &mut Reporter, law: &str, vals: &[V], what: String) {
        rep.violation(&format!("C09|semiring_application::{}|{law}", self.name), &what, self.case(law, vals));
    }
    /// `lhs == rhs` where both sides are results of the real operations; a panic on either side is a violation.
    fn eq(&self, rep: &mut Reporter, law: &str, vals: &[V], lhs: Result<V, String>, rhs: Result<V, String>, text: &str) {
        rep.eval();
        rep.count(&format!("app.{}.{}", self.name, law));
        match (lhs, rhs) {
            (Ok(l), Ok(r)) => {
                if l != r {
                    self.viol(rep, law, vals, format!("{text}: left side = {l:?}, right side = {r:?} for values {vals:?}"));
                }
            }
            (Err(p), _) | (_, Err(p)) => {
                rep.violation(
                    &format!("C09|semiring_application::{}|panic", self.name),
                    &format!("panic while evaluating {law} inside the claimed carrier: {p}"),
                    self.case(law, vals),
                );
            }
        }
    }
    fn then(&self, x: Result<V, String>, f: impl FnOnce(V) -> Result<V, String>) -> Result<V, String> {
        x.and_then(f)
    }

    fn law(&self, rep: &mut Reporter, law: &str, v: &[V]) {
        match law {
            "zero-is-additive-identity" => {
                // the zero reported by the instance holding v[0] is a two-sided identity for v[1]
                let z = guarded(|| (self.mk)(v[0]).zero());
                self.eq(rep, law, v, self.then(z.clone(), |z| self.add(v[1], z)), Ok(v[1]), "a + zero() == a");
                self.eq(rep, law, v, self.then(z, |z| self.add(z, v[1])), Ok(v[1]), "zero() + a == a");
            }
            "one-is-multiplicative-identity" => {
                let o = guarded(|| (self.mk)(v[0]).one());
                self.eq(rep, law, v, self.then(o.clone(), |o| self.mul(v[1], o)), Ok(v[1]), "a * one() == a");
                self.eq(rep, law, v, self.then(o, |o| self.mul(o, v[1])), Ok(v[1]), "one() * a == a");
            }
            "zero-absorbs-mul" => {
                let z = guarded(|| (self.mk)(v[0]).zero());
                self.eq(rep, law, v, self.then(z.clone(), |z| self.mul(v[1], z)), z.clone(), "a * zero() == zero()");
                self.eq(rep, law, v, self.then(z.clone(), |z| self.mul(z, v[1])), z, "zero() * a == zero()");
            }
            "add-commutative" => self.eq(rep, law, v, self.add(v[0], v[1]), self.add(v[1], v[0]), "a + b == b + a"),
            "add-associative" => {
                let l = self.then(self.add(v[0], v[1]), |ab| self.add(ab, v[2]));
                let r = self.then(self.add(v[1], v[2]), |bc| self.add(v[0], bc));
                self.eq(rep, law, v, l, r, "(a + b) + c == a + (b + c)");
            }
            "mul-associative" => {
                let l = self.then(self.mul(v[0], v[1]), |ab| self.mul(ab, v[2]));
                let r = self.then(self.mul(v[1], v[2]), |bc| self.mul(v[0], bc));
                self.eq(rep, law, v, l, r, "(a * b) * c == a * (b * c)");
            }
            "left-distributive" => {
                let l = self.then(self.add(v[1], v[2]), |bc| self.mul(v[0], bc));
                let r = self.then(self.mul(v[0], v[1]), |ab| self.then(self.mul(v[0], v[2]), |ac| self.add(ab, ac)));
                self.eq(rep, law, v, l, r, "a * (b + c) == a * b + a * c");
            }
            "right-distributive" => {
                let l = self.then(self.add(v[1], v[2]), |bc| self.mul(bc, v[0]));
                let r = self.then(self.mul(v[1], v[0]), |ba| self.then(self.mul(v[2], v[0]), |ca| self.add(ba, ca)));
                self.eq(rep, law, v, l, r, "(b + c) * a == b * a + c * a");
            }
            _ => panic!("unknown law {law}"),
        }
    }

    fn run(&self, rep: &mut Reporter, vals: &[V]) {
        for &a in vals {
            for &b in vals {
                for law in ["zero-is-additive-identity", "one-is-multiplicative-identity", "zero-absorbs-mul", "add-commutative"] {
                    self.law(rep, law, &[a, b]);
                }
                for &c in vals {
                    for law in ["add-associative", "mul-associative", "left-distributive", "right-distributive"] {
                        self.law(rep, law, &[a, b, c]);
                    }
                    if a != b && b != c && a != c {
                        rep.nontrivial(hash_of(&(self.name, format!("{a:?},{b:?},{c:?}"))));
                        rep.sample(|| self.case("all eight laws", &[a, b, c]));
                    }
                }
            }
        }
        rep.count(&format!("app.{}.carrier_values", self.name));
    }
}

fn cost_json(v: U32WithInfinity) -> Value {
    match v {
        U32WithInfinity::Infinity => Value::Null,
        U32WithInfinity::Finite(x) => json!(x),
    }
}
fn cost_from(v: &Value) -> U32WithInfinity {
    match v.as_u64() {
        Some(x) => U32WithInfinity::Finite(x as u32),
        None => U32WithInfinity::Infinity,
    }
}

macro_rules! apps {
    ($bt:ident, $mu:ident, $co:ident, $cs:ident, $fz:ident) => {
        let $bt = App::<bool, BinaryTrust> { name: "BinaryTrust", mk: &BinaryTrust::verif_new, val: &|w| w.verif_value(), tojson: &|v| json!(v) };
        let $mu = App::<u32, Multiplicity> { name: "Multiplicity", mk: &Multiplicity::new, val: &|w| w.verif_value(), tojson: &|v| json!(v) };
        let $co = App::<U32WithInfinity, Cost> { name: "Cost", mk: &Cost::new, val: &|w| w.verif_value(), tojson: &cost_json };
        let $cs = App::<f64, ConfidenceScore> { name: "ConfidenceScore", mk: &ConfidenceScore::new, val: &|w| w.verif_value(), tojson: &|v| json!(v) };
        let $fz = App::<f64, FuzzyLogic> { name: "FuzzyLogic", mk: &FuzzyLogic::new, val: &|w| w.verif_value(), tojson: &|v| json!(v) };
    };
}

pub fn run_apps(rep: &mut Reporter, args: &Args) {
    apps!(bt, mu, co, cs, fz);
    let mut rng = args.rng().fork(0xA995);
    let (n_int, denom) = match args.tier {
        Tier::Quick => (34usize, 4u32),
        Tier::Thorough => (110, 16),
        Tier::Miri => (5, 2),
    };
    // BinaryTrust: the whole carrier.
    bt.run(rep, &[false, true]);
    // Multiplicity: small values, boundary values up to 2^10, random fill
    let mut m: Vec<u32> = vec![0, 1, 2, 3, 4, 5, 7, 8, 15, 16, 31, 32, 33, 63, 64, 100, 127, 128, 255, 256, 511, 512, 1000, 1023, 1024];
    while m.len() < n_int {
        let x = rng.below(1025) as u32;
        if !m.contains(&x) {
            m.push(x);
        }
    }
    m.truncate(n_int.max(5));
    mu.run(rep, &m);
    // Cost: Infinity plus finite costs up to 2^20
    let mut c: Vec<U32WithInfinity> = vec![U32WithInfinity::Infinity];
    for x in [0u32, 1, 2, 3, 5, 8, 100, 1023, 1024, 65535, 65536, 1 << 19, (1 << 20) - 1, 1 << 20] {
        c.push(U32WithInfinity::Finite(x));
    }
    while c.len() < n_int {
        let x = U32WithInfinity::Finite(rng.below((1 << 20) + 1) as u32);
        if !c.contains(&x) {
            c.push(x);
        }
    }
    c.truncate(n_int.max(5));
    co.run(rep, &c);
    // dyadic rationals k/denom in [0,1]
    let d: Vec<f64> = (0..=denom).map(|k| k as f64 / denom as f64).collect();
    cs.run(rep, &d);
    fz.run(rep, &d);
}

pub fn replay_app(rep: &mut Reporter, case: &Value) {
    apps!(bt, mu, co, cs, fz);
    let law = case["law"].as_str().expect("law");
    let vals = case["values"].as_array().cloned().unwrap_or_default();
    match case["type"].as_str().expect("type") {
        "BinaryTrust" => bt.law(rep, law, &vals.iter().map(|v| v.as_bool().unwrap()).collect::<Vec<_>>()),
        "Multiplicity" => mu.law(rep, law, &vals.iter().map(|v| v.as_u64().unwrap() as u32).collect::<Vec<_>>()),
        "Cost" => co.law(rep, law, &vals.iter().map(cost_from).collect::<Vec<_>>()),
        "ConfidenceScore" => cs.law(rep, law, &vals.iter().map(|v| v.as_f64().unwrap()).collect::<Vec<_>>()),
        "FuzzyLogic" => fz.law(rep, law, &vals.iter().map(|v| v.as_f64().unwrap()).collect::<Vec<_>>()),
        t => panic!("unknown app type {t}"),
    }
}
