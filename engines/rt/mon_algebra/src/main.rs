//! C09 — the law checkers of `lattices::algebra` report exactly the laws that hold, and the shipped semiring
//! applications (`lattices::semiring_application`) satisfy the semiring laws.
//!
//! E: the `Result` of every public checker on operation tables over carriers 0..n (all tables for n <= 3).
//! O: the law each checker's doc comment names, evaluated by brute force from the textbook definition
//!    (core.rs `oracle`, lin.rs), never looking at how algebra.rs composes its checks:
//!
//! | checker | documented law (all tuples of `items`) |
//! |---|---|
//! | associativity, semigroup | (ab)c = a(bc) |
//! | commutativity / idempotency | xy = yx / xx = x |
//! | identity(e) | ea = a and ae = a |
//! | absorbing_element(z) | az = z and za = z |
//! | inverse(e,b) / nonzero_inverse(e,zero,b) | a b(a) = e and b(a) a = e (for a != zero) |
//! | no_nonzero_zero_divisors(zero) | a,b != zero => ab != zero |
//! | monoid / commutative_monoid | associative + identity (+ commutative) |
//! | group / abelian_group | monoid + inverse (+ commutative) |
//! | left_/right_distributes, distributive | a(b+c) = ab+ac / (b+c)a = ba+ca / both |
//! | semiring | (+,zero) commutative monoid, (x,one) monoid, zero absorbing for x, x distributes over + |
//! | ring / commutative_ring | semiring + additive inverse (+ x commutative) |
//! | integral_domain | "nonzero commutative ring with no nonzero zero divisors" |
//! | field | commutative ring + inverses of the nonzero elements; docs silent on 0 != 1 => either answer accepted on the zero ring |
//! | linearity | q(f(a,b)) = g(q(a),q(b)) |
//! | bilinearity | q(f(a,b),c) = g(q(a,c),q(b,c)) and q(a,h(c,d)) = g(q(a,c),q(a,d)) |
//! | get_single_function_properties | lists exactly those of the six single-operation laws that hold |

mod apps;
mod core;
mod fams;
mod fams2;
mod lib_ops;
mod lin;

use std::sync::atomic::{AtomicU64, Ordering};

use vcommon::{Args, Reporter, Tier, json};

use crate::core::*;

static PANICS: AtomicU64 = AtomicU64::new(0);

fn replay(rep: &mut Reporter, case: &vcommon::Value) {
    let fam = case["family"].as_str().unwrap_or("replay").to_string();
    match case["kind"].as_str().expect("kind") {
        "array" => {
            let mut tally: Tally = [[0; 4]; NCK];
            let c = Case::from_json(case);
            let v = judge(rep, &mut tally, &c, &fam);
            rep.extra("replay_oracle", json!({"expect": format!("{:?}", v.expect), "failing": v.fails, "first_failing_component": v.first}));
            rep.extra("replay_checker_result", json!(format!("{:?}", call(&c))));
        }
        "linearity" => {
            let mut t = lin::LinTally::default();
            let fails = lin::judge_lin(rep, &mut t, &lin::LinCase::from_json(case), &fam);
            rep.extra("replay_oracle", json!({"failing_pairs": fails}));
        }
        "bilinearity" => {
            let mut t = lin::LinTally::default();
            let fails = lin::judge_bil(rep, &mut t, &lin::BilCase::from_json(case), &fam);
            rep.extra("replay_oracle", json!({"failing_triples": fails}));
        }
        "single_function_properties" => {
            let mut t = lin::LinTally::default();
            lin::judge_sfp(rep, &mut t, &lin::SfpCase::from_json(case), &fam);
        }
        "app" => apps::replay_app(rep, case),
        k => panic!("unknown replay kind {k}"),
    }
}

fn main() {
    let args = Args::parse();
    if args.prop == "NONE" {
        return;
    }
    if args.prop != "C09" {
        eprintln!("mon_algebra serves C09 only");
        std::process::exit(3);
    }
    // panics of the code under test are observations (caught per call); keep the log short
    let default_hook = std::panic::take_hook();
    std::panic::set_hook(Box::new(move |info| {
        if PANICS.fetch_add(1, Ordering::Relaxed) < 5 {
            default_hook(info);
        }
    }));
    let mut rep = Reporter::new("C09", args.seed);
    rep.set_sample_cap(8);
    if let Some(case) = args.replay_case() {
        replay(&mut rep, &case);
        rep.finish("replay", false);
        return;
    }
    let rng = args.rng();
    let miri = args.tier == Tier::Miri;
    let cl = fams::classify3();
    rep.extra("tables_on_3_elements", json!({"all": cl.all.len(), "associative": cl.assoc.len(), "monoids": cl.mon.len(), "commutative_monoids": cl.cm.len()}));

    // ---- array-based checkers
    let tally = {
        let mut cx = fams::Ctx { rep: &mut rep, tally: [[0; 4]; NCK], args: &args };
        for n in 1..=3 {
            fams::fam_single(&mut cx, n);
        }
        for n in 1..=2 {
            fams::fam_pairs_small(&mut cx, n);
        }
        fams::fam_pairs3(&mut cx, &cl, &mut rng.fork(1));
        if args.tier == Tier::Thorough {
            fams::fam_dist3_all_pairs(&mut cx, &cl);
        }
        fams::fam_large(&mut cx, &mut rng.fork(2));
        fams::fam_items(&mut cx, &cl, &mut rng.fork(3));
        cx.tally
    };
    // ---- slice-based checkers
    let lt = {
        let mut cx = fams2::Cx2 { rep: &mut rep, t: lin::LinTally::default(), args: &args };
        fams2::fam_linearity(&mut cx, &cl, &mut rng.fork(4));
        fams2::fam_bilinearity(&mut cx, &mut rng.fork(5));
        fams2::fam_sfp(&mut cx, &mut rng.fork(6));
        cx.t
    };
    // ---- semiring applications
    apps::run_apps(&mut rep, &args);

    // ---- coverage
    let mut cov = serde_json_map();
    for ck in ALL_CK {
        let t = tally[ck as usize];
        cov.insert(ck.name().to_string(), json!({"law_holds": t[0], "law_fails": t[1], "either_accepted": t[2], "near_miss_1_or_2_failing_tuples": t[3]}));
        rep.require(miri || (t[0] >= 20 && t[1] >= 20), &format!("{}: fewer than 20 law-holding or 20 law-failing cases judged", ck.name()));
        rep.require(miri || t[3] >= 10, &format!("{}: fewer than 10 near-miss cases (1-2 failing tuples) judged", ck.name()));
    }
    cov.insert("linearity".into(), json!({"law_holds": lt.lin[0], "law_fails": lt.lin[1], "near_miss": lt.lin[2], "law_holds_with_noncommutative_g": lt.lin[3], "law_holds_noncommutative_g_between_groups": lt.lin_ok_groups_noncomm}));
    cov.insert("bilinearity".into(), json!({"law_holds": lt.bil[0], "law_fails": lt.bil[1], "near_miss": lt.bil[2], "law_holds_with_noncommutative_g": lt.bil[3]}));
    cov.insert("get_single_function_properties".into(), json!({"calls": lt.sfp, "cases_per_law_holding": lt.sfp_laws_reported}));
    rep.extra("coverage_per_checker", vcommon::Value::Object(cov));
    // every documented component of every checker must have been the first (in textbook order) failing one somewhere
    let ff = FIRST_FAILING.with(|m| m.borrow().clone());
    let mut ffj = serde_json_map();
    for ((ck, comp), k) in &ff {
        ffj.insert(format!("{ck}:{comp}"), json!(k));
    }
    rep.extra("cases_per_first_failing_component", vcommon::Value::Object(ffj));
    for (ck, comps) in EXPECTED_COMPONENTS {
        for comp in comps.split(' ') {
            rep.require(miri || ff.get(&(*ck, comp)).copied().unwrap_or(0) >= 3, &format!("{ck}: component {comp} was the first failing one in fewer than 3 cases"));
        }
    }
    rep.extra("panics_observed", json!(PANICS.load(Ordering::Relaxed)));
    rep.require(miri || (lt.lin[0] >= 1000 && lt.lin[1] >= 1000 && lt.lin[2] >= 100), "linearity: too few law-holding / law-failing / near-miss cases");
    rep.require(miri || lt.lin[3] >= 100, "linearity: fewer than 100 law-holding cases whose g is non-commutative on the image of q");
    rep.require(miri || lt.lin_ok_groups_noncomm >= 5, "linearity: fewer than 5 homomorphisms into a non-abelian group");
    rep.require(miri || (lt.bil[0] >= 1000 && lt.bil[1] >= 1000 && lt.bil[2] >= 100 && lt.bil[3] >= 100), "bilinearity: too few law-holding / law-failing / near-miss / non-commutative-g cases");
    rep.require(miri || lt.sfp_laws_reported.iter().all(|&k| k >= 20), "get_single_function_properties: some law held in fewer than 20 cases");
    for app in ["BinaryTrust", "Multiplicity", "Cost", "ConfidenceScore", "FuzzyLogic"] {
        for law in ["add-associative", "mul-associative", "left-distributive", "right-distributive", "add-commutative", "zero-is-additive-identity", "one-is-multiplicative-identity", "zero-absorbs-mul"] {
            rep.require(rep.counter(&format!("app.{app}.{law}")) >= 4, &format!("semiring application {app}: law {law} judged on fewer than 4 tuples"));
        }
    }
    let exhaustive = !miri;
    rep.finish(
        "Operation tables over carriers 0..n. Exhaustive: every table for n<=3 with every identity/absorbing/zero candidate and every inverse map (single-operation checkers); every pair of tables for n<=2 with every zero/one and every pair of inverse maps (two-operation checkers); for n=3 every table x every monoid/projection/constant table and every commutative monoid x every table (distributivity; thorough tier: all 19683^2 ordered pairs), every commutative monoid x every monoid x every zero/one x every inverse map (semiring..field), every single-cell change of every semiring on 3 elements; linearity: every (f,g,q) for carrier sizes {1,2,3}^2 except 3x3, for 3x3 every f x 12 well-known g (thorough: x every associative g) x every q; bilinearity: every (f,h,g,q) for sizes <=2, every q for sampled well-known (f,h,g) of size <=3 plus every single-cell change of the bilinear ones. Sampled: random pairs/triples on 3 elements; carriers of size 4, 5, 6, 8 built from Z_n, GF(4), S3, upper-triangular 2x2 matrices over GF(2) (the smallest non-commutative unital ring), lattices, tropical, projections, renamed by random permutations with 0-2 random cell changes and perturbed parameters; permuted/duplicated/sub-carrier item lists. Semiring applications: all triples over bool, 34 (thorough 110) multiplicities <= 2^10, costs <= 2^20 plus Infinity, dyadic k/4 (thorough k/16) confidence and fuzzy values. A case is non-trivial when the oracle finds the law holding or failing on at most 2 tuples (for get_single_function_properties: at least two laws hold; for the applications: three pairwise different values).",
        exhaustive,
    );
}

/// Documented components per checker that can be the first failing one (textbook order; `f-inv(a)+a` and
/// `g-inv(a)*a` cannot once the preceding commutativity component holds).
const MONOID: &str = "assoc left-identity right-identity";
const SEMIRING: &str = "f-assoc f-left-identity f-right-identity f-commutative g-assoc g-left-identity g-right-identity g-a*zero g-zero*a left-distributive right-distributive";
const EXPECTED_COMPONENTS: &[(&str, &str)] = &[
    ("identity", "left-identity right-identity"),
    ("absorbing_element", "a*z z*a"),
    ("inverse", "a*inv(a) inv(a)*a"),
    ("nonzero_inverse", "a*inv(a) inv(a)*a"),
    ("monoid", MONOID),
    ("commutative_monoid", MONOID),
    ("commutative_monoid", "commutative"),
    ("group", MONOID),
    ("group", "a*inv(a) inv(a)*a"),
    ("abelian_group", MONOID),
    ("abelian_group", "a*inv(a) inv(a)*a commutative"),
    ("distributive", "left-distributive right-distributive"),
    ("semiring", SEMIRING),
    ("ring", SEMIRING),
    ("ring", "f-a+inv(a)"),
    ("commutative_ring", SEMIRING),
    ("commutative_ring", "f-a+inv(a) g-commutative"),
    ("integral_domain", SEMIRING),
    ("integral_domain", "f-a+inv(a) g-commutative zero-divisor zero-ring"),
    ("field", SEMIRING),
    ("field", "f-a+inv(a) g-commutative g-a*inv(a)"),
];

fn serde_json_map() -> vcommon::serde_json::Map<String, vcommon::Value> {
    vcommon::serde_json::Map::new()
}
