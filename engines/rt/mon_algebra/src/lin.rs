//! Slice-based checkers: `linearity`, `bilinearity`, and `get_single_function_properties`.

use lattices::algebra;
use vcommon::{Reporter, Value, hash_of, json};

use crate::core::*;

fn panic_msg(e: Box<dyn std::any::Any + Send>) -> String {
    if let Some(s) = e.downcast_ref::<&str>() {
        s.to_string()
    } else if let Some(s) = e.downcast_ref::<String>() {
        s.clone()
    } else {
        "<non-string panic>".to_string()
    }
}
fn guarded<T>(f: impl FnOnce() -> T) -> Result<T, String> {
    std::panic::catch_unwind(std::panic::AssertUnwindSafe(f)).map_err(panic_msg)
}

/// [expected Ok, expected Err, near-miss, expected Ok with non-commutative g]
#[derive(Default)]
pub struct LinTally {
    pub lin: [u64; 4],
    pub bil: [u64; 4],
    pub lin_ok_groups_noncomm: u64,
    pub sfp: u64,
    pub sfp_laws_reported: [u64; 6],
}

// ---------------------------------------------------------------------------------------------

/// `linearity(items, f, g, q)`: f on S = 0..ns, g on R = 0..nr, q: S -> R. `items` ⊆ S.
#[derive(Clone, Copy, PartialEq, Eq, Hash, Debug)]
pub struct LinCase {
    pub items: [u8; MAXITEMS],
    pub ilen: u8,
    pub f: Tab,
    pub g: Tab,
    pub q: Map,
}
impl LinCase {
    pub fn new(f: &Tab, g: &Tab, q: &Map) -> LinCase {
        let ns = f.rows as usize;
        let mut items = [0u8; MAXITEMS];
        for (i, x) in items.iter_mut().enumerate().take(ns) {
            *x = i as u8;
        }
        LinCase { items, ilen: ns as u8, f: *f, g: *g, q: *q }
    }
    pub fn with_items(mut self, its: &[u8]) -> LinCase {
        self.items = [0; MAXITEMS];
        self.items[..its.len()].copy_from_slice(its);
        self.ilen = its.len() as u8;
        self
    }
    pub fn to_json(&self, family: &str) -> Value {
        json!({"engine":"mon_algebra","family":family,"kind":"linearity","items": self.items[..self.ilen as usize].to_vec(),
               "f": self.f.to_json(), "g": self.g.to_json(), "q": map_json(&self.q, self.f.rows as usize),
               "law": "q(f(a,b)) == g(q(a), q(b)) for all a,b in items; tables row-major t[a][b]"})
    }
    pub fn from_json(v: &Value) -> LinCase {
        let items: Vec<u8> = v["items"].as_array().expect("items").iter().map(|x| x.as_u64().unwrap() as u8).collect();
        LinCase::new(&Tab::from_json(&v["f"]), &Tab::from_json(&v["g"]), &map_from_json(&v["q"])).with_items(&items)
    }
}

/// Is (s, f) a group (some identity, associativity, every element two-sided invertible)?
pub fn is_group(s: &[u8], f: &Tab) -> bool {
    if s.is_empty() || n_assoc(s, f) != 0 {
        return false;
    }
    s.iter().any(|&e| {
        n_left_id(s, f, e) == 0
            && n_right_id(s, f, e) == 0
            && s.iter().all(|&a| s.iter().any(|&b| f.ap(a, b) == e && f.ap(b, a) == e))
    })
}

pub fn judge_lin(rep: &mut Reporter, t: &mut LinTally, c: &LinCase, family: &str) -> u32 {
    let s = &c.items[..c.ilen as usize];
    let (ft, gt, qm) = (c.f, c.g, c.q);
    let got = guarded(|| {
        algebra::linearity(s, move |a: u8, b: u8| ft.ap(a, b), move |a: u8, b: u8| gt.ap(a, b), move |a: u8| qm[a as usize])
    });
    // oracle: q(a+b) = q(a) + q(b) for every a, b of the carrier
    let mut fails = 0u32;
    for &a in s {
        for &b in s {
            let lhs = c.q[c.f.ap(a, b) as usize];
            let rhs = c.g.ap(c.q[a as usize], c.q[b as usize]);
            if lhs != rhs {
                fails += 1;
            }
        }
    }
    rep.eval();
    // g restricted to the image of q
    let mut img = [0u8; MAXITEMS];
    let mut k = 0;
    for &a in s {
        let y = c.q[a as usize];
        if !img[..k].contains(&y) {
            img[k] = y;
            k += 1;
        }
    }
    let g_noncomm = n_comm(&img[..k], &c.g) > 0;
    let class = if g_noncomm { "g-noncommutative-on-image" } else { "g-commutative-on-image" };
    if fails == 0 {
        t.lin[0] += 1;
        if g_noncomm {
            t.lin[3] += 1;
        }
    } else {
        t.lin[1] += 1;
        if fails <= 2 {
            t.lin[2] += 1;
        }
    }
    let all_r: Vec<u8> = (0..c.g.rows).collect();
    let groups = || is_group(s, &c.f) && is_group(&all_r, &c.g);
    if fails == 0 && g_noncomm && groups() {
        t.lin_ok_groups_noncomm += 1;
    }
    if fails <= 2 {
        rep.nontrivial(hash_of(c));
        rep.sample(|| {
            let mut j = c.to_json(family);
            j["oracle"] = json!({"failing_pairs": fails});
            j
        });
    }
    let mut case = || {
        let mut j = c.to_json(family);
        j["f_and_g_are_groups"] = json!(groups());
        j
    };
    match got {
        Err(p) => rep.violation("C09|algebra::linearity|panic", &format!("linearity panicked: {p}"), case()),
        Ok(Ok(())) if fails > 0 => rep.violation(
            &format!("C09|algebra::linearity|ok-but-law-fails|{class}"),
            &format!("linearity returned Ok although q(f(a,b)) != g(q(a),q(b)) for {fails} pairs (a,b) of the carrier"),
            case(),
        ),
        Ok(Err(m)) if fails == 0 => rep.violation(
            &format!("C09|algebra::linearity|err-but-law-holds|{class}"),
            &format!("linearity returned Err({m:?}) although q(f(a,b)) == g(q(a),q(b)) for every pair (a,b) of the carrier"),
            case(),
        ),
        _ => {}
    }
    fails
}

// ---------------------------------------------------------------------------------------------

/// `bilinearity(items_f, items_h, f, h, g, q)`: f on S, h on T, g on R, q: S x T -> R (q.rows = |S|, q.cols = |T|).
#[derive(Clone, Copy, PartialEq, Eq, Hash, Debug)]
pub struct BilCase {
    pub f: Tab,
    pub h: Tab,
    pub g: Tab,
    pub q: Tab,
    /// use only the first `sf` / `sh` elements as items (sub-carrier; may be 0)
    pub sf: u8,
    pub sh: u8,
}
impl BilCase {
    pub fn new(f: &Tab, h: &Tab, g: &Tab, q: &Tab) -> BilCase {
        BilCase { f: *f, h: *h, g: *g, q: *q, sf: f.rows, sh: h.rows }
    }
    pub fn to_json(&self, family: &str) -> Value {
        json!({"engine":"mon_algebra","family":family,"kind":"bilinearity",
               "items_f": (0..self.sf).collect::<Vec<u8>>(), "items_h": (0..self.sh).collect::<Vec<u8>>(),
               "f": self.f.to_json(), "h": self.h.to_json(), "g": self.g.to_json(), "q": self.q.to_json(),
               "law": "q(f(a,b),c) == g(q(a,c),q(b,c)) and q(a,h(c,d)) == g(q(a,c),q(a,d)); tables row-major"})
    }
    pub fn from_json(v: &Value) -> BilCase {
        let mut c = BilCase::new(&Tab::from_json(&v["f"]), &Tab::from_json(&v["h"]), &Tab::from_json(&v["g"]), &Tab::from_json(&v["q"]));
        c.sf = v["items_f"].as_array().expect("items_f").len() as u8;
        c.sh = v["items_h"].as_array().expect("items_h").len() as u8;
        c
    }
}

pub fn judge_bil(rep: &mut Reporter, t: &mut LinTally, c: &BilCase, family: &str) -> u32 {
    let items_f: Vec<u8> = (0..c.sf).collect();
    let items_h: Vec<u8> = (0..c.sh).collect();
    let (ft, ht, gt, qt) = (c.f, c.h, c.g, c.q);
    let got = guarded(|| {
        algebra::bilinearity(
            &items_f[..],
            &items_h[..],
            move |a: u8, b: u8| ft.ap(a, b),
            move |a: u8, b: u8| ht.ap(a, b),
            move |a: u8, b: u8| gt.ap(a, b),
            move |a: u8, b: u8| qt.ap(a, b),
        )
    });
    // oracle: additive in the first argument, additive in the second argument
    let mut fails = 0u32;
    for &a in &items_f {
        for &b in &items_f {
            for &x in &items_h {
                if c.q.ap(c.f.ap(a, b), x) != c.g.ap(c.q.ap(a, x), c.q.ap(b, x)) {
                    fails += 1;
                }
            }
        }
    }
    for &a in &items_f {
        for &x in &items_h {
            for &y in &items_h {
                if c.q.ap(a, c.h.ap(x, y)) != c.g.ap(c.q.ap(a, x), c.q.ap(a, y)) {
                    fails += 1;
                }
            }
        }
    }
    rep.eval();
    let all_r: Vec<u8> = (0..c.g.rows).collect();
    let g_noncomm = n_comm(&all_r, &c.g) > 0;
    if fails == 0 {
        t.bil[0] += 1;
        if g_noncomm {
            t.bil[3] += 1;
        }
    } else {
        t.bil[1] += 1;
        if fails <= 2 {
            t.bil[2] += 1;
        }
    }
    if fails <= 2 {
        rep.nontrivial(hash_of(c));
        rep.sample(|| {
            let mut j = c.to_json(family);
            j["oracle"] = json!({"failing_triples": fails});
            j
        });
    }
    let class = if g_noncomm { "g-noncommutative" } else { "g-commutative" };
    match got {
        Err(p) => rep.violation("C09|algebra::bilinearity|panic", &format!("bilinearity panicked: {p}"), c.to_json(family)),
        Ok(Ok(())) if fails > 0 => rep.violation(
            &format!("C09|algebra::bilinearity|ok-but-law-fails|{class}"),
            &format!("bilinearity returned Ok although one of the two additivity equations fails on {fails} triples"),
            c.to_json(family),
        ),
        Ok(Err(m)) if fails == 0 => rep.violation(
            &format!("C09|algebra::bilinearity|err-but-law-holds|{class}"),
            &format!("bilinearity returned Err({m:?}) although both additivity equations hold on every triple"),
            c.to_json(family),
        ),
        _ => {}
    }
    fails
}

// ---------------------------------------------------------------------------------------------

/// `get_single_function_properties(items, f, e, b, z)`.
#[derive(Clone, Copy, PartialEq, Eq, Hash, Debug)]
pub struct SfpCase {
    pub f: Tab,
    pub e: u8,
    pub b: Map,
    pub z: u8,
}
impl SfpCase {
    pub fn to_json(&self, family: &str) -> Value {
        json!({"engine":"mon_algebra","family":family,"kind":"single_function_properties",
               "f": self.f.to_json(), "e": self.e, "b": map_json(&self.b, self.f.rows as usize), "z": self.z})
    }
    pub fn from_json(v: &Value) -> SfpCase {
        SfpCase { f: Tab::from_json(&v["f"]), e: v["e"].as_u64().unwrap() as u8, b: map_from_json(&v["b"]), z: v["z"].as_u64().unwrap() as u8 }
    }
}

const SFP_LAWS: [&str; 6] = ["associativity", "commutativity", "idempotency", "identity", "inverse", "absorbing_element"];

fn sfp_n<const N: usize>(c: &SfpCase) -> Vec<&'static str> {
    let items: [u8; N] = std::array::from_fn(|i| i as u8);
    let (ft, bm) = (c.f, c.b);
    algebra::get_single_function_properties(&items, move |a: u8, b: u8| ft.ap(a, b), c.e, move |a: u8| bm[a as usize], c.z)
}

pub fn judge_sfp(rep: &mut Reporter, t: &mut LinTally, c: &SfpCase, family: &str) {
    let n = c.f.rows as usize;
    let got = guarded(|| match n {
        1 => sfp_n::<1>(c),
        2 => sfp_n::<2>(c),
        3 => sfp_n::<3>(c),
        4 => sfp_n::<4>(c),
        5 => sfp_n::<5>(c),
        6 => sfp_n::<6>(c),
        7 => sfp_n::<7>(c),
        8 => sfp_n::<8>(c),
        _ => unreachable!(),
    });
    let s: Vec<u8> = (0..n as u8).collect();
    let holds = [
        n_assoc(&s, &c.f) == 0,
        n_comm(&s, &c.f) == 0,
        n_idem(&s, &c.f) == 0,
        n_left_id(&s, &c.f, c.e) == 0 && n_right_id(&s, &c.f, c.e) == 0,
        n_a_inv(&s, &c.f, c.e, &c.b, None) == 0 && n_inv_a(&s, &c.f, c.e, &c.b, None) == 0,
        n_az(&s, &c.f, c.z) == 0 && n_za(&s, &c.f, c.z) == 0,
    ];
    rep.eval();
    t.sfp += 1;
    let nh = holds.iter().filter(|&&h| h).count();
    if nh >= 2 {
        rep.nontrivial(hash_of(c));
        rep.sample(|| {
            let mut j = c.to_json(family);
            j["oracle_laws_holding"] = json!(SFP_LAWS.iter().zip(holds).filter(|(_, h)| *h).map(|(l, _)| *l).collect::<Vec<_>>());
            j
        });
    }
    match got {
        Err(p) => rep.violation(
            "C09|algebra::get_single_function_properties|panic",
            &format!("get_single_function_properties panicked: {p}"),
            c.to_json(family),
        ),
        Ok(list) => {
            for (i, law) in SFP_LAWS.iter().enumerate() {
                let cnt = list.iter().filter(|x| *x == law).count();
                if holds[i] {
                    t.sfp_laws_reported[i] += 1;
                }
                if cnt > 1 {
                    rep.violation(
                        &format!("C09|algebra::get_single_function_properties|law-listed-twice|{law}"),
                        &format!("returned {list:?}"),
                        c.to_json(family),
                    );
                } else if cnt == 1 && !holds[i] {
                    rep.violation(
                        &format!("C09|algebra::get_single_function_properties|lists-law-that-fails|{law}"),
                        &format!("returned {list:?} but {law} does not hold on the carrier"),
                        c.to_json(family),
                    );
                } else if cnt == 0 && holds[i] {
                    rep.violation(
                        &format!("C09|algebra::get_single_function_properties|omits-law-that-holds|{law}"),
                        &format!("returned {list:?} but {law} holds on every tuple of the carrier"),
                        c.to_json(family),
                    );
                }
            }
            if let Some(x) = list.iter().find(|x| !SFP_LAWS.contains(x)) {
                rep.violation(
                    "C09|algebra::get_single_function_properties|unknown-law-name",
                    &format!("returned {list:?}: {x} is not one of the six laws"),
                    c.to_json(family),
                );
            }
        }
    }
}
