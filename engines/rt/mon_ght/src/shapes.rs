//! The real GHT / COLT types under test, erased to a model-level interface (`Row` = packed tuple).
//! Trie shapes are fixed at compile time by `GhtType!` / `ColtType!`; every method here is a thin call
//! into `lattices::ght`.

use std::cmp::Ordering;
use std::hash::Hash;

use lattices::ght::colt::{ColtForestNode, ColtGet};
use lattices::ght::lattice::{
    DeepJoinLatticeBimorphism, GhtCartesianProductBimorphism, GhtNodeKeyedBimorphism,
    GhtValTypeProductBimorphism,
};
use lattices::ght::{GeneralizedHashTrieNode, GhtGet, GhtInner, GhtLeaf, GhtPrefixIter};
use lattices::{ColtType, GhtType, IsBot, IsTop, LatticeBimorphism, Merge, NaiveLatticeOrd};
use variadics::variadic_collections::{VariadicCollection, VariadicHashSetStd};
use variadics::{PartialEqVariadic, Split, SplitBySuffix, VariadicExt, var_expr, var_type};

// ---------------------------------------------------------------------------------------------
// rows

/// A tuple packed into an integer: start from 1, then `acc << 16 | column` for every column.
pub type Row = u128;

pub fn pack(cols: &[u16]) -> Row {
    cols.iter().fold(1u128, |a, &c| (a << 16) | c as u128)
}
pub fn unpack(mut r: Row) -> Vec<u16> {
    let mut v = vec![];
    while r > 1 {
        v.push((r & 0xffff) as u16);
        r >>= 16;
    }
    v.reverse();
    v
}

static U8S: [u8; 256] = {
    let mut a = [0u8; 256];
    let mut i = 0;
    while i < 256 {
        a[i] = i as u8;
        i += 1;
    }
    a
};
static U16S: [u16; 2048] = {
    let mut a = [0u16; 2048];
    let mut i = 0;
    while i < 2048 {
        a[i] = i as u16;
        i += 1;
    }
    a
};

/// A column type of the tries under test.
pub trait Col: Copy + Eq + Hash + 'static {
    const WIDE: bool;
    fn to16(self) -> u16;
    fn from16(v: u16) -> Self;
    /// `prefix_iter` on a leaf wants `'static` references.
    fn sref(v: u16) -> &'static Self;
}
impl Col for u8 {
    const WIDE: bool = false;
    fn to16(self) -> u16 {
        self as u16
    }
    fn from16(v: u16) -> Self {
        v as u8
    }
    fn sref(v: u16) -> &'static Self {
        &U8S[v as usize]
    }
}
impl Col for u16 {
    const WIDE: bool = true;
    fn to16(self) -> u16 {
        self
    }
    fn from16(v: u16) -> Self {
        v
    }
    fn sref(v: u16) -> &'static Self {
        &U16S[v as usize]
    }
}

/// Variadic of references -> packed row.
pub trait RefRow {
    fn fold(self, acc: u128) -> u128;
}
impl RefRow for () {
    fn fold(self, acc: u128) -> u128 {
        acc
    }
}
impl<T: Col, R: RefRow> RefRow for (&T, R) {
    fn fold(self, acc: u128) -> u128 {
        self.1.fold((acc << 16) | self.0.to16() as u128)
    }
}

/// Variadic of owned columns <-> packed row.
pub trait OwnRow: Sized {
    fn fold(&self, acc: u128) -> u128;
    fn build(cols: &[u16]) -> Self;
}
impl OwnRow for () {
    fn fold(&self, acc: u128) -> u128 {
        acc
    }
    fn build(cols: &[u16]) -> Self {
        assert!(cols.is_empty());
    }
}
impl<T: Col, R: OwnRow> OwnRow for (T, R) {
    fn fold(&self, acc: u128) -> u128 {
        self.1.fold((acc << 16) | self.0.to16() as u128)
    }
    fn build(cols: &[u16]) -> Self {
        (T::from16(cols[0]), R::build(&cols[1..]))
    }
}

pub fn rows_of<G>(g: &G) -> Vec<Row>
where
    G: GeneralizedHashTrieNode,
    for<'a> <G::Schema as VariadicExt>::AsRefVar<'a>: RefRow,
{
    g.recursive_iter().map(|r| r.fold(1)).collect()
}

fn pfx<'a, G, P>(g: &'a G, p: P) -> Vec<Row>
where
    G: GhtPrefixIter<P>,
    G::Item: 'a,
    <G::Item as VariadicExt>::AsRefVar<'a>: RefRow,
{
    g.prefix_iter(p).map(|r| r.fold(1)).collect()
}

// ---------------------------------------------------------------------------------------------
// GhtGet walk (get / iter / iter_tuples at every level)

pub struct NodeObs {
    pub is_leaf: bool,
    /// `GhtGet::iter()` (head keys), for leaves only their number
    pub heads: Vec<u16>,
    pub heads_n: usize,
    pub rows: Vec<Row>,
    pub tuples: Vec<Row>,
    /// leaves: `get(&Default::default())` returned `None`
    pub leaf_get_none: bool,
}
pub struct GetObs {
    pub path: Vec<u16>,
    pub node: Option<NodeObs>,
}

pub trait Walk {
    fn obs(&self) -> NodeObs;
    fn walk(&self, path: &mut Vec<u16>, doms: &[Vec<u16>], out: &mut Vec<GetObs>);
}

impl<Head, Node> Walk for GhtInner<Head, Node>
where
    Head: Col,
    Node: 'static + GeneralizedHashTrieNode + Walk,
    Node::Schema: SplitBySuffix<var_type!(Head, ...Node::SuffixSchema)>,
    for<'a> <Node::Schema as VariadicExt>::AsRefVar<'a>: RefRow,
{
    fn obs(&self) -> NodeObs {
        let heads: Vec<u16> = GhtGet::iter(self).map(|h| h.to16()).collect();
        NodeObs {
            is_leaf: false,
            heads_n: heads.len(),
            heads,
            rows: rows_of(self),
            tuples: self.iter_tuples().map(|r| r.fold(1)).collect(),
            leaf_get_none: true,
        }
    }
    fn walk(&self, path: &mut Vec<u16>, doms: &[Vec<u16>], out: &mut Vec<GetObs>) {
        let col = path.len();
        for &v in &doms[col] {
            let h = Head::from16(v);
            path.push(v);
            match GhtGet::get(self, &h) {
                None => out.push(GetObs { path: path.clone(), node: None }),
                Some(ch) => {
                    out.push(GetObs { path: path.clone(), node: Some(ch.obs()) });
                    ch.walk(path, doms, out);
                }
            }
            path.pop();
        }
    }
}

impl<Schema, ValType, Storage> Walk for GhtLeaf<Schema, ValType, Storage>
where
    Schema: Eq + Hash + VariadicExt,
    Storage: VariadicCollection<Schema = Schema>,
    Self: GhtGet + GeneralizedHashTrieNode<Schema = Schema>,
    <Self as GeneralizedHashTrieNode>::Head: Default,
    for<'a> <Schema as VariadicExt>::AsRefVar<'a>: RefRow,
{
    fn obs(&self) -> NodeObs {
        NodeObs {
            is_leaf: true,
            heads: vec![],
            heads_n: GhtGet::iter(self).count(),
            rows: rows_of(self),
            tuples: self.iter_tuples().map(|r| r.fold(1)).collect(),
            leaf_get_none: GhtGet::get(self, &Default::default()).is_none(),
        }
    }
    fn walk(&self, _path: &mut Vec<u16>, _doms: &[Vec<u16>], _out: &mut Vec<GetObs>) {}
}

// ---------------------------------------------------------------------------------------------
// the interface the driver sees

#[derive(Default)]
pub struct JoinObs {
    /// `DeepJoinLatticeBimorphism` alias
    pub deep: Vec<Row>,
    /// hand-built `GhtNodeKeyedBimorphism^k<GhtValTypeProductBimorphism>` stack
    pub stack: Vec<Row>,
    /// `GhtCartesianProductBimorphism` at the roots, collected into a Vec / a leaf / a trie
    pub cart_vec: Vec<Row>,
    pub cart_leaf: Vec<Row>,
    pub cart_trie: Vec<Row>,
    /// `GhtValTypeProductBimorphism` at the roots (no key matching)
    pub valprod: Vec<Row>,
    /// `GhtCartesianProductBimorphism` on the children below each common first key (factorised)
    pub child_cart: Vec<(u16, Vec<Row>)>,
}

pub trait Trie: Sized + Clone + Default {
    const NAME: &'static str;
    const STORAGE: &'static str;
    const IS_SET: bool;
    /// per column: is it a u16 column
    const WIDE: &'static [bool];
    const KEYLEN: usize;
    fn arity() -> usize {
        Self::WIDE.len()
    }
    fn insert(&mut self, cols: &[u16]);
    fn new_from(rows: &[Vec<u16>]) -> Self;
    fn from_iter(rows: &[Vec<u16>]) -> Self;
    fn rows(&self) -> Vec<Row>;
    fn contains(&self, cols: &[u16]) -> bool;
    fn prefix(&self, p: &[u16]) -> Vec<Row>;
    fn leaf_rows(&self, cols: &[u16]) -> Option<Vec<Row>>;
    fn walk(&self, doms: &[Vec<u16>]) -> (NodeObs, Vec<GetObs>);
    fn merge_node(&mut self, o: Self) -> bool;
    fn height(&self) -> usize;
    fn static_height() -> usize;
    // lattice side: `None` for multiset storage (no lattice impls exist there)
    fn lat_merge(&mut self, o: Self) -> Option<bool>;
    fn lat_eq(&self, o: &Self) -> Option<bool>;
    fn lat_cmp(&self, o: &Self) -> Option<Option<Ordering>>;
    fn lat_naive_cmp(&self, o: &Self) -> Option<Option<Ordering>>;
    fn lat_is_bot(&self) -> Option<bool>;
    fn lat_is_top(&self) -> Option<bool>;
    fn joins(a: &Self, b: &Self) -> Option<JoinObs>;
}

macro_rules! prefix_match {
    ($g:expr, $p:expr; $($c:ident : $t:ty),* $(,)?) => {{
        let p: &[u16] = $p;
        prefix_match!(@go $g, p, 0usize; []; $($c : $t),*)
    }};
    (@go $g:expr, $p:ident, $n:expr; [$($acc:ident),*]; $c:ident : $t:ty $(, $rc:ident : $rt:ty)*) => {
        if $p.len() == $n {
            pfx($g, var_expr!($($acc),*))
        } else {
            let $c: &'static $t = <$t as Col>::sref($p[$n]);
            prefix_match!(@go $g, $p, $n + 1; [$($acc,)* $c]; $($rc : $rt),*)
        }
    };
    (@go $g:expr, $p:ident, $n:expr; [$($acc:ident),*]; ) => {
        pfx($g, var_expr!($($acc),*))
    };
}

/// hand-built join stack: one `GhtNodeKeyedBimorphism` per key column around the leaf product
macro_rules! keyed_stack {
    ($leaf:expr; ) => { $leaf };
    ($leaf:expr; $k:ident $(, $rk:ident)*) => { GhtNodeKeyedBimorphism::new(keyed_stack!($leaf; $($rk),*)) };
}

macro_rules! lattice_part {
    (no, $ty:ty, [$($kc:ident : $kt:ty),*]) => {
        fn lat_merge(&mut self, _o: Self) -> Option<bool> { None }
        fn lat_eq(&self, _o: &Self) -> Option<bool> { None }
        fn lat_cmp(&self, _o: &Self) -> Option<Option<Ordering>> { None }
        fn lat_naive_cmp(&self, _o: &Self) -> Option<Option<Ordering>> { None }
        fn lat_is_bot(&self) -> Option<bool> { None }
        fn lat_is_top(&self) -> Option<bool> { None }
        fn joins(_a: &Self, _b: &Self) -> Option<JoinObs> { None }
    };
    (yes, $ty:ty, [$($kc:ident : $kt:ty),*]) => {
        fn lat_merge(&mut self, o: Self) -> Option<bool> { Some(Merge::merge(self, o)) }
        fn lat_eq(&self, o: &Self) -> Option<bool> { Some(self == o) }
        fn lat_cmp(&self, o: &Self) -> Option<Option<Ordering>> { Some(self.partial_cmp(o)) }
        fn lat_naive_cmp(&self, o: &Self) -> Option<Option<Ordering>> { Some(NaiveLatticeOrd::naive_cmp(self, o)) }
        fn lat_is_bot(&self) -> Option<bool> { Some(IsBot::is_bot(self)) }
        fn lat_is_top(&self) -> Option<bool> { Some(IsTop::is_top(self)) }
        fn joins(a: &Self, b: &Self) -> Option<JoinObs> {
            type Schema = <$ty as GeneralizedHashTrieNode>::Schema;
            type ValType = <$ty as GeneralizedHashTrieNode>::ValType;
            type ResultSchema = var_type!(...Schema, ...ValType);
            type OutLeaf = GhtLeaf<ResultSchema, var_type!(...ValType, ...ValType), VariadicHashSetStd<ResultSchema>>;
            type CartSchema = var_type!(...Schema, ...Schema);
            type CartLeaf = GhtLeaf<CartSchema, CartSchema, VariadicHashSetStd<CartSchema>>;
            type CartTrie = GhtInner<u8, GhtLeaf<CartSchema, <CartSchema as Split<var_type!(u8)>>::Suffix, VariadicHashSetStd<CartSchema>>>;
            type ChildSuffix = <<$ty as GhtGet>::Get as GeneralizedHashTrieNode>::SuffixSchema;
            let mut o = JoinObs::default();
            {
                type Deep = <($ty, $ty) as DeepJoinLatticeBimorphism<VariadicHashSetStd<ResultSchema>>>::DeepJoinLatticeBimorphism;
                let mut bim = <Deep as Default>::default();
                let out = bim.call(a, b);
                o.deep = rows_of(&out);
            }
            {
                let mut bim = keyed_stack!(GhtValTypeProductBimorphism::<OutLeaf>::default(); $($kc),*);
                let out = bim.call(a, b);
                o.stack = rows_of(&out);
            }
            {
                let out: Vec<CartSchema> = GhtCartesianProductBimorphism::<Vec<CartSchema>>::default().call(a, b);
                o.cart_vec = out.iter().map(|r| r.fold(1)).collect();
                let out: CartLeaf = GhtCartesianProductBimorphism::<CartLeaf>::default().call(a, b);
                o.cart_leaf = rows_of(&out);
                let out: CartTrie = GhtCartesianProductBimorphism::<CartTrie>::default().call(a, b);
                o.cart_trie = rows_of(&out);
            }
            {
                let out: Vec<ResultSchema> = GhtValTypeProductBimorphism::<Vec<ResultSchema>>::default().call(a, b);
                o.valprod = out.iter().map(|r| r.fold(1)).collect();
            }
            for h in GhtGet::iter(a) {
                if let (Some(ca), Some(cb)) = (GhtGet::get(a, &h), GhtGet::get(b, &h)) {
                    type Out = Vec<var_type!(...ChildSuffix, ...ChildSuffix)>;
                    let out: Out = GhtCartesianProductBimorphism::<Out>::default().call(ca, cb);
                    o.child_cart.push((h.to16(), out.iter().map(|r| r.fold(1)).collect()));
                }
            }
            Some(o)
        }
    };
}

macro_rules! shape {
    ($ty:ty, $label:expr, $storage:expr, set=$is_set:expr, lattice=$lat:ident,
     key=[$($kc:ident : $kt:ty),*], val=[$($vc:ident : $vt:ty),*]) => {
        impl Trie for $ty {
            const NAME: &'static str = $label;
            const STORAGE: &'static str = $storage;
            const IS_SET: bool = $is_set;
            const WIDE: &'static [bool] = &[$(<$kt as Col>::WIDE,)* $(<$vt as Col>::WIDE,)*];
            const KEYLEN: usize = [$(stringify!($kc)),*].len();
            fn insert(&mut self, cols: &[u16]) {
                GeneralizedHashTrieNode::insert(self, OwnRow::build(cols));
            }
            fn new_from(rows: &[Vec<u16>]) -> Self {
                <$ty as GeneralizedHashTrieNode>::new_from(rows.iter().map(|r| OwnRow::build(r)))
            }
            fn from_iter(rows: &[Vec<u16>]) -> Self {
                rows.iter().map(|r| -> <$ty as GeneralizedHashTrieNode>::Schema { OwnRow::build(r) }).collect()
            }
            fn rows(&self) -> Vec<Row> {
                rows_of(self)
            }
            fn contains(&self, cols: &[u16]) -> bool {
                let s: <$ty as GeneralizedHashTrieNode>::Schema = OwnRow::build(cols);
                GeneralizedHashTrieNode::contains(self, s.as_ref_var())
            }
            fn prefix(&self, p: &[u16]) -> Vec<Row> {
                prefix_match!(self, p; $($kc : $kt,)* $($vc : $vt),*)
            }
            fn leaf_rows(&self, cols: &[u16]) -> Option<Vec<Row>> {
                let s: <$ty as GeneralizedHashTrieNode>::Schema = OwnRow::build(cols);
                self.find_containing_leaf(s.as_ref_var()).map(|l| rows_of(l))
            }
            fn walk(&self, doms: &[Vec<u16>]) -> (NodeObs, Vec<GetObs>) {
                let mut out = vec![];
                Walk::walk(self, &mut vec![], doms, &mut out);
                (Walk::obs(self), out)
            }
            fn merge_node(&mut self, o: Self) -> bool {
                GeneralizedHashTrieNode::merge_node(self, o)
            }
            fn height(&self) -> usize {
                GeneralizedHashTrieNode::height(self)
            }
            fn static_height() -> usize {
                <$ty as GeneralizedHashTrieNode>::HEIGHT
            }
            lattice_part!($lat, $ty, [$($kc : $kt),*]);
        }
    };
}

// (u8 => u8)
pub type A11H = GhtType!(u8 => u8: VariadicHashSetStd);
pub type A11C = GhtType!(u8 => u8: VariadicCountedHashSetStd);
pub type A11V = GhtType!(u8 => u8: VariadicColumnMultiset);
shape!(A11H, "(u8 => u8)", "VariadicHashSetStd", set = true, lattice = yes, key = [a: u8], val = [b: u8]);
shape!(A11C, "(u8 => u8)", "VariadicCountedHashSetStd", set = false, lattice = no, key = [a: u8], val = [b: u8]);
shape!(A11V, "(u8 => u8)", "VariadicColumnMultiset", set = false, lattice = no, key = [a: u8], val = [b: u8]);
// (u8, u8 => u8)
pub type A21H = GhtType!(u8, u8 => u8: VariadicHashSetStd);
pub type A21C = GhtType!(u8, u8 => u8: VariadicCountedHashSetStd);
pub type A21V = GhtType!(u8, u8 => u8: VariadicColumnMultiset);
shape!(A21H, "(u8,u8 => u8)", "VariadicHashSetStd", set = true, lattice = yes, key = [a: u8, b: u8], val = [c: u8]);
shape!(A21C, "(u8,u8 => u8)", "VariadicCountedHashSetStd", set = false, lattice = no, key = [a: u8, b: u8], val = [c: u8]);
shape!(A21V, "(u8,u8 => u8)", "VariadicColumnMultiset", set = false, lattice = no, key = [a: u8, b: u8], val = [c: u8]);
// (u8 => u8, u8)
pub type A12H = GhtType!(u8 => u8, u8: VariadicHashSetStd);
pub type A12C = GhtType!(u8 => u8, u8: VariadicCountedHashSetStd);
pub type A12V = GhtType!(u8 => u8, u8: VariadicColumnMultiset);
shape!(A12H, "(u8 => u8,u8)", "VariadicHashSetStd", set = true, lattice = yes, key = [a: u8], val = [b: u8, c: u8]);
shape!(A12C, "(u8 => u8,u8)", "VariadicCountedHashSetStd", set = false, lattice = no, key = [a: u8], val = [b: u8, c: u8]);
shape!(A12V, "(u8 => u8,u8)", "VariadicColumnMultiset", set = false, lattice = no, key = [a: u8], val = [b: u8, c: u8]);
// (u8, u8, u8 => )
pub type A30H = GhtType!(u8, u8, u8 => (): VariadicHashSetStd);
pub type A30C = GhtType!(u8, u8, u8 => (): VariadicCountedHashSetStd);
pub type A30V = GhtType!(u8, u8, u8 => (): VariadicColumnMultiset);
shape!(A30H, "(u8,u8,u8 => )", "VariadicHashSetStd", set = true, lattice = yes, key = [a: u8, b: u8, c: u8], val = []);
shape!(A30C, "(u8,u8,u8 => )", "VariadicCountedHashSetStd", set = false, lattice = no, key = [a: u8, b: u8, c: u8], val = []);
shape!(A30V, "(u8,u8,u8 => )", "VariadicColumnMultiset", set = false, lattice = no, key = [a: u8, b: u8, c: u8], val = []);
// (u8 => u16, u8)
pub type W12H = GhtType!(u8 => u16, u8: VariadicHashSetStd);
pub type W12C = GhtType!(u8 => u16, u8: VariadicCountedHashSetStd);
pub type W12V = GhtType!(u8 => u16, u8: VariadicColumnMultiset);
shape!(W12H, "(u8 => u16,u8)", "VariadicHashSetStd", set = true, lattice = yes, key = [a: u8], val = [b: u16, c: u8]);
shape!(W12C, "(u8 => u16,u8)", "VariadicCountedHashSetStd", set = false, lattice = no, key = [a: u8], val = [b: u16, c: u8]);
shape!(W12V, "(u8 => u16,u8)", "VariadicColumnMultiset", set = false, lattice = no, key = [a: u8], val = [b: u16, c: u8]);

// ---------------------------------------------------------------------------------------------
// COLT forests

pub trait Forest: Default {
    const NAME: &'static str;
    const WIDE: &'static [bool];
    /// insert into the first (height 0) trie of the forest
    fn insert_first(&mut self, cols: &[u16]);
    /// rows of every trie of the forest, left to right
    fn tries(&self) -> Vec<Vec<Row>>;
    /// `ColtGet::get` along `path` (1..=arity keys); rows of every node of the final result
    fn get_path(&mut self, path: &[u16]) -> Vec<Vec<Row>>;
}

pub type Colt2 = ColtType!(u8, u8);
pub type Colt3 = ColtType!(u8, u8, u8);
pub type Colt3W = ColtType!(u8, u16, u8);

impl Forest for Colt2 {
    const NAME: &'static str = "ColtType!(u8,u8)";
    const WIDE: &'static [bool] = &[false, false];
    fn insert_first(&mut self, cols: &[u16]) {
        GeneralizedHashTrieNode::insert(&mut self.0, OwnRow::build(cols));
    }
    fn tries(&self) -> Vec<Vec<Row>> {
        vec![rows_of(&self.0), rows_of(&self.1.0), rows_of(&self.1.1.0)]
    }
    fn get_path(&mut self, p: &[u16]) -> Vec<Vec<Row>> {
        let r1 = ColtGet::get(self.as_mut_var(), &u8::from16(p[0]));
        if p.len() == 1 {
            return vec![rows_of(&*r1.0), rows_of(&*r1.1.0)];
        }
        let r2 = ColtGet::get(r1, &u8::from16(p[1]));
        vec![rows_of(&*r2.0)]
    }
}

macro_rules! forest3 {
    ($ty:ty, $label:expr, $a:ty, $b:ty, $c:ty) => {
        impl Forest for $ty {
            const NAME: &'static str = $label;
            const WIDE: &'static [bool] = &[<$a as Col>::WIDE, <$b as Col>::WIDE, <$c as Col>::WIDE];
            fn insert_first(&mut self, cols: &[u16]) {
                GeneralizedHashTrieNode::insert(&mut self.0, OwnRow::build(cols));
            }
            fn tries(&self) -> Vec<Vec<Row>> {
                vec![rows_of(&self.0), rows_of(&self.1.0), rows_of(&self.1.1.0), rows_of(&self.1.1.1.0)]
            }
            fn get_path(&mut self, p: &[u16]) -> Vec<Vec<Row>> {
                let r1 = ColtGet::get(self.as_mut_var(), &<$a>::from16(p[0]));
                if p.len() == 1 {
                    return vec![rows_of(&*r1.0), rows_of(&*r1.1.0), rows_of(&*r1.1.1.0)];
                }
                let r2 = ColtGet::get(r1, &<$b>::from16(p[1]));
                if p.len() == 2 {
                    return vec![rows_of(&*r2.0), rows_of(&*r2.1.0)];
                }
                let r3 = ColtGet::get(r2, &<$c>::from16(p[2]));
                vec![rows_of(&*r3.0)]
            }
        }
    };
}
forest3!(Colt3, "ColtType!(u8,u8,u8)", u8, u8, u8);
forest3!(Colt3W, "ColtType!(u8,u16,u8)", u8, u16, u8);

// ---------------------------------------------------------------------------------------------
// force / force_drain on a height-0 trie

pub struct ForceObs {
    /// rows of `leaf.force()`'s result, its height, its GhtGet walk
    pub forced_rows: Option<Vec<Row>>,
    pub forced_height: usize,
    pub forced_walk: Option<(NodeObs, Vec<GetObs>)>,
    /// rows of `force_drain()`'s result and of the leaf afterwards
    pub drained_rows: Option<Vec<Row>>,
    pub leaf_after_drain: Vec<Row>,
    /// `force()` on the forced (inner) node
    pub inner_force_is_none: bool,
}

pub trait ForceLeaf {
    const STORAGE: &'static str;
    const IS_SET: bool;
    fn run(rows: &[Vec<u16>], doms: &[Vec<u16>]) -> ForceObs;
}

macro_rules! force_leaf {
    ($ty:ty, $storage:expr, $is_set:expr) => {
        impl ForceLeaf for $ty {
            const STORAGE: &'static str = $storage;
            const IS_SET: bool = $is_set;
            fn run(rows: &[Vec<u16>], doms: &[Vec<u16>]) -> ForceObs {
                let leaf = <$ty as GeneralizedHashTrieNode>::new_from(rows.iter().map(|r| OwnRow::build(r)));
                let mut leaf2 = <$ty as GeneralizedHashTrieNode>::new_from(rows.iter().map(|r| OwnRow::build(r)));
                let forced = ColtForestNode::force(leaf);
                let drained = ColtForestNode::force_drain(&mut leaf2);
                let mut o = ForceObs {
                    forced_rows: forced.as_ref().map(|f| rows_of(f)),
                    forced_height: forced.as_ref().map(|f| GeneralizedHashTrieNode::height(f)).unwrap_or(usize::MAX),
                    forced_walk: forced.as_ref().map(|f| {
                        let mut out = vec![];
                        Walk::walk(f, &mut vec![], doms, &mut out);
                        (Walk::obs(f), out)
                    }),
                    drained_rows: drained.as_ref().map(|f| rows_of(f)),
                    leaf_after_drain: rows_of(&leaf2),
                    inner_force_is_none: false,
                };
                if let Some(f) = forced {
                    o.inner_force_is_none = ColtForestNode::force(f).is_none();
                }
                o
            }
        }
    };
}
pub type L3H = GhtType!(() => u8, u16, u8: VariadicHashSetStd);
pub type L3C = GhtType!(() => u8, u16, u8: VariadicCountedHashSetStd);
pub type L3V = GhtType!(() => u8, u16, u8: VariadicColumnMultiset);
force_leaf!(L3H, "VariadicHashSetStd", true);
force_leaf!(L3C, "VariadicCountedHashSetStd", false);
force_leaf!(L3V, "VariadicColumnMultiset", false);

#[allow(dead_code)]
fn _assert_traits() {
    fn is_eqv<T: PartialEqVariadic>() {}
    is_eqv::<var_type!(u8, u16, u8)>();
}
