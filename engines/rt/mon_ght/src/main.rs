//! C08 — generalized hash tries (`lattices::ght`) behave as sets of tuples.
//!
//! Real tries of five compile-time shapes (x three leaf storages) are driven through insert / merge
//! histories; after every operation everything the trie reports — `recursive_iter`, `contains`,
//! `prefix_iter` for every prefix, `find_containing_leaf`, `get`/`iter`/`iter_tuples` at every level,
//! `==`, `partial_cmp`, `naive_cmp`, the `merge` flag, `is_bot`, and the outputs of the join
//! bimorphisms — is compared with a `BTreeMap<tuple, count>` model (set semantics for
//! `VariadicHashSetStd` leaves, multiset semantics for counted / column leaves, which only get the
//! non-lattice operations). COLT forests (`ColtGet::get`) and `force`/`force_drain` are judged by
//! "no row is lost or duplicated, and a get returns exactly the rows with that prefix".

mod shapes;

use std::cmp::Ordering;
use std::collections::{BTreeMap, BTreeSet, HashMap};

use shapes::*;
use vcommon::{Args, Reporter, Rng, Tier, Value, catch, hash_of, json};

type Model = BTreeMap<Row, usize>;

fn model_add(m: &mut Model, r: Row, n: usize, is_set: bool) {
    let e = m.entry(r).or_insert(0);
    if is_set {
        *e = 1;
    } else {
        *e += n;
    }
}
fn model_union(into: &mut Model, other: &Model, is_set: bool) {
    for (r, n) in other {
        model_add(into, *r, *n, is_set);
    }
}
fn model_len(m: &Model) -> usize {
    m.values().sum()
}
/// `rows` (any order) is exactly the multiset `m`.
fn same_multiset(rows: &[Row], m: &Model) -> bool {
    let mut rows = rows.to_vec();
    rows.sort_unstable();
    let mut i = 0;
    for (r, n) in m {
        for _ in 0..*n {
            if i >= rows.len() || rows[i] != *r {
                return false;
            }
            i += 1;
        }
    }
    i == rows.len()
}
fn multiset(rows: &[Row]) -> Model {
    let mut m = Model::new();
    for r in rows {
        *m.entry(*r).or_insert(0) += 1;
    }
    m
}
fn show(m: &Model) -> String {
    let v: Vec<String> = m.iter().map(|(r, n)| if *n == 1 { format!("{:?}", unpack(*r)) } else { format!("{:?}x{}", unpack(*r), n) }).collect();
    format!("{{{}}}", v.join(", "))
}
fn show_rows(rows: &[Row]) -> String {
    show(&multiset(rows))
}
fn filter_prefix(m: &Model, p: &[u16]) -> Model {
    m.iter().filter(|(r, _)| unpack(**r).starts_with(p)).map(|(r, n)| (*r, *n)).collect()
}
/// subset order of the supports (used for set-storage tries only)
fn subset_order(a: &Model, b: &Model) -> Option<Ordering> {
    let ab = a.keys().all(|r| b.contains_key(r));
    let ba = b.keys().all(|r| a.contains_key(r));
    match (ab, ba) {
        (true, true) => Some(Ordering::Equal),
        (true, false) => Some(Ordering::Less),
        (false, true) => Some(Ordering::Greater),
        (false, false) => None,
    }
}

fn doms_for(wide: &[bool], k: usize) -> Vec<Vec<u16>> {
    wide.iter().map(|w| (0..k as u16).map(|v| if *w { v * 257 } else { v }).collect()).collect()
}
fn all_tuples(doms: &[Vec<u16>]) -> Vec<Vec<u16>> {
    let mut out: Vec<Vec<u16>> = vec![vec![]];
    for d in doms {
        let mut next = vec![];
        for t in &out {
            for v in d {
                let mut t2 = t.clone();
                t2.push(*v);
                next.push(t2);
            }
        }
        out = next;
    }
    out
}
/// every prefix of every length 0..=arity over the domain
fn all_prefixes(doms: &[Vec<u16>]) -> Vec<Vec<u16>> {
    let mut out = vec![vec![]];
    for l in 1..=doms.len() {
        out.extend(all_tuples(&doms[..l]));
    }
    out
}

// ---------------------------------------------------------------------------------------------
// divergences

struct Div {
    prio: u8,
    site: &'static str,
    kind: String,
    what: String,
}

#[derive(Default)]
struct Divs {
    v: Vec<Div>,
    seen: HashMap<(&'static str, String), u32>,
}
impl Divs {
    /// `what` is only rendered for the first occurrences of a (site, kind) — a defect that shows at
    /// every step must not turn the run quadratic.
    fn push(&mut self, prio: u8, site: &'static str, kind: &str, what: impl FnOnce() -> String) {
        let n = self.seen.entry((site, kind.to_string())).or_insert(0);
        *n += 1;
        let what = if *n <= 40 { what() } else { String::new() };
        self.v.push(Div { prio, site, kind: kind.to_string(), what });
    }
}

fn ord_name(o: Option<Ordering>) -> &'static str {
    match o {
        None => "None",
        Some(Ordering::Less) => "Less",
        Some(Ordering::Equal) => "Equal",
        Some(Ordering::Greater) => "Greater",
    }
}

// ---------------------------------------------------------------------------------------------
// pair histories

#[derive(Clone, Debug, Hash, PartialEq, Eq)]
enum Op {
    InsA(Vec<u16>),
    InsB(Vec<u16>),
    /// `Merge::merge(&mut a, b.clone())`
    MergeAB,
    MergeBA,
    /// `GeneralizedHashTrieNode::merge_node(&mut a, b.clone())`
    MergeNodeAB,
    MergeNodeBA,
}
impl Op {
    fn to_json(&self) -> Value {
        match self {
            Op::InsA(r) => json!({"op":"insert","into":"A","row":r}),
            Op::InsB(r) => json!({"op":"insert","into":"B","row":r}),
            Op::MergeAB => json!({"op":"merge","into":"A"}),
            Op::MergeBA => json!({"op":"merge","into":"B"}),
            Op::MergeNodeAB => json!({"op":"merge_node","into":"A"}),
            Op::MergeNodeBA => json!({"op":"merge_node","into":"B"}),
        }
    }
    fn from_json(v: &Value) -> Op {
        let a = v["into"] == "A";
        match v["op"].as_str().expect("op") {
            "insert" => {
                let r: Vec<u16> = v["row"].as_array().expect("row").iter().map(|x| x.as_u64().unwrap() as u16).collect();
                if a { Op::InsA(r) } else { Op::InsB(r) }
            }
            "merge" => {
                if a { Op::MergeAB } else { Op::MergeBA }
            }
            "merge_node" => {
                if a { Op::MergeNodeAB } else { Op::MergeNodeBA }
            }
            o => panic!("unknown op {o}"),
        }
    }
    fn changes_a(&self) -> bool {
        matches!(self, Op::InsA(_) | Op::MergeAB | Op::MergeNodeAB)
    }
}

struct Pair<T: Trie> {
    a: T,
    b: T,
    ma: Model,
    mb: Model,
    /// a mutating call panicked: the real structures are in an unknown state
    poisoned: bool,
}
impl<T: Trie> Clone for Pair<T> {
    fn clone(&self) -> Self {
        Pair { a: self.a.clone(), b: self.b.clone(), ma: self.ma.clone(), mb: self.mb.clone(), poisoned: self.poisoned }
    }
}

struct Ctx {
    doms: Vec<Vec<u16>>,
    tuples: Vec<Vec<u16>>,
    prefixes: Vec<Vec<u16>>,
}
impl Ctx {
    fn new(wide: &[bool], k: usize) -> Ctx {
        let doms = doms_for(wide, k);
        Ctx { tuples: all_tuples(&doms), prefixes: all_prefixes(&doms), doms }
    }
}

impl<T: Trie> Pair<T> {
    fn new() -> Self {
        Pair { a: T::default(), b: T::default(), ma: Model::new(), mb: Model::new(), poisoned: false }
    }

    fn apply(&mut self, op: &Op, d: &mut Divs, rep: &mut Reporter) {
        rep.eval();
        match op {
            Op::InsA(r) | Op::InsB(r) => {
                let (t, m) = if op.changes_a() { (&mut self.a, &mut self.ma) } else { (&mut self.b, &mut self.mb) };
                if let Err(p) = catch(|| t.insert(r)) {
                    d.push(1, "insert", "panic", || p);
                    self.poisoned = true;
                }
                model_add(m, pack(r), 1, T::IS_SET);
            }
            Op::MergeAB | Op::MergeBA => {
                let (t, m, o, mo) = if op.changes_a() { (&mut self.a, &mut self.ma, &self.b, &self.mb) } else { (&mut self.b, &mut self.mb, &self.a, &self.ma) };
                let before = m.clone();
                model_union(m, mo, true);
                let want = *m != before;
                match catch(|| t.lat_merge(o.clone())) {
                    Err(p) => {
                        d.push(2, "merge", "panic", || p);
                        self.poisoned = true;
                    }
                    Ok(None) => unreachable!("lattice merge on a non-lattice shape"),
                    Ok(Some(got)) => {
                        rep.count(if want { "merge_flag_true" } else { "merge_flag_false" });
                        if got != want {
                            d.push(2, "merge", &format!("changed-flag-wrong|expected-{want}"), || format!("merge({} <- {}) returned {got}", show(&before), show(mo)));
                        }
                    }
                }
            }
            Op::MergeNodeAB | Op::MergeNodeBA => {
                let (t, m, o, mo) = if op.changes_a() { (&mut self.a, &mut self.ma, &self.b, &self.mb) } else { (&mut self.b, &mut self.mb, &self.a, &self.ma) };
                model_union(m, mo, T::IS_SET);
                // the returned flag of merge_node is not documented: not judged
                if let Err(p) = catch(|| t.merge_node(o.clone())) {
                    d.push(3, "merge_node", "panic", || p);
                    self.poisoned = true;
                }
            }
        }
    }
}

/// Everything one trie reports on its own.
fn observe_single<T: Trie>(t: &T, m: &Model, cx: &Ctx, d: &mut Divs, rep: &mut Reporter) {
    // recursive_iter
    rep.eval();
    match catch(|| t.rows()) {
        Err(p) => d.push(10, "recursive_iter", "panic", || p),
        Ok(rows) => {
            if !same_multiset(&rows, m) {
                d.push(10, "recursive_iter", "rows-differ-from-model", || format!("recursive_iter yields {}, model {}", show_rows(&rows), show(m)));
            }
        }
    }
    // contains, find_containing_leaf
    for tup in &cx.tuples {
        let r = pack(tup);
        let want = m.contains_key(&r);
        rep.evals(2);
        match catch(|| t.contains(tup)) {
            Err(p) => d.push(11, "contains", "panic", || p),
            Ok(got) => {
                if got != want {
                    d.push(11, "contains", if want { "false-for-present" } else { "true-for-absent" }, || format!("contains({tup:?})={got}, model {}", show(m)));
                }
            }
        }
        match catch(|| t.leaf_rows(tup)) {
            Err(p) => d.push(13, "find_containing_leaf", "panic", || p),
            Ok(got) => match (got, want) {
                (None, false) => {}
                (None, true) => d.push(13, "find_containing_leaf", "none-for-present", || format!("find_containing_leaf({tup:?})=None, model {}", show(m))),
                (Some(_), false) => d.push(13, "find_containing_leaf", "some-for-absent", || format!("find_containing_leaf({tup:?}) is Some, model {}", show(m))),
                (Some(rows), true) => {
                    let want_rows = filter_prefix(m, &tup[..T::KEYLEN]);
                    if !same_multiset(&rows, &want_rows) {
                        d.push(13, "find_containing_leaf", "wrong-leaf", || format!("leaf of {tup:?} holds {}, rows sharing its key are {}", show_rows(&rows), show(&want_rows)));
                    }
                }
            },
        }
    }
    // prefix_iter for every prefix length and value
    for p in &cx.prefixes {
        rep.eval();
        match catch(|| t.prefix(p)) {
            Err(e) => d.push(12, "prefix_iter", "panic", || e),
            Ok(rows) => {
                let want = filter_prefix(m, p);
                if !same_multiset(&rows, &want) {
                    let part = if p.len() <= T::KEYLEN { "key" } else { "value" };
                    d.push(12, "prefix_iter", &format!("rows-differ-from-filter|prefix-ends-in-{part}-columns"), || format!("prefix_iter({p:?}) yields {}, filter of model gives {}", show_rows(&rows), show(&want)));
                }
            }
        }
    }
    // get / iter / iter_tuples at every level
    rep.eval();
    match catch(|| t.walk(&cx.doms)) {
        Err(p) => d.push(14, "get-iter", "panic", || p),
        Ok((root, nodes)) => {
            let check = |path: &[u16], n: &NodeObs, d: &mut Divs| {
                let want = filter_prefix(m, path);
                if !same_multiset(&n.rows, &want) {
                    d.push(14, "get", "subtree-rows-differ", || format!("node at {path:?} holds {}, model filter {}", show_rows(&n.rows), show(&want)));
                }
                if n.is_leaf {
                    if !same_multiset(&n.tuples, &want) {
                        d.push(14, "iter_tuples", "leaf-tuples-differ", || format!("leaf at {path:?}: iter_tuples {}, model {}", show_rows(&n.tuples), show(&want)));
                    }
                    if n.heads_n != 0 || !n.leaf_get_none {
                        d.push(14, "iter", "leaf-reports-heads", || format!("leaf at {path:?}: iter() yields {} heads, get()->None is {}", n.heads_n, n.leaf_get_none));
                    }
                } else {
                    let want_heads: BTreeSet<u16> = want.keys().map(|r| unpack(*r)[path.len()]).collect();
                    let mut got = n.heads.clone();
                    got.sort_unstable();
                    if got != want_heads.iter().copied().collect::<Vec<_>>() {
                        d.push(14, "iter", "heads-differ", || format!("node at {path:?}: iter() yields {:?}, distinct next-column values are {want_heads:?}", n.heads));
                    }
                    if !n.tuples.is_empty() {
                        d.push(14, "iter_tuples", "inner-yields-tuples", || format!("inner node at {path:?} yields {} tuples", n.tuples.len()));
                    }
                }
            };
            rep.evals(1 + nodes.len() as u64);
            check(&[], &root, d);
            for g in &nodes {
                let want_present = !filter_prefix(m, &g.path).is_empty();
                match &g.node {
                    None => {
                        if want_present {
                            d.push(14, "get", "none-for-present-key", || format!("get along {:?} is None, model {}", g.path, show(m)));
                        }
                    }
                    Some(n) => {
                        // (an empty child is only possible through COLT gets, not in these histories)
                        if !want_present {
                            d.push(14, "get", "some-for-absent-key", || format!("get along {:?} is Some, model {}", g.path, show(m)));
                        }
                        check(&g.path, n, d);
                    }
                }
            }
        }
    }
    rep.eval();
    match catch(|| (t.height(), T::static_height())) {
        Err(p) => d.push(15, "height", "panic", || p),
        Ok((h, hs)) => {
            if h != T::KEYLEN || hs != T::KEYLEN {
                d.push(15, "height", "wrong", || format!("height()={h}, HEIGHT={hs}, key length {}", T::KEYLEN));
            }
        }
    }
    if let Ok(Some(b)) = catch(|| t.lat_is_bot()) {
        rep.eval();
        if b != m.is_empty() {
            d.push(20, "is_bot", if b { "true-for-nonempty" } else { "false-for-empty" }, || format!("is_bot()={b}, model {}", show(m)));
        }
    }
    if let Ok(Some(true)) = catch(|| t.lat_is_top()) {
        d.push(20, "is_top", "true", || format!("is_top()=true, model {}", show(m)));
    }
}

fn cols(r: Row) -> Vec<u16> {
    unpack(r)
}
fn cat(a: &[u16], b: &[u16]) -> Row {
    let mut v = a.to_vec();
    v.extend_from_slice(b);
    pack(&v)
}

/// Pair relations: ==, partial_cmp, naive_cmp, joins.
fn observe_pair<T: Trie>(st: &Pair<T>, with_joins: bool, d: &mut Divs, rep: &mut Reporter) {
    let (a, b, ma, mb) = (&st.a, &st.b, &st.ma, &st.mb);
    if !T::IS_SET {
        return;
    }
    let want = subset_order(ma, mb);
    if want.is_none() {
        rep.count("incomparable_pairs");
    }
    for (x, y, mx, my, w, dir) in [(a, b, ma, mb, want, "A?B"), (b, a, mb, ma, want.map(|o| o.reverse()), "B?A")] {
        rep.evals(3);
        match catch(|| x.lat_eq(y)) {
            Err(p) => d.push(21, "eq", "panic", || p),
            Ok(None) => {}
            Ok(Some(got)) => {
                if got != (w == Some(Ordering::Equal)) {
                    d.push(21, "eq", if got { "true-for-different" } else { "false-for-equal" }, || format!("{dir}: {} == {} gave {got}", show(mx), show(my)));
                }
            }
        }
        match catch(|| x.lat_cmp(y)) {
            Err(p) => d.push(22, "partial_cmp", &format!("panic|expected-{}", ord_name(w)), || format!("{dir}: {}.partial_cmp({}) panicked: {p}", show(mx), show(my))),
            Ok(None) => {}
            Ok(Some(got)) => {
                if got != w {
                    d.push(22, "partial_cmp", &format!("wrong|expected-{}|got-{}", ord_name(w), ord_name(got)), || format!("{dir}: {}.partial_cmp({})", show(mx), show(my)));
                }
            }
        }
        match catch(|| x.lat_naive_cmp(y)) {
            Err(p) => d.push(23, "naive_cmp", "panic", || p),
            Ok(None) => {}
            Ok(Some(got)) => {
                if got != w {
                    d.push(23, "naive_cmp", &format!("wrong|expected-{}|got-{}", ord_name(w), ord_name(got)), || format!("{dir}: {}.naive_cmp({})", show(mx), show(my)));
                }
            }
        }
    }
    if !with_joins {
        return;
    }
    rep.eval();
    match catch(|| T::joins(a, b)) {
        Err(p) => d.push(30, "join-bimorphisms", "panic", || p),
        Ok(None) => {}
        Ok(Some(j)) => {
            let k = T::KEYLEN;
            // nested-loop oracles
            let mut deep = Model::new();
            let mut cart = Model::new();
            let mut valprod = Model::new();
            let mut child: BTreeMap<u16, Model> = BTreeMap::new();
            for ra in ma.keys() {
                let ca = cols(*ra);
                for rb in mb.keys() {
                    let cb = cols(*rb);
                    *cart.entry(cat(&ca, &cb)).or_insert(0) += 1;
                    *valprod.entry(cat(&ca, &cb[k..])).or_insert(0) += 1;
                    if ca[..k] == cb[..k] {
                        *deep.entry(cat(&ca, &cb[k..])).or_insert(0) += 1;
                    }
                    if ca[0] == cb[0] {
                        *child.entry(ca[0]).or_default().entry(cat(&ca[1..], &cb[1..])).or_insert(0) += 1;
                    }
                }
            }
            if !deep.is_empty() {
                rep.count("deep_join_nonempty");
            }
            rep.evals(6 + child.len() as u64);
            let mut judge = |site: &'static str, got: &[Row], want: &Model, as_set: bool| {
                let ok = if as_set { multiset(got).keys().eq(want.keys()) && got.len() == want.len() } else { same_multiset(got, want) };
                if !ok {
                    let kind = if got.len() < model_len(want) { "rows-missing" } else if got.len() > model_len(want) { "rows-extra" } else { "rows-differ" };
                    d.push(31, site, kind, || format!("{site}({}, {}) = {}, nested-loop join gives {}", show(ma), show(mb), show_rows(got), show(want)));
                }
            };
            judge("DeepJoinLatticeBimorphism", &j.deep, &deep, true);
            judge("GhtNodeKeyedBimorphism-stack", &j.stack, &deep, true);
            judge("GhtCartesianProductBimorphism", &j.cart_vec, &cart, false);
            judge("GhtCartesianProductBimorphism", &j.cart_leaf, &cart, true);
            judge("GhtCartesianProductBimorphism", &j.cart_trie, &cart, true);
            judge("GhtValTypeProductBimorphism", &j.valprod, &valprod, false);
            let got_heads: BTreeSet<u16> = j.child_cart.iter().map(|x| x.0).collect();
            let want_heads: BTreeSet<u16> = child.keys().copied().collect();
            if got_heads != want_heads || got_heads.len() != j.child_cart.len() {
                d.push(31, "GhtCartesianProductBimorphism-on-children", "common-heads-differ", || format!("children joined for heads {got_heads:?}, common first keys are {want_heads:?}"));
            } else {
                for (h, rows) in &j.child_cart {
                    judge("GhtCartesianProductBimorphism-on-children", rows, &child[h], false);
                }
            }
        }
    }
}

/// `new_from` and `FromIterator` must build the same content as repeated `insert`.
fn check_constructors<T: Trie>(ops: &[Op], d: &mut Divs, rep: &mut Reporter) {
    let list: Vec<Vec<u16>> = ops.iter().filter_map(|o| if let Op::InsA(r) | Op::InsB(r) = o { Some(r.clone()) } else { None }).collect();
    let mut m = Model::new();
    for r in &list {
        model_add(&mut m, pack(r), 1, T::IS_SET);
    }
    rep.evals(2);
    match catch(|| (T::new_from(&list), T::from_iter(&list))) {
        Err(p) => d.push(16, "new_from", "panic", || p),
        Ok((x, y)) => {
            match catch(|| (x.rows(), y.rows())) {
                Err(p) => d.push(16, "new_from", "panic", || p),
                Ok((rx, ry)) => {
                    if !same_multiset(&rx, &m) {
                        d.push(16, "new_from", "rows-differ-from-model", || format!("new_from({list:?}) holds {}", show_rows(&rx)));
                    }
                    if !same_multiset(&ry, &m) {
                        d.push(16, "from_iter", "rows-differ-from-model", || format!("from_iter({list:?}) holds {}", show_rows(&ry)));
                    }
                }
            }
            if let Ok(Some(false)) = catch(|| x.lat_eq(&y)) {
                d.push(21, "eq", "false-for-equal", || format!("new_from != from_iter for {list:?}"));
            }
        }
    }
}

fn pair_case<T: Trie>(family: &str, k: usize, ops: &[Op]) -> Value {
    json!({"engine":"mon_ght","family":family,"shape":T::NAME,"storage":T::STORAGE,"domain_k":k,
           "ops": ops.iter().map(|o| o.to_json()).collect::<Vec<_>>()})
}

/// Report the highest-priority divergence of one step.
fn report(rep: &mut Reporter, d: &mut Divs, what_ctx: &str, case: impl FnOnce() -> Value) -> bool {
    if d.v.is_empty() {
        return false;
    }
    d.v.sort_by_key(|x| x.prio);
    let top = &d.v[0];
    let sig = format!("C08|{}|{}", top.site, top.kind);
    let detail = if top.what.is_empty() { "(detail suppressed after many repeats)" } else { &top.what };
    let mut others: Vec<String> = d.v.iter().skip(1).map(|x| format!("{}:{}", x.site, x.kind)).collect();
    others.dedup();
    others.truncate(6);
    let render = top.what.len() > 0;
    let what = format!("{what_ctx}: {detail}{}", if others.is_empty() { String::new() } else { format!(" (also: {})", others.join(", ")) });
    rep.violation(&sig, &what, if render { case() } else { Value::Null });
    d.v.clear();
    true
}

fn step_ctx<T: Trie>(ops: &[Op]) -> String {
    format!("{} [{}], after op #{} {}", T::NAME, T::STORAGE, ops.len(), ops.last().map(|o| o.to_json().to_string()).unwrap_or_default())
}

fn alphabet<T: Trie>(cx: &Ctx, lattice: bool) -> Vec<Op> {
    let mut a = vec![];
    for t in &cx.tuples {
        a.push(Op::InsA(t.clone()));
        a.push(Op::InsB(t.clone()));
    }
    if lattice {
        // the roles of A and B are symmetric in the alphabet: merging into A with the lattice merge and
        // into B with merge_node loses no state up to renaming
        a.push(Op::MergeAB);
        a.push(Op::MergeNodeBA);
    } else {
        a.push(Op::MergeNodeAB);
        a.push(Op::MergeNodeBA);
    }
    a
}

fn note_nontrivial<T: Trie>(rep: &mut Reporter, st: &Pair<T>, family: &str, k: usize, ops: &[Op], sample: bool) {
    let mut u = st.ma.clone();
    model_union(&mut u, &st.mb, true);
    if !st.ma.is_empty() && !st.mb.is_empty() && u.len() >= 2 {
        rep.nontrivial(hash_of(&(T::NAME, T::STORAGE, ops)));
        if sample {
            rep.sample(|| pair_case::<T>(family, k, ops));
        }
    }
}

fn dfs<T: Trie>(rep: &mut Reporter, st: &Pair<T>, ops: &mut Vec<Op>, alpha: &[Op], cx: &Ctx, depth: usize, d: &mut Divs) {
    if depth == 0 {
        return;
    }
    for op in alpha {
        let mut st2 = st.clone();
        ops.push(op.clone());
        st2.apply(op, d, rep);
        if !st2.poisoned {
            if op.changes_a() {
                observe_single(&st2.a, &st2.ma, cx, d, rep);
            } else {
                observe_single(&st2.b, &st2.mb, cx, d, rep);
            }
            observe_pair(&st2, true, d, rep);
            if depth == 1 {
                check_constructors::<T>(ops, d, rep);
            }
        }
        rep.count(&format!("nodes:{}:{}", T::NAME, T::STORAGE));
        report(rep, d, &step_ctx::<T>(ops), || pair_case::<T>("exhaustive", 2, ops));
        if !st2.poisoned {
            note_nontrivial(rep, &st2, "exhaustive", 2, ops, depth == 1);
            dfs(rep, &st2, ops, alpha, cx, depth - 1, d);
        }
        ops.pop();
    }
}

fn exhaustive<T: Trie>(rep: &mut Reporter, args: &Args, depth_set: usize, depth_multi: usize, case_no: &mut usize) {
    // Miri: all five set-storage shapes, and one shape for each multiset storage
    if args.tier == Tier::Miri && !(T::IS_SET || (T::NAME == "(u8,u8 => u8)" && T::STORAGE == "VariadicCountedHashSetStd") || (T::NAME == "(u8 => u16,u8)" && T::STORAGE == "VariadicColumnMultiset")) {
        return;
    }
    *case_no += 1;
    if !args.in_shard(*case_no) {
        return;
    }
    let cx = Ctx::new(T::WIDE, 2);
    let alpha = alphabet::<T>(&cx, T::IS_SET);
    let mut depth = if T::IS_SET { depth_set } else { depth_multi };
    if T::arity() == 2 && args.tier != Tier::Miri {
        depth = depth.max(5); // 10-letter alphabet: depth 5 is cheap
    }
    let st = Pair::<T>::new();
    let mut d = Divs::default();
    // the empty pair
    observe_single(&st.a, &st.ma, &cx, &mut d, rep);
    observe_pair(&st, true, &mut d, rep);
    report(rep, &mut d, &step_ctx::<T>(&[]), || pair_case::<T>("exhaustive", 2, &[]));
    dfs(rep, &st, &mut vec![], &alpha, &cx, depth, &mut d);
    rep.count("exhaustive_families");
    rep.extra(&format!("depth:{}:{}", T::NAME, T::STORAGE), json!(depth));
}

/// One complete history, observed after every operation (random family and replay).
fn run_pair_history<T: Trie>(rep: &mut Reporter, family: &str, k: usize, ops: &[Op]) {
    let cx = Ctx::new(T::WIDE, k);
    let mut st = Pair::<T>::new();
    let mut d = Divs::default();
    let mut rng = Rng::new(hash_of(&(T::NAME, ops)));
    for i in 0..ops.len() {
        st.apply(&ops[i], &mut d, rep);
        if st.poisoned {
            report(rep, &mut d, &step_ctx::<T>(&ops[..=i]), || pair_case::<T>(family, k, &ops[..=i]));
            return;
        }
        if ops[i].changes_a() {
            observe_single(&st.a, &st.ma, &cx, &mut d, rep);
        } else {
            observe_single(&st.b, &st.mb, &cx, &mut d, rep);
        }
        // joins are quadratic: always on small states and at the end, otherwise sampled
        let small = st.ma.len() * st.mb.len() <= 150;
        let joins = small || i + 1 == ops.len() || rng.chance(1, 8) || family == "replay";
        observe_pair(&st, joins, &mut d, rep);
        report(rep, &mut d, &step_ctx::<T>(&ops[..=i]), || pair_case::<T>(family, k, &ops[..=i]));
    }
    check_constructors::<T>(ops, &mut d, rep);
    report(rep, &mut d, &step_ctx::<T>(ops), || pair_case::<T>(family, k, ops));
    rep.count(&format!("histories:{}:{}", T::NAME, T::STORAGE));
    note_nontrivial(rep, &st, family, k, ops, true);
}

fn random_ops<T: Trie>(rng: &mut Rng, k: usize, max_ops: usize) -> Vec<Op> {
    let cx = Ctx::new(T::WIDE, k);
    // sometimes confine to a few tuples / one first key so that duplicates and shared keys are common
    let narrow = rng.below(3);
    let pick = |rng: &mut Rng| -> Vec<u16> {
        let mut t = rng.choose(&cx.tuples).clone();
        if narrow == 1 {
            t[0] = cx.doms[0][0];
        } else if narrow == 2 {
            t = cx.tuples[rng.below(cx.tuples.len().min(6))].clone();
        }
        t
    };
    let n = 1 + rng.below(max_ops);
    (0..n)
        .map(|_| {
            let x = rng.below(100);
            if x < 42 {
                Op::InsA(pick(rng))
            } else if x < 84 {
                Op::InsB(pick(rng))
            } else if T::IS_SET {
                match x % 4 {
                    0 => Op::MergeAB,
                    1 => Op::MergeBA,
                    2 => Op::MergeNodeAB,
                    _ => Op::MergeNodeBA,
                }
            } else if x % 2 == 0 {
                Op::MergeNodeAB
            } else {
                Op::MergeNodeBA
            }
        })
        .collect()
}

// ---------------------------------------------------------------------------------------------
// COLT

#[derive(Clone, Debug, Hash, PartialEq, Eq)]
enum COp {
    Ins(Vec<u16>),
    Get(Vec<u16>),
}
impl COp {
    fn to_json(&self) -> Value {
        match self {
            COp::Ins(r) => json!({"op":"insert-first","row":r}),
            COp::Get(p) => json!({"op":"get","path":p}),
        }
    }
    fn from_json(v: &Value) -> COp {
        let l = |x: &Value| -> Vec<u16> { x.as_array().expect("list").iter().map(|c| c.as_u64().unwrap() as u16).collect() };
        match v["op"].as_str().expect("op") {
            "insert-first" => COp::Ins(l(&v["row"])),
            "get" => COp::Get(l(&v["path"])),
            o => panic!("unknown colt op {o}"),
        }
    }
}

fn colt_case<F: Forest>(family: &str, ops: &[COp]) -> Value {
    json!({"engine":"mon_ght","family":family,"forest":F::NAME,"ops":ops.iter().map(|o| o.to_json()).collect::<Vec<_>>()})
}

/// Apply one COLT operation and judge it. Returns false if the forest can no longer be trusted.
fn colt_step<F: Forest>(f: &mut F, m: &mut Model, op: &COp, d: &mut Divs, rep: &mut Reporter) -> bool {
    rep.eval();
    match op {
        COp::Ins(r) => {
            model_add(m, pack(r), 1, false);
            if let Err(p) = catch(|| f.insert_first(r)) {
                d.push(1, "colt-insert", "panic", || p);
                return false;
            }
        }
        COp::Get(path) => match catch(|| f.get_path(path)) {
            Err(p) => {
                d.push(40, "ColtGet::get", "panic", || p);
                return false;
            }
            Ok(nodes) => {
                let got: Vec<Row> = nodes.iter().flatten().copied().collect();
                let want = filter_prefix(m, path);
                if !want.is_empty() {
                    rep.count("colt_get_nonempty");
                }
                if !same_multiset(&got, &want) {
                    let kind = if got.len() < model_len(&want) { "rows-missing" } else if got.len() > model_len(&want) { "rows-extra" } else { "rows-differ" };
                    d.push(40, "ColtGet::get", &format!("{kind}|path-len-{}", path.len()), || format!("get along {path:?} returns nodes holding {}, rows with that prefix are {}", show_rows(&got), show(&want)));
                }
            }
        },
    }
    rep.eval();
    match catch(|| f.tries()) {
        Err(p) => {
            d.push(41, "colt-forest", "panic", || p);
            return false;
        }
        Ok(tries) => {
            let all: Vec<Row> = tries.iter().flatten().copied().collect();
            if !same_multiset(&all, m) {
                let kind = if all.len() < model_len(m) { "rows-lost" } else if all.len() > model_len(m) { "rows-duplicated" } else { "rows-changed" };
                d.push(41, "colt-forest", kind, || format!("forest tries hold {:?}, inserted {}", tries.iter().map(|t| show_rows(t)).collect::<Vec<_>>(), show(m)));
            }
        }
    }
    true
}

fn colt_alphabet(cx: &Ctx) -> Vec<COp> {
    let mut a: Vec<COp> = cx.tuples.iter().map(|t| COp::Ins(t.clone())).collect();
    a.extend(cx.prefixes.iter().filter(|p| !p.is_empty()).map(|p| COp::Get(p.clone())));
    a
}

fn colt_dfs<F: Forest + Clone>(rep: &mut Reporter, f: &F, m: &Model, ops: &mut Vec<COp>, alpha: &[COp], depth: usize, d: &mut Divs) {
    if depth == 0 {
        return;
    }
    for op in alpha {
        let mut f2 = f.clone();
        let mut m2 = m.clone();
        ops.push(op.clone());
        let ok = colt_step(&mut f2, &mut m2, op, d, rep);
        rep.count(&format!("colt_nodes:{}", F::NAME));
        report(rep, d, &format!("{} after op #{} {}", F::NAME, ops.len(), op.to_json()), || colt_case::<F>("colt-exhaustive", ops));
        if ok {
            if m2.len() >= 2 && ops.iter().any(|o| matches!(o, COp::Get(_))) {
                rep.nontrivial(hash_of(&(F::NAME, &*ops)));
                if depth == 1 {
                    rep.sample(|| colt_case::<F>("colt-exhaustive", ops));
                }
            }
            colt_dfs(rep, &f2, &m2, ops, alpha, depth - 1, d);
        }
        ops.pop();
    }
}

fn colt_history<F: Forest>(rep: &mut Reporter, family: &str, ops: &[COp]) {
    let mut f = F::default();
    let mut m = Model::new();
    let mut d = Divs::default();
    for i in 0..ops.len() {
        let ok = colt_step(&mut f, &mut m, &ops[i], &mut d, rep);
        report(rep, &mut d, &format!("{} after op #{} {}", F::NAME, i + 1, ops[i].to_json()), || colt_case::<F>(family, &ops[..=i]));
        if !ok {
            return;
        }
    }
    rep.count(&format!("colt_histories:{}", F::NAME));
    if m.len() >= 2 && ops.iter().any(|o| matches!(o, COp::Get(_))) {
        rep.nontrivial(hash_of(&(F::NAME, ops)));
        rep.sample(|| colt_case::<F>(family, ops));
    }
}

fn colt_family<F: Forest + Clone>(rep: &mut Reporter, args: &Args, rng: &mut Rng, depth: usize, n_random: usize, case_no: &mut usize) {
    let miri = args.tier == Tier::Miri;
    *case_no += 1;
    if !args.in_shard(*case_no) {
        return;
    }
    let cx = Ctx::new(F::WIDE, 2);
    let alpha = colt_alphabet(&cx);
    let mut d = Divs::default();
    colt_dfs(rep, &F::default(), &Model::new(), &mut vec![], &alpha, depth, &mut d);
    let cx4 = Ctx::new(F::WIDE, if miri { 2 } else { 4 });
    for _ in 0..n_random {
        let n = 1 + rng.below(if miri { 10 } else { 60 });
        let narrow = rng.chance(1, 2);
        let ops: Vec<COp> = (0..n)
            .map(|_| {
                let mut t = rng.choose(&cx4.tuples).clone();
                if narrow {
                    t[0] = cx4.doms[0][rng.below(2)];
                }
                if rng.chance(2, 3) {
                    COp::Ins(t)
                } else {
                    let l = 1 + rng.below(t.len());
                    COp::Get(t[..l].to_vec())
                }
            })
            .collect();
        colt_history::<F>(rep, "colt-random", &ops);
    }
    rep.count("colt_families");
}

// ---------------------------------------------------------------------------------------------
// force

fn force_case<L: ForceLeaf>(rows: &[Vec<u16>]) -> Value {
    json!({"engine":"mon_ght","family":"force","storage":L::STORAGE,"rows":rows})
}

fn force_check<L: ForceLeaf>(rep: &mut Reporter, rows: &[Vec<u16>]) {
    let wide = [false, true, false];
    let k = 4;
    let doms = doms_for(&wide, k);
    let mut m = Model::new();
    for r in rows {
        model_add(&mut m, pack(r), 1, L::IS_SET);
    }
    let mut d = Divs::default();
    rep.evals(5);
    match catch(|| L::run(rows, &doms)) {
        Err(p) => d.push(50, "force", "panic", || p),
        Ok(o) => {
            match &o.forced_rows {
                None => d.push(50, "force", "none-on-leaf", || "force() on a leaf returned None".into()),
                Some(r) => {
                    if !same_multiset(r, &m) {
                        d.push(50, "force", "rows-differ", || format!("force() result holds {}, leaf held {}", show_rows(r), show(&m)));
                    }
                    if o.forced_height != 1 {
                        d.push(50, "force", "height-not-1", || format!("height {}", o.forced_height));
                    }
                    if let Some((root, nodes)) = &o.forced_walk {
                        let heads: BTreeSet<u16> = m.keys().map(|r| unpack(*r)[0]).collect();
                        let mut got = root.heads.clone();
                        got.sort_unstable();
                        if got != heads.iter().copied().collect::<Vec<_>>() {
                            d.push(50, "force", "heads-differ", || format!("forced node has heads {:?}, first columns are {heads:?}", root.heads));
                        }
                        for g in nodes {
                            let want = filter_prefix(&m, &g.path);
                            let got_rows = g.node.as_ref().map(|n| n.rows.clone()).unwrap_or_default();
                            if !same_multiset(&got_rows, &want) {
                                d.push(50, "force", "child-rows-differ", || format!("child {:?} holds {}, expected {}", g.path, show_rows(&got_rows), show(&want)));
                            }
                        }
                    }
                    if !o.inner_force_is_none {
                        d.push(50, "force", "some-on-inner", || "force() on an inner node returned Some".into());
                    }
                }
            }
            match &o.drained_rows {
                None => d.push(51, "force_drain", "none-on-leaf", || "force_drain() on a leaf returned None".into()),
                Some(r) => {
                    if !same_multiset(r, &m) {
                        d.push(51, "force_drain", "rows-differ", || format!("force_drain() result holds {}, leaf held {}", show_rows(r), show(&m)));
                    }
                    if !o.leaf_after_drain.is_empty() {
                        d.push(51, "force_drain", "leaf-not-emptied", || format!("leaf still holds {}", show_rows(&o.leaf_after_drain)));
                    }
                }
            }
        }
    }
    rep.count(&format!("force_cases:{}", L::STORAGE));
    if !report(rep, &mut d, &format!("GhtLeaf<(u8,u16,u8)> [{}] from {} rows", L::STORAGE, rows.len()), || force_case::<L>(rows)) && m.len() >= 2 {
        rep.nontrivial(hash_of(&("force", L::STORAGE, rows)));
    }
}

fn force_family<L: ForceLeaf>(rep: &mut Reporter, args: &Args, rng: &mut Rng) {
    let wide = [false, true, false];
    let t2 = all_tuples(&doms_for(&wide, 2));
    let t4 = all_tuples(&doms_for(&wide, 4));
    let miri = args.tier == Tier::Miri;
    // every sequence of <= 3 rows over {0,1}^3 (<= 1 under Miri)
    let maxlen = if miri { 1 } else { 3 };
    let mut seqs: Vec<Vec<Vec<u16>>> = vec![vec![]];
    let mut frontier = seqs.clone();
    for _ in 0..maxlen {
        let mut next = vec![];
        for s in &frontier {
            for t in &t2 {
                let mut s2 = s.clone();
                s2.push(t.clone());
                next.push(s2);
            }
        }
        seqs.extend(next.iter().cloned());
        frontier = next;
    }
    for (i, s) in seqs.iter().enumerate() {
        if miri && !args.in_shard(i) {
            continue;
        }
        force_check::<L>(rep, s);
    }
    for _ in 0..args.budget(300, 6000, 1) {
        let n = rng.below(if miri { 7 } else { 40 });
        let rows: Vec<Vec<u16>> = (0..n).map(|_| rng.choose(&t4).clone()).collect();
        force_check::<L>(rep, &rows);
    }
}

// ---------------------------------------------------------------------------------------------
// dispatch

macro_rules! for_all_shapes {
    ($m:ident, $($a:expr),*) => {{
        $m::<A11H>($($a),*); $m::<A11C>($($a),*); $m::<A11V>($($a),*);
        $m::<A21H>($($a),*); $m::<A21C>($($a),*); $m::<A21V>($($a),*);
        $m::<A12H>($($a),*); $m::<A12C>($($a),*); $m::<A12V>($($a),*);
        $m::<A30H>($($a),*); $m::<A30C>($($a),*); $m::<A30V>($($a),*);
        $m::<W12H>($($a),*); $m::<W12C>($($a),*); $m::<W12V>($($a),*);
    }};
}

fn random_one<T: Trie>(rep: &mut Reporter, which: usize, idx: &mut usize, rng: &mut Rng, max_ops: usize, k: usize) {
    if *idx == which {
        let ops = random_ops::<T>(rng, k, max_ops);
        run_pair_history::<T>(rep, "random", k, &ops);
    }
    *idx += 1;
}

fn replay_pair<T: Trie>(rep: &mut Reporter, case: &Value, done: &mut bool) {
    if *done || case["shape"] != T::NAME || case["storage"] != T::STORAGE {
        return;
    }
    *done = true;
    let ops: Vec<Op> = case["ops"].as_array().expect("ops").iter().map(Op::from_json).collect();
    let mut k = case["domain_k"].as_u64().unwrap_or(4) as usize;
    for o in &ops {
        if let Op::InsA(r) | Op::InsB(r) = o {
            for (c, v) in r.iter().enumerate() {
                let v = if T::WIDE[c] { v / 257 } else { *v } as usize;
                k = k.max(v + 1);
            }
        }
    }
    run_pair_history::<T>(rep, "replay", k, &ops);
}

fn replay(rep: &mut Reporter, case: &Value) {
    let fam = case["family"].as_str().unwrap_or("");
    if fam.starts_with("colt") {
        let ops: Vec<COp> = case["ops"].as_array().expect("ops").iter().map(COp::from_json).collect();
        match case["forest"].as_str().unwrap_or("") {
            n if n == Colt2::NAME => colt_history::<Colt2>(rep, "replay", &ops),
            n if n == Colt3::NAME => colt_history::<Colt3>(rep, "replay", &ops),
            n if n == Colt3W::NAME => colt_history::<Colt3W>(rep, "replay", &ops),
            n => panic!("unknown forest {n}"),
        }
    } else if fam == "force" {
        let rows: Vec<Vec<u16>> = case["rows"].as_array().expect("rows").iter().map(|r| r.as_array().unwrap().iter().map(|c| c.as_u64().unwrap() as u16).collect()).collect();
        match case["storage"].as_str().unwrap_or("") {
            "VariadicHashSetStd" => force_check::<L3H>(rep, &rows),
            "VariadicCountedHashSetStd" => force_check::<L3C>(rep, &rows),
            _ => force_check::<L3V>(rep, &rows),
        }
    } else {
        let mut done = false;
        for_all_shapes!(replay_pair, rep, case, &mut done);
        if !done {
            eprintln!("replay: unknown shape/storage");
            std::process::exit(3);
        }
    }
}

fn main() {
    let args = Args::parse();
    if args.prop == "NONE" {
        return;
    }
    let mut rep = Reporter::new("C08", args.seed);
    if let Some(case) = args.replay_case() {
        replay(&mut rep, &case);
        rep.finish("replay", false);
        return;
    }
    let miri = args.tier == Tier::Miri;
    let mut rng = args.rng();
    let t0 = std::time::Instant::now();

    // (1) exhaustive pair histories over {0,1}^arity
    let depth_set = args.budget(4, 5, 1);
    let depth_multi = args.budget(3, 4, 1);
    let mut case_no = 0usize;
    for_all_shapes!(exhaustive, &mut rep, &args, depth_set, depth_multi, &mut case_no);
    let t1 = t0.elapsed().as_secs_f64();

    // (2) random pair histories over {0..3}^arity
    let n_random = args.budget(3_000, 60_000, 3 * args.shard.1);
    let max_ops = if miri { 6 } else { 60 };
    let dom_k = if miri { 2 } else { 4 };
    for i in 0..n_random {
        let which = if miri { [9, 4, 14, 0, 6, 12, 3, 8, 13, 1, 2, 5, 7, 10, 11][i % 15] } else { rng.below(15) };
        let mut r2 = rng.fork(i as u64);
        if miri && !args.in_shard(i) {
            continue;
        }
        let mut idx = 0usize;
        for_all_shapes!(random_one, &mut rep, which, &mut idx, &mut r2, max_ops, dom_k);
    }
    let t2 = t0.elapsed().as_secs_f64();

    // (3) COLT forests
    let mut case_no = 0usize;
    colt_family::<Colt2>(&mut rep, &args, &mut rng, args.budget(5, 5, 1), args.budget(300, 6000, 1), &mut case_no);
    colt_family::<Colt3>(&mut rep, &args, &mut rng, args.budget(4, 5, 1), args.budget(300, 6000, 1), &mut case_no);
    colt_family::<Colt3W>(&mut rep, &args, &mut rng, args.budget(4, 5, 1), args.budget(300, 6000, 1), &mut case_no);

    // (4) force / force_drain
    force_family::<L3H>(&mut rep, &args, &mut rng);
    force_family::<L3C>(&mut rep, &args, &mut rng);
    force_family::<L3V>(&mut rep, &args, &mut rng);
    let t3 = t0.elapsed().as_secs_f64();
    rep.extra("phase_seconds", json!({"exhaustive": t1, "random": t2 - t1, "colt+force": t3 - t2}));

    if !miri {
        rep.require(rep.counter("exhaustive_families") == 15, "not all 15 shape x storage combinations enumerated");
        rep.require(rep.counter("colt_families") == 3, "not all 3 COLT forests visited");
        rep.require(rep.counter("incomparable_pairs") >= 100, "fewer than 100 incomparable pairs compared");
        rep.require(rep.counter("merge_flag_true") >= 100 && rep.counter("merge_flag_false") >= 100, "fewer than 100 changing / 100 non-changing lattice merges");
        rep.require(rep.counter("deep_join_nonempty") >= 100, "fewer than 100 joins with a non-empty result");
        rep.require(rep.counter("colt_get_nonempty") >= 100, "fewer than 100 COLT gets with a non-empty result");
    }
    rep.finish(
        "five trie shapes ((u8=>u8), (u8,u8=>u8), (u8=>u8,u8), (u8,u8,u8=>), (u8=>u16,u8)) x three leaf storages. (1) every history of <= D operations on a pair of tries A, B from the alphabet {insert t into A, insert t into B : t in {0,1}^arity} + two merges (set storage: Merge::merge into A and merge_node into B; multiset storage: merge_node both ways); D = 4 quick / 5 thorough for set storage (5 always for the 2-column shape), one less for multiset storage; (2) random histories of <= 60 operations over {0..3}^arity; (3) COLT forests ColtType!(u8,u8), (u8,u8,u8), (u8,u16,u8): every history of inserts and gets (all paths) up to depth 5 (3-column forests: 4 in the quick tier) over {0,1}^arity plus random histories over {0..3}^arity; (4) force/force_drain on height-0 tries for every row sequence of length <= 3 over {0,1}^3 plus random lists. After every operation the changed trie is observed completely (recursive_iter, contains and find_containing_leaf for every tuple of the domain, prefix_iter for every prefix of every length, get/iter/iter_tuples along every key path, height, is_bot) and the pair is compared (==, partial_cmp, naive_cmp both ways, five join bimorphism outputs against nested-loop joins). Non-trivial = a distinct history ending with both tries non-empty and >= 2 distinct rows overall (COLT: >= 2 distinct rows and at least one get; force: >= 2 distinct rows)",
        true,
    );
}
