//! C10 — variadic collections (`variadics::variadic_collections`) behave as sets / multisets of
//! tuples. The real `VariadicHashSet`, `VariadicCountedHashSet` and `VariadicColumnMultiset` are
//! driven through histories of insert / extend / drain / from_iter / clone; after every operation
//! everything they report (`len`, `is_empty`, `contains`, `get`, `iter`, `into_iter`, `==`) is
//! compared with a `BTreeMap<tuple, count>` model.

use std::collections::BTreeMap;
use std::hash::{BuildHasher, BuildHasherDefault, DefaultHasher, Hash, Hasher, RandomState};

use variadics::variadic_collections::{
    VariadicCollection, VariadicColumnMultiset, VariadicCountedHashSet, VariadicHashSet,
};
use variadics::{PartialEqVariadic, VariadicExt, var_expr, var_type};
use vcommon::{Args, Reporter, Rng, Tier, Value, catch, hash_of, json};

// ---------------------------------------------------------------------------------------------
// model side

/// A tuple of the model: up to three columns, unused columns are 0.
type Row = [u16; 3];
/// tuple -> multiplicity (never 0).
type Model = BTreeMap<Row, usize>;

fn model_len(m: &Model) -> usize {
    m.values().sum()
}
fn model_add(m: &mut Model, r: Row, is_set: bool) {
    let e = m.entry(r).or_insert(0);
    if is_set {
        *e = 1;
    } else {
        *e += 1;
    }
}
fn multiset(rows: impl IntoIterator<Item = Row>) -> Model {
    let mut m = Model::new();
    for r in rows {
        *m.entry(r).or_insert(0) += 1;
    }
    m
}
/// `rows` (any order) is exactly the multiset `m`.
fn same_multiset(rows: &mut Vec<Row>, m: &Model) -> bool {
    rows.sort_unstable();
    let mut i = 0;
    for (r, n) in m {
        for _ in 0..*n {
            if i >= rows.len() || rows[i] != *r {
                return false;
            }
            i += 1;
        }
    }
    i == rows.len()
}
fn model_list(m: &Model) -> Vec<Row> {
    let mut v = vec![];
    for (r, n) in m {
        for _ in 0..*n {
            v.push(*r);
        }
    }
    v
}

// ---------------------------------------------------------------------------------------------
// schemas

trait Sch: VariadicExt + PartialEqVariadic + Eq + Hash + Clone + 'static {
    const ARITY: usize;
    const NAME: &'static str;
    fn mk(r: Row) -> Self;
    fn row(&self) -> Row;
    fn row_ref(r: Self::AsRefVar<'_>) -> Row;
    /// column value for abstract value `v` of column `col` (u16 columns use both bytes)
    fn val(col: usize, v: usize) -> u16;
}

type S1 = var_type!(u8);
type S2 = var_type!(u8, u8);
type S3 = var_type!(u8, u16, u8);

impl Sch for S1 {
    const ARITY: usize = 1;
    const NAME: &'static str = "(u8,)";
    fn mk(r: Row) -> Self {
        var_expr!(r[0] as u8)
    }
    fn row(&self) -> Row {
        let (a, ()) = self;
        [*a as u16, 0, 0]
    }
    fn row_ref(r: Self::AsRefVar<'_>) -> Row {
        let (a, ()) = r;
        [*a as u16, 0, 0]
    }
    fn val(_col: usize, v: usize) -> u16 {
        v as u16
    }
}
impl Sch for S2 {
    const ARITY: usize = 2;
    const NAME: &'static str = "(u8,u8)";
    fn mk(r: Row) -> Self {
        var_expr!(r[0] as u8, r[1] as u8)
    }
    fn row(&self) -> Row {
        let (a, (b, ())) = self;
        [*a as u16, *b as u16, 0]
    }
    fn row_ref(r: Self::AsRefVar<'_>) -> Row {
        let (a, (b, ())) = r;
        [*a as u16, *b as u16, 0]
    }
    fn val(_col: usize, v: usize) -> u16 {
        v as u16
    }
}
impl Sch for S3 {
    const ARITY: usize = 3;
    const NAME: &'static str = "(u8,u16,u8)";
    fn mk(r: Row) -> Self {
        var_expr!(r[0] as u8, r[1], r[2] as u8)
    }
    fn row(&self) -> Row {
        let (a, (b, (c, ()))) = self;
        [*a as u16, *b, *c as u16]
    }
    fn row_ref(r: Self::AsRefVar<'_>) -> Row {
        let (a, (b, (c, ()))) = r;
        [*a as u16, *b, *c as u16]
    }
    fn val(col: usize, v: usize) -> u16 {
        if col == 1 { (v as u16) * 257 } else { v as u16 }
    }
}

/// All tuples over abstract values 0..k per column.
fn domain<S: Sch>(k: usize) -> Vec<Row> {
    let mut out = vec![];
    let n = k.pow(S::ARITY as u32);
    for code in 0..n {
        let mut c = code;
        let mut r = [0u16; 3];
        for col in 0..S::ARITY {
            r[col] = S::val(col, c % k);
            c /= k;
        }
        out.push(r);
    }
    out
}

/// Injective numbering of distinct tuples for the growth sweep (index < 256).
fn nth_row<S: Sch>(i: usize) -> Row {
    match S::ARITY {
        1 => [i as u16, 0, 0],
        2 => [(i % 16) as u16, (i / 16) as u16, 0],
        _ => [(i % 5) as u16, (i as u16).wrapping_mul(263), (i % 7) as u16],
    }
}

// ---------------------------------------------------------------------------------------------
// hashers

/// Hostile hasher: the hash depends on the first hashed byte only, so all tuples sharing the first
/// column collide completely (same bucket, same control tag) and lookups must compare whole tuples.
#[derive(Default, Clone)]
struct FirstByte {
    h: u64,
    seen: bool,
}
impl Hasher for FirstByte {
    fn finish(&self) -> u64 {
        self.h
    }
    fn write(&mut self, bytes: &[u8]) {
        if !self.seen && !bytes.is_empty() {
            self.seen = true;
            self.h = (bytes[0] as u64 + 1).wrapping_mul(0x9E37_79B9_7F4A_7C15);
        }
    }
}
type HFirst = BuildHasherDefault<FirstByte>;
type HSip = BuildHasherDefault<DefaultHasher>;

trait HName {
    const H: &'static str;
}
impl HName for RandomState {
    const H: &'static str = "RandomState";
}
impl HName for HSip {
    const H: &'static str = "BuildHasherDefault<DefaultHasher>";
}
impl HName for HFirst {
    const H: &'static str = "first-byte-only (colliding)";
}

// ---------------------------------------------------------------------------------------------
// collections behind one interface

enum Lookup {
    /// the collection has no `get`
    NotAvailable,
    Absent,
    Present { key: Row, count: usize },
}

trait Coll<S: Sch>: VariadicCollection<Schema = S> + Clone + Default + IntoIterator<Item = S> {
    const NAME: &'static str;
    const HASHER: &'static str;
    const IS_SET: bool;
    fn lookup(&self, s: &S) -> Lookup;
    fn eq_(&self, o: &Self) -> Option<bool>;
    fn from_rows(v: Vec<S>) -> Self;
    fn with_cap(n: usize) -> Self;
}

impl<S: Sch, H: BuildHasher + Default + Clone + HName> Coll<S> for VariadicHashSet<S, H>
where
    for<'a> S::AsRefVar<'a>: Hash,
{
    const NAME: &'static str = "VariadicHashSet";
    const HASHER: &'static str = H::H;
    const IS_SET: bool = true;
    fn lookup(&self, s: &S) -> Lookup {
        match self.get(s.as_ref_var()) {
            None => Lookup::Absent,
            Some(k) => Lookup::Present { key: k.row(), count: 1 },
        }
    }
    fn eq_(&self, o: &Self) -> Option<bool> {
        Some(self == o)
    }
    fn from_rows(v: Vec<S>) -> Self {
        v.into_iter().collect()
    }
    fn with_cap(n: usize) -> Self {
        Self::with_capacity_and_hasher(n, H::default())
    }
}

impl<S: Sch, H: BuildHasher + Default + Clone + HName> Coll<S> for VariadicCountedHashSet<S, H>
where
    for<'a> S::AsRefVar<'a>: Hash,
{
    const NAME: &'static str = "VariadicCountedHashSet";
    const HASHER: &'static str = H::H;
    const IS_SET: bool = false;
    fn lookup(&self, s: &S) -> Lookup {
        match self.get(s.as_ref_var()) {
            None => Lookup::Absent,
            Some((k, n)) => Lookup::Present { key: k.row(), count: *n },
        }
    }
    fn eq_(&self, o: &Self) -> Option<bool> {
        Some(self == o)
    }
    fn from_rows(v: Vec<S>) -> Self {
        v.into_iter().collect()
    }
    fn with_cap(n: usize) -> Self {
        Self::with_capacity_and_hasher(n, H::default())
    }
}

impl<S: Sch> Coll<S> for VariadicColumnMultiset<S>
where
    for<'a> S::AsRefVar<'a>: Hash,
    S::IntoVec: Clone,
{
    const NAME: &'static str = "VariadicColumnMultiset";
    const HASHER: &'static str = "-";
    const IS_SET: bool = false;
    fn lookup(&self, _s: &S) -> Lookup {
        Lookup::NotAvailable
    }
    fn eq_(&self, _o: &Self) -> Option<bool> {
        None
    }
    fn from_rows(v: Vec<S>) -> Self {
        // no FromIterator: the documented way is Default + extend
        let mut c = Self::default();
        c.extend(v);
        c
    }
    fn with_cap(_n: usize) -> Self {
        Self::default()
    }
}

// ---------------------------------------------------------------------------------------------
// histories

#[derive(Clone, Debug, Hash, PartialEq, Eq)]
enum Op {
    Insert(Row),
    /// `exact` = iterator with an exact size hint (reserve path); otherwise lower bound 0
    Extend(Vec<Row>, bool),
    Drain,
    /// take this many items from `drain()` and drop the iterator
    DrainPartial(usize),
    FromIter(Vec<Row>),
    /// replace by `with_capacity_and_hasher(n)` (hash collections) / `default()`
    NewWithCap(usize),
    Clone,
}

impl Op {
    fn kind(&self) -> &'static str {
        match self {
            Op::Insert(_) => "insert",
            Op::Extend(..) => "extend",
            Op::Drain => "drain",
            Op::DrainPartial(_) => "drain-partial",
            Op::FromIter(_) => "from_iter",
            Op::NewWithCap(_) => "with_capacity",
            Op::Clone => "clone",
        }
    }
    fn to_json(&self, arity: usize) -> Value {
        let r = |x: &Row| json!(x[..arity]);
        match self {
            Op::Insert(x) => json!({"op":"insert","row":r(x)}),
            Op::Extend(v, e) => json!({"op":"extend","rows":v.iter().map(r).collect::<Vec<_>>(),"exact_hint":e}),
            Op::Drain => json!({"op":"drain"}),
            Op::DrainPartial(k) => json!({"op":"drain-partial","take":k}),
            Op::FromIter(v) => json!({"op":"from_iter","rows":v.iter().map(r).collect::<Vec<_>>()}),
            Op::NewWithCap(n) => json!({"op":"with_capacity","n":n}),
            Op::Clone => json!({"op":"clone"}),
        }
    }
    fn from_json(v: &Value) -> Op {
        let row = |x: &Value| -> Row {
            let mut r = [0u16; 3];
            for (i, c) in x.as_array().expect("row").iter().enumerate() {
                r[i] = c.as_u64().expect("col") as u16;
            }
            r
        };
        let rows = |x: &Value| -> Vec<Row> { x.as_array().expect("rows").iter().map(row).collect() };
        match v["op"].as_str().expect("op") {
            "insert" => Op::Insert(row(&v["row"])),
            "extend" => Op::Extend(rows(&v["rows"]), v["exact_hint"].as_bool().unwrap_or(true)),
            "drain" => Op::Drain,
            "drain-partial" => Op::DrainPartial(v["take"].as_u64().unwrap_or(0) as usize),
            "from_iter" => Op::FromIter(rows(&v["rows"])),
            "with_capacity" => Op::NewWithCap(v["n"].as_u64().unwrap_or(0) as usize),
            "clone" => Op::Clone,
            o => panic!("unknown op {o}"),
        }
    }
}

/// A divergence between the real collection and the model: (priority, kind, description).
type Div = (u8, &'static str, String);

struct St<S: Sch, C: Coll<S>> {
    c: C,
    m: Model,
    dup_offered: bool,
    max_distinct: usize,
    _s: std::marker::PhantomData<S>,
}

impl<S: Sch, C: Coll<S>> Clone for St<S, C> {
    fn clone(&self) -> Self {
        St { c: self.c.clone(), m: self.m.clone(), dup_offered: self.dup_offered, max_distinct: self.max_distinct, _s: Default::default() }
    }
}

impl<S: Sch, C: Coll<S>> St<S, C> {
    fn new() -> Self {
        St { c: C::default(), m: Model::new(), dup_offered: false, max_distinct: 0, _s: Default::default() }
    }

    fn note_offer(&mut self, r: &Row) {
        if self.m.contains_key(r) {
            self.dup_offered = true;
        }
    }

    /// Apply one operation to the real collection and to the model; judge what the operation itself
    /// returned.
    fn apply(&mut self, op: &Op, divs: &mut Vec<Div>) {
        match op {
            Op::Insert(r) => {
                self.note_offer(r);
                let was = self.m.contains_key(r);
                let got = catch(|| self.c.insert(S::mk(*r)));
                model_add(&mut self.m, *r, C::IS_SET);
                match got {
                    Err(p) => divs.push((0, "panic-in-insert", p)),
                    Ok(b) => {
                        let want = if C::IS_SET { !was } else { true };
                        if b != want {
                            divs.push((1, "insert-return-wrong", format!("insert({r:?}) returned {b}, tuple was {} before", if was { "present" } else { "absent" })));
                        }
                    }
                }
            }
            Op::Extend(v, exact) => {
                for r in v {
                    self.note_offer(r);
                    model_add(&mut self.m, *r, C::IS_SET);
                }
                let items: Vec<S> = v.iter().map(|r| S::mk(*r)).collect();
                let got = if *exact { catch(|| self.c.extend(items)) } else { catch(|| self.c.extend(items.into_iter().filter(|_| true))) };
                if let Err(p) = got {
                    divs.push((0, "panic-in-extend", p));
                }
            }
            Op::Drain => {
                let got = catch(|| self.c.drain().map(|s| s.row()).collect::<Vec<Row>>());
                let want = std::mem::take(&mut self.m);
                match got {
                    Err(p) => divs.push((0, "panic-in-drain", p)),
                    Ok(items) => {
                        let gm = multiset(items);
                        if gm != want {
                            divs.push((1, "drain-items-differ", format!("drain() yielded {gm:?}, collection held {want:?}")));
                        }
                    }
                }
            }
            Op::DrainPartial(k) => {
                let got = catch(|| self.c.drain().take(*k).map(|s| s.row()).collect::<Vec<Row>>());
                let want = std::mem::take(&mut self.m);
                match got {
                    Err(p) => divs.push((0, "panic-in-drain", p)),
                    Ok(items) => {
                        let gm = multiset(items);
                        let sub = gm.iter().all(|(r, n)| want.get(r).is_some_and(|w| w >= n));
                        if !sub || model_len(&gm) != (*k).min(model_len(&want)) {
                            divs.push((1, "drain-items-differ", format!("first {k} of drain() yielded {gm:?}, collection held {want:?}")));
                        }
                    }
                }
            }
            Op::FromIter(v) => {
                self.m = Model::new();
                for r in v {
                    self.note_offer(r);
                    model_add(&mut self.m, *r, C::IS_SET);
                }
                let items: Vec<S> = v.iter().map(|r| S::mk(*r)).collect();
                match catch(|| C::from_rows(items)) {
                    Err(p) => divs.push((0, "panic-in-from_iter", p)),
                    Ok(c) => self.c = c,
                }
            }
            Op::NewWithCap(n) => {
                self.m = Model::new();
                match catch(|| C::with_cap(*n)) {
                    Err(p) => divs.push((0, "panic-in-with_capacity", p)),
                    Ok(c) => self.c = c,
                }
            }
            Op::Clone => match catch(|| self.c.clone()) {
                Err(p) => divs.push((0, "panic-in-clone", p)),
                Ok(c2) => {
                    // continue with the clone; the original must still be intact (judged here)
                    let old = std::mem::replace(&mut self.c, c2);
                    if let Ok(rows) = catch(|| old.iter().map(|r| S::row_ref(r)).collect::<Vec<Row>>()) {
                        let gm = multiset(rows);
                        if gm != self.m {
                            divs.push((2, "original-differs-after-clone", format!("{gm:?} vs model {:?}", self.m)));
                        }
                    }
                    if let Some(false) = catch(|| old.eq_(&self.c)).unwrap_or(None) {
                        divs.push((12, "eq-false-for-equal", "clone != original".into()));
                    }
                }
            },
        }
        self.max_distinct = self.max_distinct.max(self.m.len());
    }

    /// Everything the collection reports, against the model. Returns the number of judgements.
    fn observe(&self, probe: &[Row], rng: &mut Rng, deep_eq: bool, divs: &mut Vec<Div>) -> u64 {
        let c = &self.c;
        let m = &self.m;
        let mut evals = 0u64;
        let want_len = model_len(m);
        // len / is_empty
        evals += 2;
        match catch(|| (c.len(), c.is_empty())) {
            Err(p) => divs.push((0, "panic-in-len", p)),
            Ok((l, e)) => {
                if l != want_len {
                    divs.push((5, "len-wrong", format!("len()={l}, model holds {want_len}")));
                }
                if e != (want_len == 0) {
                    divs.push((6, "is_empty-wrong", format!("is_empty()={e}, model holds {want_len}")));
                }
            }
        }
        // contains / get for every probe tuple (the whole domain of the history)
        for r in probe {
            let s = S::mk(*r);
            let want = m.get(r).copied();
            evals += 2;
            match catch(|| (c.contains(s.as_ref_var()), c.lookup(&s))) {
                Err(p) => divs.push((0, "panic-in-contains-or-get", p)),
                Ok((has, lk)) => {
                    match (has, want) {
                        (false, Some(n)) => divs.push((2, "contains-false-for-present", format!("contains({r:?})=false, model holds it x{n}"))),
                        (true, None) => divs.push((3, "contains-true-for-absent", format!("contains({r:?})=true, never inserted / drained"))),
                        _ => {}
                    }
                    match (lk, want) {
                        (Lookup::NotAvailable, _) => {}
                        (Lookup::Absent, None) => {}
                        (Lookup::Absent, Some(n)) => divs.push((2, "contains-false-for-present", format!("get({r:?})=None, model holds it x{n}"))),
                        (Lookup::Present { .. }, None) => divs.push((3, "contains-true-for-absent", format!("get({r:?}) is Some, tuple absent in model"))),
                        (Lookup::Present { key, count }, Some(n)) => {
                            if key != *r {
                                divs.push((4, "get-returns-other-tuple", format!("get({r:?}) returned {key:?}")));
                            } else if count != n {
                                divs.push((4, "get-count-wrong", format!("get({r:?}) count {count}, model {n}")));
                            }
                        }
                    }
                }
            }
        }
        // iter
        evals += 1;
        match catch(|| c.iter().map(|r| S::row_ref(r)).collect::<Vec<Row>>()) {
            Err(p) => divs.push((0, "panic-in-iter", p)),
            Ok(mut rows) => {
                if !same_multiset(&mut rows, m) {
                    divs.push((7, "iter-multiset-differs", format!("iter() yields {:?}, model {m:?}", multiset(rows))));
                }
            }
        }
        // into_iter of a clone
        evals += 1;
        match catch(|| c.clone().into_iter().map(|s| s.row()).collect::<Vec<Row>>()) {
            Err(p) => divs.push((0, "panic-in-into_iter", p)),
            Ok(mut rows) => {
                if !same_multiset(&mut rows, m) {
                    divs.push((8, "into_iter-multiset-differs", format!("into_iter() yields {:?}, model {m:?}", multiset(rows))));
                }
            }
        }
        // == against a second instance built from a permutation of the same tuples, and against
        // near misses (one more, one fewer, same length but different content)
        if deep_eq && C::NAME != "VariadicColumnMultiset" {
            let mut list = model_list(m);
            rng.shuffle(&mut list);
            // The second instance is always filled by single `insert`s (into a default or a
            // pre-sized table) so that a defect of a bulk operation is attributed to the history
            // operation that used it, not to the comparison partner.
            let build = |list: &[Row], how: usize| -> C {
                let mut d = match how % 3 {
                    0 => C::default(),
                    1 => C::with_cap(list.len()),
                    _ => C::with_cap(3 * list.len() + 5),
                };
                for r in list {
                    d.insert(S::mk(*r));
                }
                d
            };
            let how = rng.below(3);
            let judge = |divs: &mut Vec<Div>, evals: &mut u64, d: &C, want: bool, kind_t: &'static str, kind_f: &'static str, what: String| {
                *evals += 2;
                match catch(|| (c.eq_(d), d.eq_(c))) {
                    Err(p) => divs.push((0, "panic-in-eq", p)),
                    Ok((Some(a), Some(b))) => {
                        if want && !(a && b) {
                            divs.push((12, kind_f, format!("{what}: self==other {a}, other==self {b}")));
                        }
                        if !want && (a || b) {
                            divs.push((13, kind_t, format!("{what}: self==other {a}, other==self {b}")));
                        }
                    }
                    Ok(_) => {}
                }
            };
            match catch(|| build(&list, how)) {
                Err(p) => divs.push((0, "panic-building-second-instance", p)),
                Ok(d) => judge(divs, &mut evals, &d, true, "eq-true-for-different", "eq-false-for-equal", format!("second instance built by inserting the permutation {list:?} (table mode {how})")),
            }
            // one more
            let extra = *rng.choose(probe);
            if !(C::IS_SET && m.contains_key(&extra)) {
                let mut l2 = list.clone();
                l2.push(extra);
                if let Ok(d) = catch(|| build(&l2, how + 1)) {
                    judge(divs, &mut evals, &d, false, "eq-true-for-different", "eq-false-for-equal", format!("other holds one extra {extra:?}"));
                }
            }
            if !list.is_empty() {
                // one fewer
                let mut l2 = list.clone();
                let gone = l2.pop().unwrap();
                if let Ok(d) = catch(|| build(&l2, how + 2)) {
                    judge(divs, &mut evals, &d, false, "eq-true-for-different", "eq-false-for-equal", format!("other lacks one {gone:?}"));
                }
                // same length, different content: replace one occurrence by another tuple
                let mut l3 = list.clone();
                let i = rng.below(l3.len());
                let old = l3[i];
                let cands: Vec<Row> = probe.iter().copied().filter(|r| *r != old && !(C::IS_SET && m.contains_key(r))).collect();
                if !cands.is_empty() {
                    l3[i] = *rng.choose(&cands);
                    let differs = multiset(l3.iter().copied()) != *m;
                    if differs {
                        if let Ok(d) = catch(|| build(&l3, how)) {
                            judge(divs, &mut evals, &d, false, "eq-true-for-different-same-len", "eq-false-for-equal", format!("other has {:?} instead of one {old:?} (same len)", l3[i]));
                        }
                    }
                }
            }
        }
        evals
    }
}

fn case_json<S: Sch, C: Coll<S>>(family: &str, ops: &[Op]) -> Value {
    json!({"engine":"mon_variadics","family":family,"collection":C::NAME,"hasher":C::HASHER,"schema":S::NAME,
           "ops": ops.iter().map(|o| o.to_json(S::ARITY)).collect::<Vec<_>>()})
}

thread_local! {
    static PRINTED: std::cell::RefCell<BTreeMap<String, u32>> = const { std::cell::RefCell::new(BTreeMap::new()) };
}

/// Report the most significant divergence of one step (fixed priority → stable signature).
fn report<S: Sch, C: Coll<S>>(rep: &mut Reporter, family: &str, ops: &[Op], divs: &mut Vec<Div>) -> bool {
    if divs.is_empty() {
        return false;
    }
    divs.sort_by_key(|d| d.0);
    let (_, kind, what) = &divs[0];
    let op = ops.last().map(|o| o.kind()).unwrap_or("new");
    let sig = format!("C10|{}|after-{}|{}", C::NAME, op, kind);
    let others: Vec<&str> = divs.iter().skip(1).map(|d| d.1).collect();
    // the reporter prints only the first three per signature: do not build descriptors for the rest
    let printed = PRINTED.with(|p| {
        let mut p = p.borrow_mut();
        let n = p.entry(sig.clone()).or_insert(0);
        *n += 1;
        *n <= 3
    });
    if !printed {
        rep.violation(&sig, "", Value::Null);
        divs.clear();
        return true;
    }
    rep.violation(
        &sig,
        &format!("{} over {} [{}], after op #{} ({}): {}{}", C::NAME, S::NAME, C::HASHER, ops.len(), op, what, if others.is_empty() { String::new() } else { format!(" (also: {})", others.join(", ")) }),
        case_json::<S, C>(family, ops),
    );
    divs.clear();
    true
}

/// Run one complete history with full observation after every operation. Returns false after the
/// first violating step (later steps would only repeat it).
fn run_history<S: Sch, C: Coll<S>>(rep: &mut Reporter, family: &str, ops: &[Op], probe: &[Row]) -> bool {
    let mut st = St::<S, C>::new();
    let mut rng = Rng::new(hash_of(&(C::NAME, S::NAME, ops)));
    let mut divs = vec![];
    let n = st.observe(probe, &mut rng, true, &mut divs);
    rep.evals(n);
    if report::<S, C>(rep, family, &[], &mut divs) {
        return false;
    }
    for i in 0..ops.len() {
        st.apply(&ops[i], &mut divs);
        rep.eval();
        let n = st.observe(probe, &mut rng, true, &mut divs);
        rep.evals(n);
        if report::<S, C>(rep, family, &ops[..=i], &mut divs) {
            return false;
        }
    }
    rep.count(&format!("histories:{}:{}", C::NAME, S::NAME));
    if st.dup_offered && st.max_distinct >= 2 {
        rep.nontrivial(hash_of(&(C::NAME, C::HASHER, S::NAME, ops)));
        rep.count("histories_with_duplicate_and_2_distinct");
        rep.sample(|| case_json::<S, C>(family, ops));
    }
    true
}

// ---------------------------------------------------------------------------------------------
// family 1: exhaustive histories over {0,1}^k

fn alphabet<S: Sch>() -> Vec<Op> {
    let dom = domain::<S>(2);
    let mut a: Vec<Op> = dom.iter().map(|r| Op::Insert(*r)).collect();
    a.push(Op::Extend(dom.clone(), true));
    a.push(Op::Extend(vec![dom[0], dom[0], dom[dom.len() - 1]], false));
    a.push(Op::Extend(vec![dom[dom.len() - 1], dom[dom.len() - 1]], true));
    a.push(Op::Drain);
    a.push(Op::DrainPartial(1));
    a.push(Op::Clone);
    let mut f = dom.clone();
    f.push(dom[0]);
    a.push(Op::FromIter(f));
    a
}

fn dfs<S: Sch, C: Coll<S>>(rep: &mut Reporter, st: &St<S, C>, ops: &mut Vec<Op>, alpha: &[Op], probe: &[Row], depth: usize, rng: &mut Rng, bad: &mut u64) {
    if depth == 0 {
        return;
    }
    for op in alpha {
        let mut st2 = st.clone();
        let mut divs = vec![];
        ops.push(op.clone());
        st2.apply(op, &mut divs);
        rep.eval();
        let n = st2.observe(probe, rng, true, &mut divs);
        rep.evals(n);
        rep.count(&format!("exhaustive_nodes:{}", C::NAME));
        if report::<S, C>(rep, "exhaustive", ops, &mut divs) {
            *bad += 1; // do not extend a history that already diverged
        } else {
            if st2.dup_offered && st2.max_distinct >= 2 {
                rep.nontrivial(hash_of(&(C::NAME, C::HASHER, S::NAME, &*ops)));
                if depth == 1 {
                    rep.sample(|| case_json::<S, C>("exhaustive", ops));
                }
            }
            dfs(rep, &st2, ops, alpha, probe, depth - 1, rng, bad);
        }
        ops.pop();
    }
}

/// Under Miri only the std-hasher instantiations and the column store are run (each call costs
/// milliseconds there; the other hashers change no memory-safety-relevant path).
fn miri_skips<S: Sch, C: Coll<S>>(args: &Args) -> bool {
    args.tier == Tier::Miri && !(C::HASHER == "RandomState" || C::HASHER == "-")
}

fn exhaustive<S: Sch, C: Coll<S>>(rep: &mut Reporter, args: &Args, depth: usize, case_no: &mut usize) {
    if miri_skips::<S, C>(args) {
        return;
    }
    *case_no += 1;
    if !args.in_shard(*case_no) {
        return;
    }
    let alpha = alphabet::<S>();
    let probe = domain::<S>(2);
    let st = St::<S, C>::new();
    let mut rng = Rng::new(args.seed ^ hash_of(&(C::NAME, C::HASHER, S::NAME)));
    let mut bad = 0;
    // the smaller alphabets of the 1- and 2-column schemas afford depth 5 in every native tier
    let depth = if S::ARITY < 3 && args.tier == Tier::Quick { 5 } else { depth };
    dfs(rep, &st, &mut vec![], &alpha, &probe, depth, &mut rng, &mut bad);
    rep.count("exhaustive_families");
}

// ---------------------------------------------------------------------------------------------
// family 2: growth sweep — existing n elements, extend by k elements, across resize thresholds

fn sweep_cell<S: Sch, C: Coll<S>>(rep: &mut Reporter, n: usize, k: usize, build: usize, content: usize, exact: bool) -> bool {
    let existing: Vec<Row> = (0..n).map(nth_row::<S>).collect();
    let ext: Vec<Row> = match content {
        0 => (0..k).map(|i| nth_row::<S>(n + i)).collect(), // all fresh
        1 => (0..k).map(|i| if i % 2 == 0 && n > 0 { nth_row::<S>((i / 2) % n) } else { nth_row::<S>(n + i) }).collect(), // half duplicates
        _ => (0..k).map(|i| if n > 0 { nth_row::<S>(i % n) } else { nth_row::<S>(0) }).collect(), // only already-present (or one) tuple
    };
    let mut ops: Vec<Op> = match build {
        0 => existing.iter().map(|r| Op::Insert(*r)).collect(),
        1 => vec![Op::Extend(existing.clone(), true)],
        _ => {
            let mut v = vec![Op::NewWithCap(n)];
            v.extend(existing.iter().map(|r| Op::Insert(*r)));
            v
        }
    };
    ops.push(Op::Extend(ext.clone(), exact));
    // afterwards every existing tuple is touched again: a lost entry would now be duplicated
    if n > 0 {
        ops.push(Op::Insert(existing[0]));
    }
    let mut probe: Vec<Row> = existing.clone();
    probe.extend((0..k).map(|i| nth_row::<S>(n + i)));
    probe.push(nth_row::<S>(n + k + 1)); // never inserted
    probe.push(nth_row::<S>(n + k + 2));

    // light path: observe only after the final extend and after the re-insert
    let mut st = St::<S, C>::new();
    let mut rng = Rng::new(hash_of(&(n, k, build, content)));
    let mut divs = vec![];
    let first_obs = ops.len() - if n > 0 { 2 } else { 1 };
    for i in 0..ops.len() {
        st.apply(&ops[i], &mut divs);
        rep.eval();
        if i >= first_obs || !divs.is_empty() {
            let ev = st.observe(&probe, &mut rng, i == first_obs, &mut divs);
            rep.evals(ev);
            if report::<S, C>(rep, "growth-sweep", &ops[..=i], &mut divs) {
                return false;
            }
        }
    }
    if n > 0 && k > 0 {
        rep.nontrivial(hash_of(&(C::NAME, C::HASHER, S::NAME, n, k, build, content, exact)));
    }
    true
}

fn sweep<S: Sch, C: Coll<S>>(rep: &mut Reporter, args: &Args, case_no: &mut usize) {
    if miri_skips::<S, C>(args) {
        return;
    }
    let miri = args.tier == Tier::Miri;
    let mut bad = 0u64;
    // Under Miri only a handful of cells around the first thresholds (3|4, 7|8, 14|16 entries).
    let cells: Vec<(usize, usize)> = if miri {
        vec![(3, 2), (7, 8)]
    } else {
        (0..=40).flat_map(|n| (0..=80).map(move |k| (n, k))).collect()
    };
    for (n, k) in cells {
        for build in 0..3 {
            for content in 0..3 {
                for exact in [true, false] {
                    if miri {
                        // base variant + one variant with duplicates and no size hint
                        if !((build == 0 && content == 0 && exact) || (build == 1 && content == 1 && !exact)) {
                            continue;
                        }
                        *case_no += 1;
                        if !args.in_shard(*case_no) {
                            continue;
                        }
                    }
                    // Quick tier: the base variant (built by inserts, fresh tuples, exact hint) sweeps
                    // the full grid, every other variant a regular third of it; thorough: all full.
                    let base = build == 0 && content == 0 && exact;
                    if args.tier == Tier::Quick && !base && (n + 2 * k + build + content + exact as usize) % 3 != 0 {
                        continue;
                    }
                    rep.count(&format!("sweep_cells:{}", C::NAME));
                    if base {
                        rep.count(&format!("sweep_base_cells:{}", C::NAME));
                    }
                    if !sweep_cell::<S, C>(rep, n, k, build, content, exact) {
                        bad += 1;
                    }
                }
            }
        }
    }
    rep.count("sweep_families");
    rep.count_n("sweep_cells_diverged", bad);
}

// ---------------------------------------------------------------------------------------------
// family 3: random histories over {0..3}^k

fn random_history<S: Sch>(rng: &mut Rng, max_ops: usize, k: usize) -> Vec<Op> {
    let dom = domain::<S>(k);
    // a bias towards few distinct tuples makes duplicates frequent; otherwise the table grows
    let narrow = rng.chance(1, 3);
    let pick = |rng: &mut Rng| -> Row {
        if narrow { dom[rng.below(dom.len().min(5))] } else { *rng.choose(&dom) }
    };
    let n = 1 + rng.below(max_ops);
    let mut ops = vec![];
    for _ in 0..n {
        let x = rng.below(100);
        let op = if x < 40 {
            Op::Insert(pick(rng))
        } else if x < 75 {
            let k = if rng.chance(1, 4) && max_ops > 8 { rng.below(40) } else { rng.below(9) };
            Op::Extend((0..k).map(|_| pick(rng)).collect(), rng.chance(2, 3))
        } else if x < 80 {
            Op::Drain
        } else if x < 84 {
            Op::DrainPartial(rng.below(4))
        } else if x < 90 {
            let k = rng.below(20);
            Op::FromIter((0..k).map(|_| pick(rng)).collect())
        } else if x < 93 {
            Op::NewWithCap(rng.below(33))
        } else {
            Op::Clone
        };
        ops.push(op);
    }
    ops
}

// ---------------------------------------------------------------------------------------------
// dispatch over the 3 schemas x 7 collection types

macro_rules! for_all_types {
    ($m:ident, $($a:expr),*) => {{
        for_all_types!(@s $m, S1, $($a),*);
        for_all_types!(@s $m, S2, $($a),*);
        for_all_types!(@s $m, S3, $($a),*);
    }};
    (@s $m:ident, $S:ty, $($a:expr),*) => {{
        $m::<$S, VariadicHashSet<$S, RandomState>>($($a),*);
        $m::<$S, VariadicHashSet<$S, HSip>>($($a),*);
        $m::<$S, VariadicHashSet<$S, HFirst>>($($a),*);
        $m::<$S, VariadicCountedHashSet<$S, RandomState>>($($a),*);
        $m::<$S, VariadicCountedHashSet<$S, HSip>>($($a),*);
        $m::<$S, VariadicCountedHashSet<$S, HFirst>>($($a),*);
        $m::<$S, VariadicColumnMultiset<$S>>($($a),*);
    }};
}

fn random_one<S: Sch, C: Coll<S>>(rep: &mut Reporter, which: usize, idx: &mut usize, ops_by_schema: &[Vec<Op>; 3], k: usize) {
    if *idx == which {
        let ops = &ops_by_schema[S::ARITY - 1];
        let probe = domain::<S>(k);
        run_history::<S, C>(rep, "random", ops, &probe);
    }
    *idx += 1;
}

fn replay_one<S: Sch, C: Coll<S>>(rep: &mut Reporter, case: &Value, done: &mut bool) {
    if *done || case["collection"] != C::NAME || case["hasher"] != C::HASHER || case["schema"] != S::NAME {
        return;
    }
    *done = true;
    let ops: Vec<Op> = case["ops"].as_array().expect("ops").iter().map(Op::from_json).collect();
    let mut probe: Vec<Row> = domain::<S>(4);
    for o in &ops {
        match o {
            Op::Insert(r) => probe.push(*r),
            Op::Extend(v, _) | Op::FromIter(v) => probe.extend(v.iter().copied()),
            _ => {}
        }
    }
    probe.sort();
    probe.dedup();
    if run_history::<S, C>(rep, case["family"].as_str().unwrap_or("replay"), &ops, &probe) {
        eprintln!("replay: no divergence");
    }
}

fn main() {
    let args = Args::parse();
    if args.prop == "NONE" {
        return;
    }
    let mut rep = Reporter::new("C10", args.seed);
    if let Some(case) = args.replay_case() {
        let mut done = false;
        for_all_types!(replay_one, &mut rep, &case, &mut done);
        if !done {
            eprintln!("replay: unknown collection/hasher/schema in case");
            std::process::exit(3);
        }
        rep.finish("replay", false);
        return;
    }
    let miri = args.tier == Tier::Miri;
    let mut rng = args.rng();

    // (1) exhaustive histories over {0,1}^k, all operations of the alphabet, every prefix observed
    let t0 = std::time::Instant::now();
    // Miri: depth 1 in a single process, depth 2 when the work is spread over >= 8 shards
    let depth = args.budget(4, 5, if args.shard.1 >= 8 { 2 } else { 1 });
    let mut case_no = 0usize;
    for_all_types!(exhaustive, &mut rep, &args, depth, &mut case_no);
    rep.extra("exhaustive_depth", json!({"(u8,)": args.budget(5, 5, depth), "(u8,u8)": args.budget(5, 5, depth), "(u8,u16,u8)": depth}));
    let t1 = t0.elapsed().as_secs_f64();

    // (2) growth sweep: the full 41 x 81 grid x 3 ways to build the existing content x 3 kinds of
    //     extension content x 2 size-hint behaviours
    let mut case_no = 0usize;
    for_all_types!(sweep, &mut rep, &args, &mut case_no);

    let t2 = t0.elapsed().as_secs_f64();
    // (3) random histories
    let n_random = args.budget(5_000, 200_000, 3 * args.shard.1);
    let max_ops = if miri { 8 } else { 30 };
    let dom_k = if miri { 2 } else { 4 };
    for i in 0..n_random {
        // under Miri: cycle through the RandomState / column instantiations only
        let which = if miri { [0, 3, 6, 7, 10, 13, 14, 17, 20][i % 9] } else { rng.below(21) };
        let ops = [random_history::<S1>(&mut rng, max_ops, dom_k), random_history::<S2>(&mut rng, max_ops, dom_k), random_history::<S3>(&mut rng, max_ops, dom_k)];
        if miri && !args.in_shard(i) {
            continue;
        }
        let mut idx = 0usize;
        for_all_types!(random_one, &mut rep, which, &mut idx, &ops, dom_k);
    }

    rep.extra("phase_seconds", json!({"exhaustive": t1, "sweep": t2 - t1, "random": t0.elapsed().as_secs_f64() - t2}));
    if !miri {
        rep.require(rep.counter("exhaustive_families") == 21, "not all 21 collection x schema x hasher combinations enumerated");
        rep.require(rep.counter("sweep_families") == 21, "growth sweep did not visit all 21 combinations");
        for name in ["VariadicHashSet", "VariadicCountedHashSet", "VariadicColumnMultiset"] {
            let per = if name == "VariadicColumnMultiset" { 3 } else { 9 };
            rep.require(rep.counter(&format!("sweep_base_cells:{name}")) == 41 * 81 * per, &format!("growth sweep base grid incomplete for {name}"));
            let all = rep.counter(&format!("sweep_cells:{name}"));
            rep.require(if args.tier == Tier::Thorough { all == 41 * 81 * 18 * per } else { all >= 41 * 81 * 6 * per }, &format!("growth sweep variants incomplete for {name}"));
        }
        rep.require(rep.counter("histories_with_duplicate_and_2_distinct") >= 500 || rep.violations() > 0, "fewer than 500 random histories offered a duplicate and reached 2 distinct tuples");
    }
    rep.finish(
        "three families on VariadicHashSet / VariadicCountedHashSet (each with RandomState, SipHash with fixed keys and a hostile first-byte-only hasher) and VariadicColumnMultiset over schemas (u8,), (u8,u8), (u8,u16,u8): (1) every history of <= D operations (D = 5; 4 for the 3-column schema in the quick tier) from an alphabet of all single inserts over {0,1}^k, three extends, drain, partial drain, clone, from_iter; (2) growth sweep: 0..=40 existing distinct tuples x extend by 0..=80 tuples (full grid for the base variant; the other 17 variants of {built by inserts, by one extend, with_capacity} x {fresh, half duplicates, only duplicates} x {exact, zero} size hint cover the full grid in the thorough tier and a regular third of it in the quick tier); (3) random histories of <= 30 operations over {0..3}^k. After every operation: len, is_empty, contains and get for every tuple of the domain, iter and into_iter multisets, == against a second instance built from a permutation and against three near misses. Non-trivial = a history (or sweep cell with existing>0 and extension>0) that offered an already-present tuple again and held >= 2 distinct tuples",
        true,
    );
}
