//! C07 — the shipped lattice (bi)morphisms distribute over merge.
//!
//! Real code: `CartesianProductBimorphism` (set_union.rs), `KeyedBimorphism` (map_union.rs),
//! `PairBimorphism` (pair.rs), `GhtCartesianProductBimorphism`, `GhtValTypeProductBimorphism`,
//! `GhtNodeKeyedBimorphism`, `DeepJoinLatticeBimorphism`, `GhtBimorphism` (ght/lattice.rs).
//!
//! Every argument and every output is mirrored by an independent model: a relation
//! `Rel = BTreeSet<Vec<u8>>` (a set of tuples / facts) whose join is plain set union.
//!   sets      {x}            -> [x]
//!   maps      k -> {x,..}    -> [k,x]..  and the marker [k] for "key present" (so bottom-valued entries exist as inputs)
//!   Max<u8>   v              -> [v]      (join = max; as an *output* it is the down-set {[tag,1]..[tag,v]})
//!   GHT       rows           -> [c0,c1,..]
//! For a case (side, a, d, b) the monitor calls the real bimorphism three times
//!   left : f(a,b), f(d,b), f(a⊔d, b)        right: f(a,b), f(a,d), f(a, b⊔d)
//! (a⊔d / b⊔d computed by the crate's own `Merge`), reads the outputs back into `Rel`s and demands
//!   model(f(merged)) = model(f(base)) ∪ model(f(delta))           (the bimorphism law),
//!   model(crate_merge(f(base), f(delta))) = the same               (law stated with the crate's ⊔ on outputs),
//!   each of the three outputs = the documented function computed by nested loops on the models.
//! Outputs are never compared with the crate's own PartialEq/PartialOrd.

use std::collections::{BTreeMap, BTreeSet, HashMap, HashSet};

use lattices::collections::{ArraySet, OptionMap, OptionSet, SingletonMap, SingletonSet, VecMap};
use lattices::ght::lattice::{
    DeepJoinLatticeBimorphism, GhtBimorphism, GhtCartesianProductBimorphism, GhtNodeKeyedBimorphism, GhtValTypeProductBimorphism,
};
use lattices::ght::{GeneralizedHashTrieNode, GhtGet, GhtInner, GhtLeaf};
use lattices::map_union::{KeyedBimorphism, MapUnion};
use lattices::set_union::{CartesianProductBimorphism, SetUnion};
use lattices::{GhtType, LatticeBimorphism, Max, Merge, Pair, PairBimorphism};
use variadics::variadic_collections::VariadicHashSetStd;
use variadics::{var_expr, var_type};
use vcommon::{Args, Reporter, Rng, Tier, Value, catch, hash_of, json};

const ENGINE: &str = "mon_morph";

type Rel = BTreeSet<Vec<u8>>;

#[derive(Clone, Copy, Debug, PartialEq, Eq, Hash)]
enum Side {
    Left,
    Right,
}

#[derive(Clone, Debug, Hash)]
struct Case {
    fam: usize,
    combo: usize,
    side: Side,
    a: Rel,
    d: Rel,
    b: Rel,
}

/// Observed outputs of the three real calls (+ the crate's own merge of the two partial outputs).
struct Outs {
    base: Rel,
    delta: Rel,
    merged: Rel,
    joined: Rel,
}

/// Builds the arguments from the model, runs the real code, reads the results back.
/// `None` = this representation combination cannot hold these values (e.g. a 2-element `SingletonSet`).
#[allow(clippy::too_many_arguments)]
fn drive<A, DA, B, DB, O>(
    c: &Case,
    mk_a: impl Fn(&Rel) -> Option<A>,
    mk_da: impl Fn(&Rel) -> Option<DA>,
    mk_b: impl Fn(&Rel) -> Option<B>,
    mk_db: impl Fn(&Rel) -> Option<DB>,
    merge_a: impl Fn(&mut A, DA),
    merge_b: impl Fn(&mut B, DB),
    f: impl Fn(&A, &B) -> O,
    f_da: impl Fn(&DA, &B) -> O,
    f_db: impl Fn(&A, &DB) -> O,
    merge_o: impl Fn(&mut O, O),
    obs: impl Fn(&O) -> Rel,
) -> Option<Outs> {
    let (base, delta, merged) = match c.side {
        Side::Left => {
            let (a, d, b) = (mk_a(&c.a)?, mk_da(&c.d)?, mk_b(&c.b)?);
            let base = f(&a, &b);
            let delta = f_da(&d, &b);
            let mut am = a;
            merge_a(&mut am, d);
            (base, delta, f(&am, &b))
        }
        Side::Right => {
            let (a, b, d) = (mk_a(&c.a)?, mk_b(&c.b)?, mk_db(&c.d)?);
            let base = f(&a, &b);
            let delta = f_db(&a, &d);
            let mut bm = b;
            merge_b(&mut bm, d);
            (base, delta, f(&a, &bm))
        }
    };
    let (ob, od, om) = (obs(&base), obs(&delta), obs(&merged));
    let mut j = base;
    merge_o(&mut j, delta);
    Some(Outs { base: ob, delta: od, merged: om, joined: obs(&j) })
}

// ---------------------------------------------------------------------------------------------
// model -> representation

trait FromRel: Sized {
    const NAME: &'static str;
    fn from_rel(r: &Rel) -> Option<Self>;
}
fn col0(r: &Rel) -> impl Iterator<Item = u8> + '_ {
    r.iter().map(|t| t[0])
}
impl FromRel for HashSet<u8> {
    const NAME: &'static str = "HashSet";
    fn from_rel(r: &Rel) -> Option<Self> {
        Some(col0(r).collect())
    }
}
impl FromRel for BTreeSet<u8> {
    const NAME: &'static str = "BTreeSet";
    fn from_rel(r: &Rel) -> Option<Self> {
        Some(col0(r).collect())
    }
}
impl FromRel for Vec<u8> {
    const NAME: &'static str = "Vec";
    fn from_rel(r: &Rel) -> Option<Self> {
        let mut v: Vec<u8> = col0(r).collect();
        v.reverse();
        Some(v)
    }
}
impl FromRel for SingletonSet<u8> {
    const NAME: &'static str = "SingletonSet";
    fn from_rel(r: &Rel) -> Option<Self> {
        (r.len() == 1).then(|| SingletonSet(col0(r).next().unwrap()))
    }
}
impl FromRel for OptionSet<u8> {
    const NAME: &'static str = "OptionSet";
    fn from_rel(r: &Rel) -> Option<Self> {
        (r.len() <= 1).then(|| OptionSet(col0(r).next()))
    }
}
impl FromRel for ArraySet<u8, 2> {
    const NAME: &'static str = "ArraySet2";
    fn from_rel(r: &Rel) -> Option<Self> {
        let v: Vec<u8> = col0(r).collect();
        (v.len() == 2).then(|| ArraySet([v[1], v[0]]))
    }
}

/// Map model: `[k]` marks a present key, `[k,x]` an element of its value set.
fn map_model(r: &Rel) -> BTreeMap<u8, BTreeSet<u8>> {
    let mut m: BTreeMap<u8, BTreeSet<u8>> = BTreeMap::new();
    for t in r {
        let e = m.entry(t[0]).or_default();
        if t.len() > 1 {
            e.insert(t[1]);
        }
    }
    m
}
trait SetVal: Sized {
    fn of(xs: &BTreeSet<u8>) -> Self;
}
impl SetVal for SetUnion<HashSet<u8>> {
    fn of(xs: &BTreeSet<u8>) -> Self {
        SetUnion::new(xs.iter().copied().collect())
    }
}
impl SetVal for SetUnion<BTreeSet<u8>> {
    fn of(xs: &BTreeSet<u8>) -> Self {
        SetUnion::new(xs.clone())
    }
}
trait FromMap<V>: Sized {
    const NAME: &'static str;
    fn from_entries(e: Vec<(u8, V)>) -> Option<Self>;
}
impl<V> FromMap<V> for HashMap<u8, V> {
    const NAME: &'static str = "HashMap";
    fn from_entries(e: Vec<(u8, V)>) -> Option<Self> {
        Some(e.into_iter().collect())
    }
}
impl<V> FromMap<V> for BTreeMap<u8, V> {
    const NAME: &'static str = "BTreeMap";
    fn from_entries(e: Vec<(u8, V)>) -> Option<Self> {
        Some(e.into_iter().collect())
    }
}
impl<V> FromMap<V> for VecMap<u8, V> {
    const NAME: &'static str = "VecMap";
    fn from_entries(e: Vec<(u8, V)>) -> Option<Self> {
        let (k, v): (Vec<u8>, Vec<V>) = e.into_iter().rev().unzip();
        Some(VecMap::new(k, v))
    }
}
impl<V> FromMap<V> for SingletonMap<u8, V> {
    const NAME: &'static str = "SingletonMap";
    fn from_entries(mut e: Vec<(u8, V)>) -> Option<Self> {
        if e.len() != 1 {
            return None;
        }
        let (k, v) = e.pop().unwrap();
        Some(SingletonMap(k, v))
    }
}
impl<V> FromMap<V> for OptionMap<u8, V> {
    const NAME: &'static str = "OptionMap";
    fn from_entries(mut e: Vec<(u8, V)>) -> Option<Self> {
        (e.len() <= 1).then(|| OptionMap(e.pop()))
    }
}
fn mk_map<M: FromMap<V>, V: SetVal>(r: &Rel) -> Option<MapUnion<M>> {
    M::from_entries(map_model(r).iter().map(|(k, xs)| (*k, V::of(xs))).collect()).map(MapUnion::new)
}

// ---------------------------------------------------------------------------------------------
// GHT shapes

type G1 = GhtType!(u8 => u8: VariadicHashSetStd); // (k | v)
type G2 = GhtType!(u8, u8 => u8: VariadicHashSetStd); // (k1, k2 | v)
type G3 = GhtType!(u8 => u8, u8: VariadicHashSetStd); // (k | v1, v2)
type L1 = <G1 as GhtGet>::Get; // leaf of G1: schema (k,v), suffix (v)
type L3 = <G3 as GhtGet>::Get; // leaf of G3: schema (k,v1,v2), suffix (v1,v2)
type Out4 = GhtType!(u8, u8 => u8, u8: VariadicHashSetStd);
type Out5 = GhtType!(u8 => u8, u8, u8, u8: VariadicHashSetStd);
type S3 = var_type!(u8, u8, u8);
type S4 = var_type!(u8, u8, u8, u8);
type S5 = var_type!(u8, u8, u8, u8, u8);
/// Leaf types the deep join produces: schema = (A's row, B's value columns).
type LeafJ1 = GhtLeaf<S3, var_type!(u8, u8), VariadicHashSetStd<S3>>;
type LeafJ2 = GhtLeaf<S4, var_type!(u8, u8), VariadicHashSetStd<S4>>;
type LeafJ3 = GhtLeaf<S5, var_type!(u8, u8, u8, u8), VariadicHashSetStd<S5>>;
type OutJ1 = GhtInner<u8, LeafJ1>;
type OutJ2 = GhtInner<u8, GhtInner<u8, LeafJ2>>;
type OutJ3 = GhtInner<u8, LeafJ3>;
type DJ1 = <(G1, G1) as DeepJoinLatticeBimorphism<VariadicHashSetStd<S3>>>::DeepJoinLatticeBimorphism;
type DJ2 = <(G2, G2) as DeepJoinLatticeBimorphism<VariadicHashSetStd<S4>>>::DeepJoinLatticeBimorphism;
type DJ3 = <(G3, G3) as DeepJoinLatticeBimorphism<VariadicHashSetStd<S5>>>::DeepJoinLatticeBimorphism;

trait Flat {
    fn flat(&self, out: &mut Vec<u8>);
}
impl Flat for () {
    fn flat(&self, _out: &mut Vec<u8>) {}
}
impl<R: Flat> Flat for (&u8, R) {
    fn flat(&self, out: &mut Vec<u8>) {
        out.push(*self.0);
        self.1.flat(out);
    }
}
macro_rules! ght_obs {
    ($g:expr) => {{
        let mut rel = Rel::new();
        for t in $g.recursive_iter() {
            let mut v = vec![];
            t.flat(&mut v);
            rel.insert(v);
        }
        rel
    }};
}
macro_rules! ght_mk {
    ($T:ty, 2) => {
        |r: &Rel| -> Option<$T> { Some(<$T as GeneralizedHashTrieNode>::new_from(r.iter().map(|t| var_expr!(t[0], t[1])))) }
    };
    ($T:ty, 3) => {
        |r: &Rel| -> Option<$T> { Some(<$T as GeneralizedHashTrieNode>::new_from(r.iter().map(|t| var_expr!(t[0], t[1], t[2])))) }
    };
}
/// A GHT family: both deltas have the type of their base; `$call` is `|a: &A, b: &B| -> Out`.
macro_rules! ght_family {
    ($A:ty, $na:tt, $B:ty, $nb:tt, $O:ty, $call:expr) => {
        |c: &Case| -> Option<Outs> {
            drive(
                c,
                ght_mk!($A, $na),
                ght_mk!($A, $na),
                ght_mk!($B, $nb),
                ght_mk!($B, $nb),
                |x: &mut $A, d: $A| {
                    Merge::merge(x, d);
                },
                |x: &mut $B, d: $B| {
                    Merge::merge(x, d);
                },
                $call,
                $call,
                $call,
                |x: &mut $O, y: $O| {
                    Merge::merge(x, y);
                },
                |o: &$O| ght_obs!(o),
            )
        }
    };
}

// ---------------------------------------------------------------------------------------------
// families

#[derive(Clone, Copy, Debug, PartialEq, Eq)]
enum ArgKind {
    /// a set of u8 (1-tuples)
    Set,
    /// a map u8 -> set of u8 ([k] markers and [k,x] pairs)
    Map,
    /// Max<u8>: a single 1-tuple
    Max,
    /// rows of the given arity
    Rows(usize),
}

type Runner = fn(&Case) -> Option<Outs>;

struct Family {
    name: &'static str,
    a: ArgKind,
    b: ArgKind,
    /// the documented function, on models
    spec: fn(&Rel, &Rel) -> Rel,
    combos: Vec<(String, Runner)>,
}

fn max_of(r: &Rel) -> u8 {
    r.iter().map(|t| t[0]).max().unwrap_or(0)
}
fn downset(tag: u8, v: u8) -> impl Iterator<Item = Vec<u8>> {
    (1..=v).map(move |i| vec![tag, i])
}
fn cat(x: &[u8], y: &[u8]) -> Vec<u8> {
    let mut v = x.to_vec();
    v.extend_from_slice(y);
    v
}

fn spec_cartesian(a: &Rel, b: &Rel) -> Rel {
    let mut out = Rel::new();
    for x in a {
        for y in b {
            out.insert(cat(x, y));
        }
    }
    out
}
fn spec_keyed(a: &Rel, b: &Rel) -> Rel {
    let (ma, mb) = (map_model(a), map_model(b));
    let mut out = Rel::new();
    for (k, xs) in &ma {
        if let Some(ys) = mb.get(k) {
            for x in xs {
                for y in ys {
                    out.insert(vec![*k, *x, *y]);
                }
            }
        }
    }
    out
}
fn spec_pair_set_max(a: &Rel, b: &Rel) -> Rel {
    a.iter().map(|t| vec![0, t[0]]).chain(downset(1, max_of(b))).collect()
}
fn spec_pair_max_set(a: &Rel, b: &Rel) -> Rel {
    downset(0, max_of(a)).chain(b.iter().map(|t| vec![1, t[0]])).collect()
}
/// rows of `a` × the last `nvb` columns of rows of `b`, where the first `nkeys` columns agree
fn join(a: &Rel, b: &Rel, nkeys: usize, a_from: usize, nvb: usize) -> Rel {
    let mut out = Rel::new();
    for x in a {
        for y in b {
            if x[..nkeys] == y[..nkeys] {
                out.insert(cat(&x[a_from..], &y[y.len() - nvb..]));
            }
        }
    }
    out
}

macro_rules! cart_combo {
    ($A:ty, $DA:ty, $B:ty, $DB:ty, $OUT:ty, $oname:literal) => {
        (
            format!("{},{} x {},{} -> {}", <$A>::NAME, <$DA>::NAME, <$B>::NAME, <$DB>::NAME, $oname),
            (|c: &Case| -> Option<Outs> {
                drive(
                    c,
                    |r| <$A>::from_rel(r).map(SetUnion::new),
                    |r| <$DA>::from_rel(r).map(SetUnion::new),
                    |r| <$B>::from_rel(r).map(SetUnion::new),
                    |r| <$DB>::from_rel(r).map(SetUnion::new),
                    |x: &mut SetUnion<$A>, d: SetUnion<$DA>| {
                        x.merge(d);
                    },
                    |x: &mut SetUnion<$B>, d: SetUnion<$DB>| {
                        x.merge(d);
                    },
                    |a: &SetUnion<$A>, b: &SetUnion<$B>| CartesianProductBimorphism::<$OUT>::default().call(a.clone(), b.clone()),
                    |a: &SetUnion<$DA>, b: &SetUnion<$B>| CartesianProductBimorphism::<$OUT>::default().call(a.clone(), b.clone()),
                    |a: &SetUnion<$A>, b: &SetUnion<$DB>| CartesianProductBimorphism::<$OUT>::default().call(a.clone(), b.clone()),
                    |x: &mut SetUnion<$OUT>, y: SetUnion<$OUT>| {
                        x.merge(y);
                    },
                    |o: &SetUnion<$OUT>| o.as_reveal_ref().iter().map(|(x, y)| vec![*x, *y]).collect(),
                )
            }) as Runner,
        )
    };
}

type VA = SetUnion<HashSet<u8>>;
type VB = SetUnion<BTreeSet<u8>>;
type VO = SetUnion<HashSet<(u8, u8)>>;
macro_rules! keyed_combo {
    ($A:ident, $DA:ident, $B:ident, $DB:ident, $OUT:ident) => {
        (
            format!(
                "{},{} x {},{} -> {}",
                <$A<u8, VA> as FromMap<VA>>::NAME,
                <$DA<u8, VA> as FromMap<VA>>::NAME,
                <$B<u8, VB> as FromMap<VB>>::NAME,
                <$DB<u8, VB> as FromMap<VB>>::NAME,
                <$OUT<u8, VO> as FromMap<VO>>::NAME
            ),
            (|c: &Case| -> Option<Outs> {
                type KB = KeyedBimorphism<$OUT<u8, VO>, CartesianProductBimorphism<HashSet<(u8, u8)>>>;
                fn kb() -> KB {
                    KeyedBimorphism::new(CartesianProductBimorphism::default())
                }
                drive(
                    c,
                    mk_map::<$A<u8, VA>, VA>,
                    mk_map::<$DA<u8, VA>, VA>,
                    mk_map::<$B<u8, VB>, VB>,
                    mk_map::<$DB<u8, VB>, VB>,
                    |x: &mut MapUnion<$A<u8, VA>>, d: MapUnion<$DA<u8, VA>>| {
                        x.merge(d);
                    },
                    |x: &mut MapUnion<$B<u8, VB>>, d: MapUnion<$DB<u8, VB>>| {
                        x.merge(d);
                    },
                    |a: &MapUnion<$A<u8, VA>>, b: &MapUnion<$B<u8, VB>>| kb().call(a.clone(), b.clone()),
                    |a: &MapUnion<$DA<u8, VA>>, b: &MapUnion<$B<u8, VB>>| kb().call(a.clone(), b.clone()),
                    |a: &MapUnion<$A<u8, VA>>, b: &MapUnion<$DB<u8, VB>>| kb().call(a.clone(), b.clone()),
                    |x: &mut MapUnion<$OUT<u8, VO>>, y: MapUnion<$OUT<u8, VO>>| {
                        x.merge(y);
                    },
                    |o: &MapUnion<$OUT<u8, VO>>| {
                        let mut rel = Rel::new();
                        for (k, v) in o.as_reveal_ref().iter() {
                            for (x, y) in v.as_reveal_ref().iter() {
                                rel.insert(vec![*k, *x, *y]);
                            }
                        }
                        rel
                    },
                )
            }) as Runner,
        )
    };
}

fn families() -> Vec<Family> {
    let one = |n: &str, r: Runner| vec![(n.to_string(), r)];
    vec![
        Family {
            name: "cartesian",
            a: ArgKind::Set,
            b: ArgKind::Set,
            spec: spec_cartesian,
            combos: vec![
                cart_combo!(HashSet<u8>, HashSet<u8>, HashSet<u8>, HashSet<u8>, HashSet<(u8, u8)>, "HashSet"),
                cart_combo!(BTreeSet<u8>, Vec<u8>, BTreeSet<u8>, Vec<u8>, BTreeSet<(u8, u8)>, "BTreeSet"),
                cart_combo!(HashSet<u8>, SingletonSet<u8>, BTreeSet<u8>, OptionSet<u8>, HashSet<(u8, u8)>, "HashSet"),
                cart_combo!(BTreeSet<u8>, ArraySet<u8, 2>, HashSet<u8>, SingletonSet<u8>, BTreeSet<(u8, u8)>, "BTreeSet"),
                cart_combo!(HashSet<u8>, OptionSet<u8>, HashSet<u8>, ArraySet<u8, 2>, Vec<(u8, u8)>, "Vec"),
            ],
        },
        Family {
            name: "keyed-cartesian",
            a: ArgKind::Map,
            b: ArgKind::Map,
            spec: spec_keyed,
            combos: vec![
                keyed_combo!(HashMap, HashMap, HashMap, HashMap, HashMap),
                keyed_combo!(BTreeMap, VecMap, BTreeMap, VecMap, BTreeMap),
                keyed_combo!(HashMap, SingletonMap, BTreeMap, OptionMap, HashMap),
                keyed_combo!(BTreeMap, OptionMap, HashMap, SingletonMap, BTreeMap),
            ],
        },
        Family {
            name: "pair(set,max)",
            a: ArgKind::Set,
            b: ArgKind::Max,
            spec: spec_pair_set_max,
            combos: one("SetUnion<HashSet> x Max<u8>", |c| {
                type A = SetUnion<HashSet<u8>>;
                type B = Max<u8>;
                drive(
                    c,
                    |r| <HashSet<u8>>::from_rel(r).map(SetUnion::new),
                    |r| <HashSet<u8>>::from_rel(r).map(SetUnion::new),
                    |r| Some(Max::new(max_of(r))),
                    |r| Some(Max::new(max_of(r))),
                    |x: &mut A, d: A| {
                        x.merge(d);
                    },
                    |x: &mut B, d: B| {
                        x.merge(d);
                    },
                    |a: &A, b: &B| PairBimorphism.call(a.clone(), *b),
                    |a: &A, b: &B| PairBimorphism.call(a.clone(), *b),
                    |a: &A, b: &B| PairBimorphism.call(a.clone(), *b),
                    |x: &mut Pair<A, B>, y: Pair<A, B>| {
                        x.merge(y);
                    },
                    |o: &Pair<A, B>| {
                        let (s, m) = o.as_reveal_ref();
                        s.as_reveal_ref().iter().map(|x| vec![0, *x]).chain(downset(1, *m.as_reveal_ref())).collect()
                    },
                )
            }),
        },
        Family {
            name: "pair(max,set)",
            a: ArgKind::Max,
            b: ArgKind::Set,
            spec: spec_pair_max_set,
            combos: one("Max<u8> x SetUnion<BTreeSet>", |c| {
                type A = Max<u8>;
                type B = SetUnion<BTreeSet<u8>>;
                type DB = B;
                drive(
                    c,
                    |r| Some(Max::new(max_of(r))),
                    |r| Some(Max::new(max_of(r))),
                    |r| <BTreeSet<u8>>::from_rel(r).map(SetUnion::new),
                    |r| <BTreeSet<u8>>::from_rel(r).map(SetUnion::new),
                    |x: &mut A, d: A| {
                        x.merge(d);
                    },
                    |x: &mut B, d: DB| {
                        x.merge(d);
                    },
                    |a: &A, b: &B| PairBimorphism.call(*a, b.clone()),
                    |a: &A, b: &B| PairBimorphism.call(*a, b.clone()),
                    |a: &A, b: &DB| PairBimorphism.call(*a, b.clone()),
                    |x: &mut Pair<A, B>, y: Pair<A, B>| {
                        x.merge(y);
                    },
                    |o: &Pair<A, B>| {
                        let (m, s) = o.as_reveal_ref();
                        downset(0, *m.as_reveal_ref()).chain(s.as_reveal_ref().iter().map(|x| vec![1, *x])).collect()
                    },
                )
            }),
        },
        Family {
            name: "ght-cartesian-root(2x2)",
            a: ArgKind::Rows(2),
            b: ArgKind::Rows(2),
            spec: spec_cartesian,
            combos: one("G1 x G1 -> (u8,u8 => u8,u8)", ght_family!(G1, 2, G1, 2, Out4, |a: &G1, b: &G1| GhtCartesianProductBimorphism::<Out4>::default().call(a, b))),
        },
        Family {
            name: "ght-cartesian-root(2x3)",
            a: ArgKind::Rows(2),
            b: ArgKind::Rows(3),
            spec: spec_cartesian,
            combos: one("G1 x G2 -> (u8 => u8,u8,u8,u8)", ght_family!(G1, 2, G2, 3, Out5, |a: &G1, b: &G2| GhtCartesianProductBimorphism::<Out5>::default().call(a, b))),
        },
        Family {
            name: "ght-cartesian-leaf(suffixes)",
            a: ArgKind::Rows(2),
            b: ArgKind::Rows(3),
            spec: |a, b| join(a, b, 0, 1, 2),
            combos: one("leaf(G1) x leaf(G3) -> G3", ght_family!(L1, 2, L3, 3, G3, |a: &L1, b: &L3| GhtCartesianProductBimorphism::<G3>::default().call(a, b))),
        },
        Family {
            name: "ght-valtype-product(trie)",
            a: ArgKind::Rows(2),
            b: ArgKind::Rows(3),
            spec: |a, b| join(a, b, 0, 0, 2),
            combos: one("G1 x G3 -> (u8,u8 => u8,u8)", ght_family!(G1, 2, G3, 3, Out4, |a: &G1, b: &G3| GhtValTypeProductBimorphism::<Out4>::default().call(a, b))),
        },
        Family {
            name: "ght-valtype-product(leaf)",
            a: ArgKind::Rows(2),
            b: ArgKind::Rows(2),
            spec: |a, b| join(a, b, 0, 0, 1),
            combos: one("leaf(G1) x leaf(G1) -> join leaf", ght_family!(L1, 2, L1, 2, LeafJ1, |a: &L1, b: &L1| GhtValTypeProductBimorphism::<LeafJ1>::default().call(a, b))),
        },
        Family {
            name: "ght-node-keyed(1 key)",
            a: ArgKind::Rows(2),
            b: ArgKind::Rows(2),
            spec: |a, b| join(a, b, 1, 0, 1),
            combos: one(
                "NodeKeyed(ValTypeProduct) on G1 x G1",
                ght_family!(G1, 2, G1, 2, OutJ1, |a: &G1, b: &G1| {
                    GhtNodeKeyedBimorphism::new(GhtValTypeProductBimorphism::<LeafJ1>::default()).call(a, b)
                }),
            ),
        },
        Family {
            name: "ght-node-keyed(2 keys)",
            a: ArgKind::Rows(3),
            b: ArgKind::Rows(3),
            spec: |a, b| join(a, b, 2, 0, 1),
            combos: one(
                "NodeKeyed(NodeKeyed(ValTypeProduct)) on G2 x G2",
                ght_family!(G2, 3, G2, 3, OutJ2, |a: &G2, b: &G2| {
                    GhtNodeKeyedBimorphism::new(GhtNodeKeyedBimorphism::new(GhtValTypeProductBimorphism::<LeafJ2>::default())).call(a, b)
                }),
            ),
        },
        Family {
            name: "ght-deep-join(k|v)",
            a: ArgKind::Rows(2),
            b: ArgKind::Rows(2),
            spec: |a, b| join(a, b, 1, 0, 1),
            combos: one("DeepJoin on G1 x G1", ght_family!(G1, 2, G1, 2, OutJ1, |a: &G1, b: &G1| DJ1::default().call(a, b))),
        },
        Family {
            name: "ght-deep-join(k1,k2|v)",
            a: ArgKind::Rows(3),
            b: ArgKind::Rows(3),
            spec: |a, b| join(a, b, 2, 0, 1),
            combos: one("DeepJoin on G2 x G2", ght_family!(G2, 3, G2, 3, OutJ2, |a: &G2, b: &G2| DJ2::default().call(a, b))),
        },
        Family {
            name: "ght-deep-join(k|v1,v2)",
            a: ArgKind::Rows(3),
            b: ArgKind::Rows(3),
            spec: |a, b| join(a, b, 1, 0, 2),
            combos: one("DeepJoin on G3 x G3", ght_family!(G3, 3, G3, 3, OutJ3, |a: &G3, b: &G3| DJ3::default().call(a, b))),
        },
        Family {
            name: "ght-bimorphism-wrapper(deep-join k1,k2|v)",
            a: ArgKind::Rows(3),
            b: ArgKind::Rows(3),
            spec: |a, b| join(a, b, 2, 0, 1),
            combos: one(
                "GhtBimorphism(DeepJoin) on owned G2 x G2",
                ght_family!(G2, 3, G2, 3, OutJ2, |a: &G2, b: &G2| {
                    GhtBimorphism::new(DJ2::default()).call(a.clone(), b.clone())
                }),
            ),
        },
    ]
}

// ---------------------------------------------------------------------------------------------
// the oracle

fn rel_json(r: &Rel) -> Value {
    json!(r.iter().collect::<Vec<_>>())
}
fn rel_from_json(v: &Value) -> Rel {
    v.as_array().expect("relation").iter().map(|t| t.as_array().unwrap().iter().map(|x| x.as_u64().unwrap() as u8).collect()).collect()
}

/// Model join of two argument values.
fn arg_join(kind: ArgKind, x: &Rel, y: &Rel) -> Rel {
    match kind {
        ArgKind::Max => [vec![max_of(x).max(max_of(y))]].into(),
        _ => x.union(y).cloned().collect(),
    }
}

fn check_case(rep: &mut Reporter, fams: &[Family], c: &Case) {
    let fam = &fams[c.fam];
    let (cname, runner) = &fam.combos[c.combo];
    let side = if c.side == Side::Left { "left" } else { "right" };
    let case = || {
        json!({"engine": ENGINE, "family": fam.name, "combo": c.combo, "combo_name": cname, "side": side,
               "a": rel_json(&c.a), "d": rel_json(&c.d), "b": rel_json(&c.b)})
    };
    let site = if fam.combos.len() > 1 { format!("C07|{}[{}]", fam.name, cname) } else { format!("C07|{}", fam.name) };
    let outs = match catch(|| runner(c)) {
        Err(p) => {
            rep.eval();
            rep.violation(&format!("{site}|panic|{side}"), &p, case());
            return;
        }
        Ok(None) => {
            rep.count(&format!("inapplicable:{}", fam.name));
            return;
        }
        Ok(Some(o)) => o,
    };
    rep.count(&format!("cases:{}[{}]", fam.name, cname));
    // what the documentation says the three calls compute
    let (e_base, e_delta, e_merged) = match c.side {
        Side::Left => ((fam.spec)(&c.a, &c.b), (fam.spec)(&c.d, &c.b), (fam.spec)(&arg_join(fam.a, &c.a, &c.d), &c.b)),
        Side::Right => ((fam.spec)(&c.a, &c.b), (fam.spec)(&c.a, &c.d), (fam.spec)(&c.a, &arg_join(fam.b, &c.b, &c.d))),
    };
    let union: Rel = outs.base.union(&outs.delta).cloned().collect();
    rep.eval();
    if outs.merged != union {
        rep.violation(
            &format!("{site}|not-distributive|{side}"),
            &format!("f(merged argument) = {:?} but f(base) ∪ f(delta) = {:?} ∪ {:?}", outs.merged, outs.base, outs.delta),
            case(),
        );
    }
    rep.eval();
    if outs.joined != outs.merged {
        rep.violation(
            &format!("{site}|crate-merge-of-partial-outputs-differs|{side}"),
            &format!("f(merged argument) = {:?} but merge(f(base), f(delta)) = {:?}", outs.merged, outs.joined),
            case(),
        );
    }
    for (what, got, want) in [("base", &outs.base, &e_base), ("delta", &outs.delta, &e_delta), ("merged", &outs.merged, &e_merged)] {
        rep.eval();
        if got != want {
            rep.violation(
                &format!("{site}|output-differs-from-documented-function"),
                &format!("{what} call ({side}): got {got:?}, nested-loop model gives {want:?}"),
                case(),
            );
            break;
        }
    }
    // non-trivial: the delta contributes output that the base did not already produce
    if !e_delta.is_subset(&e_base) {
        rep.count(&format!("nontrivial:{}", fam.name));
        rep.nontrivial(hash_of(&(fam.name, c.side, &c.a, &c.d, &c.b)));
        rep.sample(case);
    }
}

// ---------------------------------------------------------------------------------------------
// universes

fn subsets_upto(items: &[Vec<u8>], max: usize) -> Vec<Rel> {
    let n = items.len();
    (0u32..1 << n).filter(|m| m.count_ones() as usize <= max).map(|m| (0..n).filter(|i| m >> i & 1 == 1).map(|i| items[i].clone()).collect()).collect()
}
fn rows(arity: usize, dom: u8) -> Vec<Vec<u8>> {
    let mut out = vec![vec![]];
    for _ in 0..arity {
        out = out.into_iter().flat_map(|p: Vec<u8>| (0..dom).map(move |x| cat(&p, &[x]))).collect();
    }
    out
}

/// The small exhaustive universe of an argument kind. `base` shifts element values so that the two
/// sides of a product draw from different domains.
fn universe(kind: ArgKind, base: u8, tier: Tier) -> Vec<Rel> {
    match kind {
        ArgKind::Set => subsets_upto(&(0..3).map(|x| vec![base + x]).collect::<Vec<_>>(), 3),
        ArgKind::Max => (0..4u8).map(|v| [vec![v]].into()).collect(),
        ArgKind::Map => {
            // keys {0,1}; each absent or one of the 4 subsets of {base, base+1} (the empty one = bottom-valued entry)
            let per_key = |k: u8| -> Vec<Rel> {
                let mut v = vec![Rel::new()];
                for m in 0..4u8 {
                    let mut r: Rel = [vec![k]].into();
                    for x in 0..2 {
                        if m >> x & 1 == 1 {
                            r.insert(vec![k, base + x]);
                        }
                    }
                    v.push(r);
                }
                v
            };
            let mut out = vec![];
            for r0 in per_key(0) {
                for r1 in per_key(1) {
                    out.push(r0.union(&r1).cloned().collect());
                }
            }
            out
        }
        ArgKind::Rows(2) => subsets_upto(&rows(2, 2), 4),
        ArgKind::Rows(n) => subsets_upto(&rows(n, 2), if tier == Tier::Thorough { 3 } else { 2 }),
    }
}

fn random_arg(rng: &mut Rng, kind: ArgKind, base: u8) -> Rel {
    match kind {
        ArgKind::Set => (0..rng.below(7)).map(|_| vec![base + rng.below(12) as u8]).collect(),
        ArgKind::Max => [vec![rng.below(200) as u8]].into(),
        ArgKind::Map => {
            let mut r = Rel::new();
            for _ in 0..rng.below(5) {
                let k = rng.below(6) as u8;
                r.insert(vec![k]);
                for _ in 0..rng.below(4) {
                    r.insert(vec![k, base + rng.below(6) as u8]);
                }
            }
            r
        }
        ArgKind::Rows(n) => {
            let dom = 2 + rng.below(3);
            (0..rng.below(9)).map(|_| (0..n).map(|_| rng.below(dom) as u8).collect()).collect()
        }
    }
}

fn main() {
    let args = Args::parse();
    if args.prop == "NONE" {
        return;
    }
    assert_eq!(args.prop, "C07", "mon_morph serves C07");
    let mut rep = Reporter::new("C07", args.seed);
    let fams = families();
    if let Some(case) = args.replay_case() {
        let fam = fams.iter().position(|f| f.name == case["family"].as_str().unwrap_or("")).expect("family");
        let c = Case {
            fam,
            combo: case["combo"].as_u64().unwrap_or(0) as usize,
            side: if case["side"] == "left" { Side::Left } else { Side::Right },
            a: rel_from_json(&case["a"]),
            d: rel_from_json(&case["d"]),
            b: rel_from_json(&case["b"]),
        };
        check_case(&mut rep, &fams, &c);
        rep.finish("replay", false);
        return;
    }
    let mut rng = args.rng();
    let tier = args.tier;
    let mut idx = 0usize;
    let mut exh = BTreeMap::new();
    for (fi, fam) in fams.iter().enumerate() {
        // (1) exhaustive over the small universes: all (a, Δa, b) and all (a, b, Δb), every combination of representations
        let (ua, ub) = (universe(fam.a, 0, tier), universe(fam.b, 10, tier));
        let mut n = 0u64;
        if tier == Tier::Miri {
            for _ in 0..6 {
                for side in [Side::Left, Side::Right] {
                    let (a, b) = (rng.choose(&ua).clone(), rng.choose(&ub).clone());
                    let d = if side == Side::Left { rng.choose(&ua).clone() } else { rng.choose(&ub).clone() };
                    idx += 1;
                    if args.in_shard(idx) {
                        for combo in 0..fam.combos.len() {
                            check_case(&mut rep, &fams, &Case { fam: fi, combo, side, a: a.clone(), d: d.clone(), b: b.clone() });
                        }
                    }
                }
            }
        } else {
            for a in &ua {
                for b in &ub {
                    for (side, ud) in [(Side::Left, &ua), (Side::Right, &ub)] {
                        for d in ud {
                            n += 1;
                            for combo in 0..fam.combos.len() {
                                check_case(&mut rep, &fams, &Case { fam: fi, combo, side, a: a.clone(), d: d.clone(), b: b.clone() });
                            }
                        }
                    }
                }
            }
        }
        exh.insert(fam.name, json!({"universe_a": ua.len(), "universe_b": ub.len(), "triples": n}));
        // (2) random larger values
        for _ in 0..args.budget(2_000, 40_000, 2) {
            let side = if rng.chance(1, 2) { Side::Left } else { Side::Right };
            let (a, b) = (random_arg(&mut rng, fam.a, 0), random_arg(&mut rng, fam.b, 10));
            let d = if side == Side::Left { random_arg(&mut rng, fam.a, 0) } else { random_arg(&mut rng, fam.b, 10) };
            idx += 1;
            if !args.in_shard(idx) {
                continue;
            }
            for combo in 0..fam.combos.len() {
                check_case(&mut rep, &fams, &Case { fam: fi, combo, side, a: a.clone(), d: d.clone(), b: b.clone() });
            }
        }
    }
    rep.extra("exhaustive", json!(exh));
    let miri = tier == Tier::Miri;
    for fam in &fams {
        rep.require(miri || rep.counter(&format!("nontrivial:{}", fam.name)) >= 500, &format!("fewer than 500 cases of {} where the delta contributes new output", fam.name));
        for (cname, _) in &fam.combos {
            let n = rep.counter(&format!("cases:{}[{}]", fam.name, cname));
            rep.require(n >= if miri { 1 } else { 300 }, &format!("fewer than 300 cases ran on {}[{}]", fam.name, cname));
        }
    }
    rep.finish(
        "For every shipped bimorphism (set cartesian product in 5 representation combinations incl. Vec/Singleton/Option/Array deltas, KeyedBimorphism<_, CartesianProduct> in 4 map-representation combinations incl. bottom-valued entries, PairBimorphism on set x max and max x set, GhtCartesianProduct at trie roots and on leaves, GhtValTypeProduct on tries and leaves, GhtNodeKeyed over 1 and 2 key levels, DeepJoinLatticeBimorphism for three trie shapes, GhtBimorphism wrapper): all triples (a, delta, b) on both argument sides over the small universes (all subsets of a 3-element domain; all maps over 2 keys x subsets of 2 values; all 16 relations over {0,1}^2; all relations of <=2 (thorough <=3) rows over {0,1}^3) plus random larger values (<=8 rows / 6 elements over domains <=12). Each case runs the real bimorphism on base, delta and crate-merged argument, reads outputs back as sets of tuples and checks f(merged)=f(base) U f(delta), the same through the crate's merge of the outputs, and every output against the nested-loop specification. Non-trivial = distinct (family, side, a, delta, b) where the delta's output is not already contained in the base's output.",
        true,
    );
}
