//! C17 — graph ordering and subgraph-merging algorithms (`dfir_lang::graph::graph_algorithms`,
//! `dfir_lang::union_find`) against independent oracles: Kahn's algorithm, quotient-graph
//! reachability, a plain partition.

use std::collections::{BTreeSet, HashSet};

use dfir_lang::graph::graph_algorithms::{SubgraphMerge, topo_sort, validate_topo_sort};
use dfir_lang::union_find::UnionFind;
use slotmap::{DefaultKey, SlotMap};
use vcommon::{Args, Reporter, Rng, Tier, catch, hash_of, json};

/// A digraph on nodes 0..n; `preds[v]` lists predecessors (may contain duplicates).
#[derive(Clone, Debug, Hash, PartialEq, Eq)]
struct G {
    n: usize,
    preds: Vec<Vec<usize>>,
}

impl G {
    fn from_mask(n: usize, mask: u64, self_loops: bool) -> G {
        let mut preds = vec![vec![]; n];
        let mut bit = 0;
        for u in 0..n {
            for v in 0..n {
                if u == v && !self_loops {
                    continue;
                }
                if mask >> bit & 1 == 1 {
                    preds[v].push(u); // edge u -> v
                }
                bit += 1;
            }
        }
        G { n, preds }
    }
    fn edges(&self) -> Vec<(usize, usize)> {
        let mut e = vec![];
        for v in 0..self.n {
            for &u in &self.preds[v] {
                e.push((u, v));
            }
        }
        e
    }
    fn has_edge(&self, u: usize, v: usize) -> bool {
        self.preds[v].contains(&u)
    }
    /// Kahn: true iff acyclic.
    fn acyclic(&self) -> bool {
        kahn_acyclic(self.n, &self.edges())
    }
}

fn kahn_acyclic(n: usize, edges: &[(usize, usize)]) -> bool {
    let es: BTreeSet<(usize, usize)> = edges.iter().copied().collect();
    let mut indeg = vec![0usize; n];
    for &(_, v) in &es {
        indeg[v] += 1;
    }
    let mut q: Vec<usize> = (0..n).filter(|&v| indeg[v] == 0).collect();
    let mut seen = 0;
    while let Some(u) = q.pop() {
        seen += 1;
        for &(a, b) in &es {
            if a == u {
                indeg[b] -= 1;
                if indeg[b] == 0 {
                    q.push(b);
                }
            }
        }
    }
    seen == n
}

fn valid_topo(g: &G, order: &[usize]) -> Result<(), String> {
    if order.len() != g.n {
        return Err(format!("order has {} nodes, graph has {}", order.len(), g.n));
    }
    let mut pos = vec![usize::MAX; g.n];
    for (i, &v) in order.iter().enumerate() {
        if v >= g.n || pos[v] != usize::MAX {
            return Err(format!("order is not a permutation: {order:?}"));
        }
        pos[v] = i;
    }
    for (u, v) in g.edges() {
        if pos[u] >= pos[v] {
            return Err(format!("edge {u}->{v} violated by order {order:?}"));
        }
    }
    Ok(())
}

/// A returned cycle must list distinct nodes and be a directed cycle in one orientation.
fn genuine_cycle(g: &G, cyc: &[usize]) -> Result<(), String> {
    if cyc.is_empty() {
        return Err("empty cycle".into());
    }
    let set: BTreeSet<_> = cyc.iter().collect();
    if set.len() != cyc.len() {
        return Err(format!("cycle repeats a node: {cyc:?}"));
    }
    if cyc.iter().any(|&v| v >= g.n) {
        return Err(format!("cycle names unknown node: {cyc:?}"));
    }
    let k = cyc.len();
    let fwd = (0..k).all(|i| g.has_edge(cyc[i], cyc[(i + 1) % k]));
    let bwd = (0..k).all(|i| g.has_edge(cyc[(i + 1) % k], cyc[i]));
    if fwd || bwd { Ok(()) } else { Err(format!("not a directed cycle of the graph: {cyc:?}")) }
}

fn gjson(g: &G) -> vcommon::Value {
    json!({"n": g.n, "edges": g.edges()})
}

// ---------------------------------------------------------------------------------------------
// topo_sort / validate_topo_sort

fn check_topo(rep: &mut Reporter, g: &G, node_order: &[usize], fam: &str) {
    let r = catch(|| topo_sort(node_order.iter().copied(), |v| g.preds[v].iter().copied()));
    rep.eval();
    let case = || json!({"engine":"mon_graphalg","family":fam,"graph":gjson(g),"node_order":node_order});
    let acyclic = g.acyclic();
    match r {
        Err(p) => rep.violation("C17|topo_sort|panic", &format!("topo_sort panicked: {p}"), case()),
        Ok(Ok(order)) => {
            if !acyclic {
                rep.violation("C17|topo_sort|ok-on-cyclic", &format!("returned order {order:?} for a cyclic graph"), case());
            } else if let Err(e) = valid_topo(g, &order) {
                rep.violation("C17|topo_sort|invalid-order", &e, case());
            }
            rep.count("topo_acyclic");
        }
        Ok(Err(cyc)) => {
            if acyclic {
                rep.violation("C17|topo_sort|err-on-acyclic", &format!("returned cycle {cyc:?} for an acyclic graph"), case());
            } else if let Err(e) = genuine_cycle(g, &cyc) {
                rep.violation("C17|topo_sort|bogus-cycle", &e, case());
            }
            rep.count("topo_cyclic");
            if cyc.len() >= 2 {
                rep.count("topo_cycle_len_ge2");
            }
            rep.nontrivial(hash_of(&("topo", g, node_order)));
        }
    }
    if acyclic {
        rep.nontrivial(hash_of(&("topo", g, node_order)));
    }
}

fn check_validate(rep: &mut Reporter, g: &G, order: &[usize]) {
    // validate_topo_sort documents a panic when a predecessor is missing; orders here are
    // permutations, so it must answer.
    let r = catch(|| validate_topo_sort(order.iter().copied(), |v| g.preds[v].iter().copied()));
    rep.eval();
    let case = || json!({"engine":"mon_graphalg","family":"validate","graph":gjson(g),"order":order});
    let model = valid_topo(g, order).is_ok();
    match r {
        Err(p) => rep.violation("C17|validate_topo_sort|panic", &p, case()),
        Ok(Ok(())) => {
            if !model {
                rep.violation("C17|validate_topo_sort|accepts-invalid", "Ok(()) for an order violating an edge", case());
            }
        }
        Ok(Err((p, s))) => {
            if model {
                rep.violation("C17|validate_topo_sort|rejects-valid", &format!("Err(({p},{s})) for a valid order"), case());
            } else {
                let pp = order.iter().position(|&x| x == p);
                let ps = order.iter().position(|&x| x == s);
                if !(g.has_edge(p, s) && pp >= ps) {
                    rep.violation("C17|validate_topo_sort|bogus-witness", &format!("witness ({p},{s}) is not a violated edge"), case());
                }
            }
        }
    }
}

fn permutations(n: usize) -> Vec<Vec<usize>> {
    fn go(cur: &mut Vec<usize>, used: &mut Vec<bool>, n: usize, out: &mut Vec<Vec<usize>>) {
        if cur.len() == n {
            out.push(cur.clone());
            return;
        }
        for i in 0..n {
            if !used[i] {
                used[i] = true;
                cur.push(i);
                go(cur, used, n, out);
                cur.pop();
                used[i] = false;
            }
        }
    }
    let mut out = vec![];
    go(&mut vec![], &mut vec![false; n], n, &mut out);
    out
}

// ---------------------------------------------------------------------------------------------
// SubgraphMerge against a partition + quotient model

struct Model {
    n: usize,
    edges: Vec<(usize, usize)>,
    enemies: Vec<(usize, usize)>,
    group: Vec<usize>, // group id per node
}

impl Model {
    fn same(&self, a: usize, b: usize) -> bool {
        self.group[a] == self.group[b]
    }
    /// Decide a merge attempt: Ok(true) merged / already same, Ok(false) refused with reason tag.
    fn decide(&self, u: usize, v: usize) -> (bool, &'static str) {
        if self.same(u, v) {
            return (true, "same");
        }
        let (gu, gv) = (self.group[u], self.group[v]);
        for &(a, b) in &self.enemies {
            let (ga, gb) = (self.group[a], self.group[b]);
            if (ga == gu && gb == gv) || (ga == gv && gb == gu) {
                return (false, "enemy");
            }
        }
        // hypothetical merge, quotient acyclicity (self-loops dropped)
        let g2: Vec<usize> = self.group.iter().map(|&g| if g == gv { gu } else { g }).collect();
        let q: Vec<(usize, usize)> =
            self.edges.iter().map(|&(a, b)| (g2[a], g2[b])).filter(|(a, b)| a != b).collect();
        // compress ids: Kahn over all n ids is fine (isolated ids are trivially sorted)
        if kahn_acyclic(self.n, &q) { (true, "merged") } else { (false, "cycle") }
    }
    fn apply(&mut self, u: usize, v: usize) {
        let (gu, gv) = (self.group[u], self.group[v]);
        for g in self.group.iter_mut() {
            if *g == gv {
                *g = gu;
            }
        }
    }
}

struct MergeCase<'a> {
    g: &'a G,
    enemies: &'a [(usize, usize)],
    attempts: &'a [(usize, usize)],
    fam: &'a str,
}

fn check_merge_case(rep: &mut Reporter, c: &MergeCase) {
    let g = c.g;
    let case = || {
        json!({"engine":"mon_graphalg","family":c.fam,"graph":gjson(g),"enemies":c.enemies,"attempts":c.attempts})
    };
    let mut sm = SlotMap::<DefaultKey, usize>::new();
    let keys: Vec<DefaultKey> = (0..g.n).map(|i| sm.insert(i)).collect();
    let idx = |k: DefaultKey| sm[k];
    let built = catch(|| {
        SubgraphMerge::new(
            keys.iter().copied(),
            |k| g.preds[idx(k)].iter().map(|&p| keys[p]).collect::<Vec<_>>(),
            c.enemies.iter().map(|&(a, b)| (keys[a], keys[b])),
        )
    });
    rep.eval();
    let mut sgm = match built {
        Err(p) => {
            rep.violation("C17|SubgraphMerge::new|panic", &p, case());
            return;
        }
        Ok(Err(cyc)) => {
            let cyc: Vec<usize> = cyc.into_iter().map(idx).collect();
            if g.acyclic() {
                rep.violation("C17|SubgraphMerge::new|err-on-acyclic", &format!("cycle {cyc:?} reported for a DAG"), case());
            } else if let Err(e) = genuine_cycle(g, &cyc) {
                rep.violation("C17|SubgraphMerge::new|bogus-cycle", &e, case());
            }
            return;
        }
        Ok(Ok(s)) => {
            if !g.acyclic() {
                rep.violation("C17|SubgraphMerge::new|ok-on-cyclic", "constructed over a cyclic graph", case());
                return;
            }
            s
        }
    };
    let mut model = Model { n: g.n, edges: g.edges(), enemies: c.enemies.to_vec(), group: (0..g.n).collect() };
    let mut refused_cycle = 0;
    let mut refused_enemy = 0;
    let mut merged = 0;
    // step 0 = freshly built structure, then after every attempt
    for step in 0..=c.attempts.len() {
        if step > 0 {
            let (u, v) = c.attempts[step - 1];
            let (want, why) = model.decide(u, v);
            let got = catch(|| sgm.try_merge(keys[u], keys[v]));
            rep.eval();
            match got {
                Err(p) => {
                    rep.violation("C17|try_merge|panic", &format!("attempt #{step} ({u},{v}): {p}"), case());
                    return;
                }
                Ok(b) => {
                    if b != want {
                        let sig = if want { "C17|try_merge|refused-legal-merge" } else if why == "enemy" { "C17|try_merge|merged-enemies" } else { "C17|try_merge|merged-into-cycle" };
                        rep.violation(sig, &format!("attempt #{step} ({u},{v}): try_merge={b}, model says {want} ({why})"), case());
                        return;
                    }
                    if want && why == "merged" {
                        model.apply(u, v);
                        merged += 1;
                    }
                    match why {
                        "cycle" => refused_cycle += 1,
                        "enemy" => refused_enemy += 1,
                        _ => {}
                    }
                }
            }
        }
        // structural invariants
        let groups: Vec<Vec<usize>> = sgm.subgraphs().map(|s| s.iter().map(|&k| idx(k)).collect()).collect();
        let flat: Vec<usize> = groups.iter().flatten().copied().collect();
        rep.eval();
        if let Err(e) = valid_topo(g, &flat) {
            rep.violation("C17|subgraphs|not-a-topological-node-order", &format!("after step {step}: {e}"), case());
            return;
        }
        // groups == model groups
        let mut model_groups: BTreeSet<BTreeSet<usize>> = BTreeSet::new();
        for gid in model.group.iter().collect::<BTreeSet<_>>() {
            model_groups.insert((0..g.n).filter(|&x| model.group[x] == *gid).collect());
        }
        let got_groups: BTreeSet<BTreeSet<usize>> = groups.iter().map(|s| s.iter().copied().collect()).collect();
        if got_groups != model_groups {
            rep.violation("C17|subgraphs|groups-differ-from-partition", &format!("after step {step}: subgraphs()={groups:?}, model partition={model_groups:?}"), case());
            return;
        }
        // no enemies inside a group; quotient acyclic
        for &(a, b) in c.enemies {
            if groups.iter().any(|s| s.contains(&a) && s.contains(&b)) {
                rep.violation("C17|subgraphs|enemies-share-group", &format!("after step {step}: {a} and {b}"), case());
                return;
            }
        }
        let q: Vec<(usize, usize)> = model.edges.iter().map(|&(a, b)| (model.group[a], model.group[b])).filter(|(a, b)| a != b).collect();
        if !kahn_acyclic(g.n, &q) {
            rep.violation("C17|subgraphs|quotient-cyclic", &format!("after step {step}"), case());
            return;
        }
        // connectivity queries
        for a in 0..g.n {
            let fa = idx(sgm.find(keys[a]));
            if !model.same(fa, a) {
                rep.violation("C17|find|representative-outside-set", &format!("after step {step}: find({a})={fa}"), case());
                return;
            }
            for b in 0..g.n {
                if sgm.same_set(keys[a], keys[b]) != model.same(a, b) {
                    rep.violation("C17|same_set|wrong", &format!("after step {step}: same_set({a},{b})"), case());
                    return;
                }
            }
        }
    }
    if merged > 0 {
        rep.count("cases_with_merge");
    }
    if refused_cycle > 0 {
        rep.count("cases_with_cycle_refusal");
    }
    if refused_enemy > 0 {
        rep.count("cases_with_enemy_refusal");
    }
    if merged > 0 && (refused_cycle + refused_enemy) > 0 {
        rep.nontrivial(hash_of(&("merge", g, c.enemies, c.attempts)));
        rep.sample(|| case());
    }
}

fn random_dag(rng: &mut Rng, n: usize, dens: u32) -> G {
    let mut perm: Vec<usize> = (0..n).collect();
    rng.shuffle(&mut perm);
    let mut preds = vec![vec![]; n];
    for i in 0..n {
        for j in i + 1..n {
            if rng.chance(dens, 100) {
                preds[perm[j]].push(perm[i]);
                if rng.chance(1, 10) {
                    preds[perm[j]].push(perm[i]); // duplicate edge
                }
            }
        }
    }
    G { n, preds }
}

fn random_digraph(rng: &mut Rng, n: usize, dens: u32) -> G {
    let mut preds = vec![vec![]; n];
    for u in 0..n {
        for v in 0..n {
            if rng.chance(dens, 100) {
                preds[v].push(u);
            }
        }
    }
    G { n, preds }
}

fn random_enemies(rng: &mut Rng, n: usize, k: usize) -> Vec<(usize, usize)> {
    let mut e = vec![];
    if n < 2 {
        return e;
    }
    for _ in 0..k {
        let a = rng.below(n);
        let mut b = rng.below(n);
        if a == b {
            b = (b + 1) % n;
        }
        e.push((a, b));
    }
    e
}

// ---------------------------------------------------------------------------------------------
// stand-alone union-find

fn check_union_find(rep: &mut Rng, r: &mut Reporter, n: usize, ops: usize, fam: &str) {
    let mut sm = SlotMap::<DefaultKey, usize>::new();
    let keys: Vec<DefaultKey> = (0..n).map(|i| sm.insert(i)).collect();
    let mut uf = UnionFind::<DefaultKey>::new();
    let mut grp: Vec<usize> = (0..n).collect();
    let mut hist = vec![];
    for _ in 0..ops {
        let a = rep.below(n);
        let b = rep.below(n);
        let kind = rep.below(3);
        hist.push((kind, a, b));
        let case = || json!({"engine":"mon_graphalg","family":fam,"n":n,"history":hist});
        r.eval();
        match kind {
            0 => {
                let got = catch(|| uf.union(keys[a], keys[b]));
                let (ga, gb) = (grp[a], grp[b]);
                for g in grp.iter_mut() {
                    if *g == gb {
                        *g = ga;
                    }
                }
                match got {
                    Err(p) => return r.violation("C17|UnionFind::union|panic", &p, case()),
                    Ok(k) => {
                        if grp[sm[k]] != grp[a] {
                            return r.violation("C17|UnionFind::union|representative-outside-set", "returned representative is not in the merged set", case());
                        }
                    }
                }
            }
            1 => match catch(|| uf.find(keys[a])) {
                Err(p) => return r.violation("C17|UnionFind::find|panic", &p, case()),
                Ok(k) => {
                    if grp[sm[k]] != grp[a] {
                        return r.violation("C17|UnionFind::find|representative-outside-set", "find returned a node of another set", case());
                    }
                }
            },
            _ => match catch(|| uf.same_set(keys[a], keys[b])) {
                Err(p) => return r.violation("C17|UnionFind::same_set|panic", &p, case()),
                Ok(s) => {
                    if s != (grp[a] == grp[b]) {
                        return r.violation("C17|UnionFind::same_set|wrong", &format!("same_set({a},{b})={s}"), case());
                    }
                }
            },
        }
    }
    // final all-pairs + representative uniqueness
    let case = || json!({"engine":"mon_graphalg","family":fam,"n":n,"history":hist});
    let mut reps: HashSet<(usize, usize)> = HashSet::new();
    for a in 0..n {
        let fa = sm[uf.find(keys[a])];
        reps.insert((grp[a], fa));
        for b in 0..n {
            r.eval();
            if uf.same_set(keys[a], keys[b]) != (grp[a] == grp[b]) {
                return r.violation("C17|UnionFind::same_set|wrong", &format!("final same_set({a},{b})"), case());
            }
        }
    }
    let ngroups = grp.iter().collect::<BTreeSet<_>>().len();
    if reps.len() != ngroups {
        r.violation("C17|UnionFind::find|representatives-not-unique-per-set", &format!("{} (set,rep) pairs for {} sets", reps.len(), ngroups), case());
    }
    if ngroups < n && ngroups > 1 {
        r.nontrivial(hash_of(&("uf", n, &hist)));
    }
}

// ---------------------------------------------------------------------------------------------

fn replay(rep: &mut Reporter, case: &vcommon::Value) {
    let fam = case["family"].as_str().unwrap_or("");
    let parse_g = |v: &vcommon::Value| {
        let n = v["n"].as_u64().unwrap() as usize;
        let mut preds = vec![vec![]; n];
        for e in v["edges"].as_array().unwrap() {
            preds[e[1].as_u64().unwrap() as usize].push(e[0].as_u64().unwrap() as usize);
        }
        G { n, preds }
    };
    let pairs = |v: &vcommon::Value| -> Vec<(usize, usize)> {
        v.as_array().map(|a| a.iter().map(|e| (e[0].as_u64().unwrap() as usize, e[1].as_u64().unwrap() as usize)).collect()).unwrap_or_default()
    };
    if fam.starts_with("topo") {
        let g = parse_g(&case["graph"]);
        let order: Vec<usize> = case["node_order"].as_array().unwrap().iter().map(|x| x.as_u64().unwrap() as usize).collect();
        check_topo(rep, &g, &order, fam);
    } else if fam == "validate" {
        let g = parse_g(&case["graph"]);
        let order: Vec<usize> = case["order"].as_array().unwrap().iter().map(|x| x.as_u64().unwrap() as usize).collect();
        check_validate(rep, &g, &order);
    } else if fam.starts_with("merge") {
        let g = parse_g(&case["graph"]);
        let en = pairs(&case["enemies"]);
        let at = pairs(&case["attempts"]);
        check_merge_case(rep, &MergeCase { g: &g, enemies: &en, attempts: &at, fam });
    } else {
        eprintln!("union-find histories replay by seed only");
    }
}

fn main() {
    let args = Args::parse();
    if args.prop == "NONE" {
        return;
    }
    let mut rep = Reporter::new("C17", args.seed);
    if let Some(case) = args.replay_case() {
        replay(&mut rep, &case);
        rep.finish("replay", false);
        return;
    }
    let mut rng = args.rng();
    let thorough = args.tier == Tier::Thorough;

    // (1) topo_sort: every digraph on <= 4 nodes incl. self-loops (2^16), natural + one shuffled node order
    let max_n = 4;
    for n in 1..=max_n {
        let bits = n * n;
        for mask in 0..(1u64 << bits) {
            let g = G::from_mask(n, mask, true);
            let nat: Vec<usize> = (0..n).collect();
            check_topo(&mut rep, &g, &nat, "topo-exhaustive");
            let mut sh = nat.clone();
            rng.shuffle(&mut sh);
            if sh != nat {
                check_topo(&mut rep, &g, &sh, "topo-exhaustive");
            }
        }
    }
    // 5 nodes: sampled
    let n5 = args.budget(20_000, 400_000, 50);
    for _ in 0..n5 {
        let mask = rng.next_u64() & ((1 << 25) - 1);
        // thin the mask so that acyclic graphs are not vanishingly rare
        let mask = if rng.chance(2, 3) { mask & rng.next_u64() & rng.next_u64() } else { mask };
        let g = G::from_mask(5, mask, true);
        let mut order: Vec<usize> = (0..5).collect();
        rng.shuffle(&mut order);
        check_topo(&mut rep, &g, &order, "topo-5");
    }
    // random larger
    for _ in 0..args.budget(3_000, 60_000, 20) {
        let n = 2 + rng.below(13);
        let (d1, d2) = (10 + rng.below(40) as u32, 3 + rng.below(20) as u32);
        let g = if rng.chance(1, 2) { random_dag(&mut rng, n, d1) } else { random_digraph(&mut rng, n, d2) };
        let mut order: Vec<usize> = (0..n).collect();
        rng.shuffle(&mut order);
        check_topo(&mut rep, &g, &order, "topo-random");
    }

    // (2) validate_topo_sort: every permutation on every loop-free digraph with <= 3 nodes + DAGs on 4
    for n in 1..=4usize {
        let bits = n * (n - 1);
        let perms = permutations(n);
        for mask in 0..(1u64 << bits) {
            let g = G::from_mask(n, mask, false);
            if n == 4 && !g.acyclic() {
                continue;
            }
            for p in &perms {
                check_validate(&mut rep, &g, p);
            }
        }
    }

    // (3) SubgraphMerge: every DAG on <= 4 nodes x every attempt sequence of length <= L over unordered
    //     pairs (+ one aliasing pair) x enemy configurations
    let seq_len = args.budget(3, 4, 1);
    let mut dags = 0u64;
    for n in 1..=4usize {
        let bits = n * (n - 1);
        let mut pairs: Vec<(usize, usize)> = vec![];
        for a in 0..n {
            for b in a + 1..n {
                // orientation alternates so both argument orders are exercised
                if (a + b) % 2 == 0 { pairs.push((a, b)) } else { pairs.push((b, a)) }
            }
        }
        pairs.push((0, 0));
        for mask in 0..(1u64 << bits) {
            let g = G::from_mask(n, mask, false);
            if !g.acyclic() {
                // constructor must report a cycle
                check_merge_case(&mut rep, &MergeCase { g: &g, enemies: &[], attempts: &[], fam: "merge-exhaustive" });
                continue;
            }
            dags += 1;
            let enemy_cfgs: Vec<Vec<(usize, usize)>> = vec![vec![], random_enemies(&mut rng, n, 1), random_enemies(&mut rng, n, 2)];
            for en in &enemy_cfgs {
                if n < 2 && !en.is_empty() {
                    continue;
                }
                // enumerate sequences of exactly seq_len attempts (prefixes are judged step by step)
                let k = pairs.len();
                let total = k.pow(seq_len as u32);
                for code in 0..total {
                    let mut c = code;
                    let mut at = Vec::with_capacity(seq_len);
                    for _ in 0..seq_len {
                        at.push(pairs[c % k]);
                        c /= k;
                    }
                    check_merge_case(&mut rep, &MergeCase { g: &g, enemies: en, attempts: &at, fam: "merge-exhaustive" });
                }
            }
        }
    }
    rep.extra("dags_enumerated", json!(dags));

    // random larger merge histories
    for _ in 0..args.budget(4_000, 100_000, 10) {
        let n = 3 + rng.below(12);
        let dens = 8 + rng.below(35) as u32;
        let g = random_dag(&mut rng, n, dens);
        let ne = rng.below(5);
        let en = random_enemies(&mut rng, n, ne);
        let at: Vec<(usize, usize)> = (0..(5 + rng.below(if thorough { 40 } else { 26 }))).map(|_| (rng.below(n), rng.below(n))).collect();
        check_merge_case(&mut rep, &MergeCase { g: &g, enemies: &en, attempts: &at, fam: "merge-random" });
    }

    // (4) union-find
    for _ in 0..args.budget(3_000, 60_000, 10) {
        let n = 2 + rng.below(10);
        let ops = 3 + rng.below(40);
        check_union_find(&mut rng, &mut rep, n, ops, "unionfind-random");
    }

    rep.require(rep.counter("topo_cycle_len_ge2") > 100 || args.tier == Tier::Miri, "fewer than 100 cyclic graphs with cycle length >= 2 judged");
    rep.require(rep.counter("cases_with_cycle_refusal") > 100 || args.tier == Tier::Miri, "fewer than 100 merge histories with a cycle refusal");
    rep.require(rep.counter("cases_with_enemy_refusal") > 100 || args.tier == Tier::Miri, "fewer than 100 merge histories with an enemy refusal");
    rep.finish(
        "all digraphs on <=4 nodes (topo_sort, with self-loops), sampled 5-node and random <=14-node graphs; every permutation for validate_topo_sort on <=4 nodes; every DAG on <=4 nodes x every try_merge sequence of the tier's length x 3 enemy sets, random <=14-node histories; random union-find histories. Non-trivial = distinct (graph,node order) for topo_sort, distinct merge history with >=1 accepted merge and >=1 refusal, union-find history ending with 1<sets<n",
        true,
    );
}
