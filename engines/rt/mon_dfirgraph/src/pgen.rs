//! Seeded DFIR program generator: builds an operator graph (with loop contexts, references, extra
//! unary unions/tees and deliberately inserted back edges) and renders it to surface syntax in a
//! randomised but equivalent form (chains, named pipelines, link statements, forward references).

use std::collections::{BTreeMap, BTreeSet};

use vcommon::Rng;

#[derive(Clone, Copy, Debug, PartialEq, Eq)]
pub enum In {
    Zero,
    One,
    /// 0 or 1 inputs (null)
    ZeroOrOne,
    Ports(&'static [&'static str]),
    /// any number of inputs >= min, ports elided or numbered
    Var(usize),
}

#[derive(Clone, Copy, Debug, PartialEq, Eq)]
pub enum Out {
    Zero,
    One,
    ZeroOrOne,
    Ports(&'static [&'static str]),
    Var,
    /// partition / demux_enum: named ports invented by the generator
    Named,
}

#[derive(Clone, Copy, Debug)]
pub struct Spec {
    pub name: &'static str,
    pub inn: In,
    pub out: Out,
    /// argument template; `$U` = unique number, `$R` = reference statements (inside a closure body)
    pub args: &'static str,
    /// allowed numbers of persistence lifetimes
    pub pers: &'static [usize],
    /// optional type argument text
    pub ty: &'static str,
}

const fn sp(name: &'static str, inn: In, out: Out, args: &'static str) -> Spec {
    Spec { name, inn, out, args, pers: &[0], ty: "" }
}
const fn spp(name: &'static str, inn: In, out: Out, args: &'static str, pers: &'static [usize]) -> Spec {
    Spec { name, inn, out, args, pers, ty: "" }
}
const fn src(name: &'static str, args: &'static str) -> Spec {
    Spec { name, inn: In::Zero, out: Out::One, args, pers: &[0], ty: "" }
}

const P01: &[&str] = &["0", "1"];
const PPN: &[&str] = &["pos", "neg"];

/// The operator catalogue the generator draws from.
pub const CATALOGUE: &[Spec] = &[
    // sources
    src("source_iter", "0..$U"),
    src("source_stream", "recv_$U"),
    src("source_stdin", ""),
    src("source_interval", "std::time::Duration::from_secs($U)"),
    src("source_json", "\"in_$U.json\""),
    src("source_file", "\"in_$U.txt\""),
    src("source_stream_serde", "recv_$U"),
    src("spin", ""),
    sp("initialize", In::Zero, Out::One, ""),
    // unary
    sp("map", In::One, Out::One, "|x| { $R x + $U }"),
    sp("filter", In::One, Out::One, "|x| { $R *x != $U }"),
    sp("filter_map", In::One, Out::One, "|x| { $R Some(x + $U) }"),
    sp("flat_map", In::One, Out::One, "|x| { $R [x, $U] }"),
    sp("flatten", In::One, Out::One, ""),
    sp("inspect", In::One, Out::ZeroOrOne, "|x| { $R println!(\"{} {:?}\", $U, x) }"),
    Spec { name: "identity", inn: In::One, out: Out::One, args: "", pers: &[0], ty: "usize" },
    spp("enumerate", In::One, Out::One, "", &[0, 1]),
    spp("unique", In::One, Out::One, "", &[0, 1]),
    sp("sort", In::One, Out::One, ""),
    sp("sort_by_key", In::One, Out::One, "|x| { $R (x, $U) }"),
    spp("persist", In::One, Out::One, "", &[1]),
    spp("fold", In::One, Out::ZeroOrOne, "|| $U, |a, x| { $R *a += x }", &[0, 1]),
    spp("fold_no_replay", In::One, Out::ZeroOrOne, "|| $U, |a, x| { $R *a += x }", &[0, 1]),
    spp("reduce", In::One, Out::ZeroOrOne, "|a, x| { $R *a += x + $U }", &[0, 1]),
    spp("reduce_no_replay", In::One, Out::ZeroOrOne, "|a, x| { $R *a += x + $U }", &[0, 1]),
    spp("fold_keyed", In::One, Out::One, "|| $U, |a, x| { $R *a += x }", &[0, 1]),
    spp("reduce_keyed", In::One, Out::One, "|a, x| { $R *a += x + $U }", &[0, 1]),
    spp("scan", In::One, Out::One, "|| $U, |a, x| { $R *a += x; Some(*a) }", &[0, 1]),
    sp("multiset_delta", In::One, Out::One, ""),
    spp("lattice_fold", In::One, Out::One, "lattices::Max::<usize>::default", &[0, 1]),
    spp("lattice_reduce", In::One, Out::One, "", &[0, 1]),
    sp("assert", In::One, Out::ZeroOrOne, "|x| { $R *x != $U }"),
    sp("assert_eq", In::One, Out::ZeroOrOne, "[$U, 1]"),
    sp("resolve_futures", In::One, Out::One, ""),
    sp("resolve_futures_ordered", In::One, Out::One, ""),
    sp("resolve_futures_blocking", In::One, Out::One, ""),
    sp("resolve_futures_blocking_ordered", In::One, Out::One, ""),
    sp("null", In::ZeroOrOne, Out::ZeroOrOne, ""),
    sp("defer_tick", In::One, Out::One, ""),
    sp("defer_tick_lazy", In::One, Out::One, ""),
    // sinks
    sp("for_each", In::One, Out::Zero, "|x| { $R println!(\"{} {:?}\", $U, x) }"),
    sp("dest_sink", In::One, Out::Zero, "sink_$U"),
    sp("dest_file", In::One, Out::Zero, "\"out_$U.txt\", true"),
    // n-ary
    sp("union", In::Var(0), Out::One, ""),
    sp("chain", In::Ports(P01), Out::One, ""),
    sp("chain_first_n", In::Var(2), Out::One, "$U"),
    spp("join", In::Ports(P01), Out::One, "", &[0, 1, 2]),
    spp("join_multiset", In::Ports(P01), Out::One, "", &[0, 1, 2]),
    spp("join_fused", In::Ports(P01), Out::One, "Reduce(|a, b| { $R *a += b + $U }), Fold(|| $U, |a, b| *a += b)", &[0, 1, 2]),
    spp("join_fused_lhs", In::Ports(P01), Out::One, "Fold(|| $U, |a, b| { $R *a += b })", &[0, 1, 2]),
    spp("join_fused_rhs", In::Ports(P01), Out::One, "Reduce(|a, b| { $R *a += b + $U })", &[0, 1, 2]),
    spp("join_multiset_half", In::Ports(&["build", "probe"]), Out::One, "", &[0, 1, 2]),
    spp("cross_join", In::Ports(P01), Out::One, "", &[0, 1, 2]),
    spp("cross_join_multiset", In::Ports(P01), Out::One, "", &[0, 1, 2]),
    spp("anti_join", In::Ports(PPN), Out::One, "", &[0, 1, 2]),
    spp("difference", In::Ports(PPN), Out::One, "", &[0, 1, 2]),
    spp("cross_singleton", In::Ports(&["input", "single"]), Out::One, "", &[0, 1]),
    spp("zip", In::Ports(P01), Out::One, "", &[0, 1, 2]),
    spp("zip_longest", In::Ports(P01), Out::One, "", &[0, 1]),
    sp("defer_signal", In::Ports(&["input", "signal"]), Out::One, ""),
    // fan-out
    sp("tee", In::One, Out::Var, ""),
    sp("unzip", In::One, Out::Ports(P01), ""),
    sp("partition", In::One, Out::Named, ""),
    sp("demux_enum", In::One, Out::Named, ""),
    Spec { name: "state", inn: In::One, out: Out::Ports(&["items", "state"]), args: "", pers: &[0, 1], ty: "lattices::Max<usize>" },
    Spec { name: "state_by", inn: In::One, out: Out::Ports(&["items", "state"]), args: "|x| { $R x }, lattices::Max::<usize>::default", pers: &[0, 1], ty: "" },
    // loop windowing (inserted where an edge crosses a loop boundary)
    sp("batch", In::One, Out::One, ""),
    sp("batch_lazy", In::One, Out::One, ""),
    sp("all_iterations", In::One, Out::One, ""),
    // pseudo-operators lowered to handoffs
    sp("handoff", In::One, Out::ZeroOrOne, ""),
    sp("singleton", In::One, Out::ZeroOrOne, ""),
    sp("optional", In::One, Out::ZeroOrOne, ""),
];

pub fn spec(name: &str) -> &'static Spec {
    CATALOGUE.iter().find(|s| s.name == name).unwrap_or_else(|| panic!("no spec {name}"))
}

#[derive(Clone, Debug)]
struct N {
    spec: &'static Spec,
    /// rendered operator text with `$R` still in place
    text: String,
    lp: usize,
    refs: Vec<String>,
}

#[derive(Clone, Debug)]
struct E {
    s: usize,
    sp: Option<String>,
    d: usize,
    dp: Option<String>,
}

#[derive(Clone, Debug)]
struct OutEnd {
    node: usize,
    port: Option<String>,
}

#[derive(Clone, Debug, Default)]
pub struct Meta {
    pub ops: BTreeSet<&'static str>,
    pub n_ops: usize,
    pub n_loops: usize,
    pub max_depth: usize,
    pub n_refs: usize,
    pub n_ref_targets: usize,
    pub n_delays: usize,
    pub back_edges: usize,
    pub unary_union_tee: usize,
    pub same_op_two_groups: bool,
}

pub struct Prog {
    pub text: String,
    pub meta: Meta,
}

struct G {
    nodes: Vec<N>,
    edges: Vec<E>,
    /// parent of each loop; index 0 is the root context (its own parent)
    loops: Vec<usize>,
    uniq: usize,
    open: Vec<OutEnd>,
    ref_targets: Vec<usize>,
}

impl G {
    fn depth(&self, l: usize) -> usize {
        let mut d = 0;
        let mut c = l;
        while c != 0 {
            c = self.loops[c];
            d += 1;
        }
        d
    }
    fn path_up(&self, l: usize) -> Vec<usize> {
        let mut v = vec![l];
        let mut c = l;
        while c != 0 {
            c = self.loops[c];
            v.push(c);
        }
        v
    }
    fn add(&mut self, rng: &mut Rng, name: &'static str, lp: usize) -> usize {
        let s = spec(name);
        self.uniq += 1;
        let mut generics: Vec<String> = vec![];
        let np = *rng.choose(s.pers);
        for i in 0..np {
            let _ = i;
            generics.push(if name == "persist" || rng.chance(1, 2) { "'static".into() } else { "'tick".into() });
        }
        if !s.ty.is_empty() && (name == "state" && np > 0 || rng.chance(1, 3)) {
            generics.push(s.ty.to_string());
        }
        let mut text = String::from(name);
        if name == "demux_enum" {
            text.push_str(&format!("::<Shape{}>", self.uniq));
        } else if !generics.is_empty() {
            text.push_str(&format!("::<{}>", generics.join(", ")));
        }
        let args = s.args.replace("$U", &format!("{}", self.uniq % 89 + 2));
        text.push_str(&format!("({args})"));
        self.nodes.push(N { spec: s, text, lp, refs: vec![] });
        self.nodes.len() - 1
    }
    fn connect(&mut self, o: &OutEnd, d: usize, dp: Option<String>) {
        self.edges.push(E { s: o.node, sp: o.port.clone(), d, dp });
    }
    /// Carry an open output across loop boundaries into loop `t`, inserting windowing operators.
    fn bring(&mut self, rng: &mut Rng, o: OutEnd, t: usize) -> OutEnd {
        let mut cur = o;
        let from = self.nodes[cur.node].lp;
        if from == t {
            return cur;
        }
        let up_from = self.path_up(from);
        let up_to = self.path_up(t);
        let lca = *up_from.iter().find(|l| up_to.contains(l)).unwrap();
        // up: leave loops through all_iterations() placed in the parent
        let mut l = from;
        while l != lca {
            let parent = self.loops[l];
            let n = self.add(rng, "all_iterations", parent);
            self.connect(&cur, n, None);
            cur = OutEnd { node: n, port: None };
            l = parent;
        }
        // down: enter loops through batch()/batch_lazy() placed inside the child
        let down: Vec<usize> = up_to.iter().copied().take_while(|x| *x != lca).collect();
        for &child in down.iter().rev() {
            let w = if rng.chance(1, 4) { "batch_lazy" } else { "batch" };
            let n = self.add(rng, w, child);
            self.connect(&cur, n, None);
            cur = OutEnd { node: n, port: None };
        }
        cur
    }
    fn take_open(&mut self, rng: &mut Rng) -> Option<OutEnd> {
        if self.open.is_empty() {
            return None;
        }
        let i = rng.below(self.open.len());
        Some(self.open.swap_remove(i))
    }
    /// Pick an open output, preferring one already in loop `t`.
    fn take_open_near(&mut self, rng: &mut Rng, t: usize) -> Option<OutEnd> {
        let same: Vec<usize> = (0..self.open.len()).filter(|&i| self.nodes[self.open[i].node].lp == t).collect();
        if !same.is_empty() && rng.chance(3, 4) {
            let i = *rng.choose(&same);
            return Some(self.open.swap_remove(i));
        }
        self.take_open(rng)
    }
    fn new_source(&mut self, rng: &mut Rng) -> OutEnd {
        const S: &[&str] = &["source_iter", "source_iter", "source_iter", "source_stream", "source_stdin", "source_interval", "source_json", "source_file", "source_stream_serde", "spin", "initialize"];
        let w = *rng.choose(S);
        let n = self.add(rng, w, 0);
        OutEnd { node: n, port: None }
    }
    fn pick_loop(&self, rng: &mut Rng, near: usize) -> usize {
        if self.loops.len() == 1 || rng.chance(3, 5) {
            return near;
        }
        // a neighbour (parent or child) or any loop
        let mut c: Vec<usize> = (1..self.loops.len()).filter(|&l| self.loops[l] == near).collect();
        if near != 0 {
            c.push(self.loops[near]);
        }
        if c.is_empty() || rng.chance(1, 5) {
            return rng.below(self.loops.len());
        }
        *rng.choose(&c)
    }
    fn ancestors(&self, n: usize) -> BTreeSet<usize> {
        let mut seen = BTreeSet::new();
        let mut st = vec![n];
        while let Some(x) = st.pop() {
            for e in &self.edges {
                if e.d == x && seen.insert(e.s) {
                    st.push(e.s);
                }
            }
        }
        seen
    }
}

const UNARY: &[&str] = &[
    "map", "map", "map", "filter", "filter_map", "flat_map", "flatten", "inspect", "identity", "enumerate", "unique", "sort", "sort_by_key", "persist", "fold", "fold_no_replay",
    "reduce", "reduce_no_replay", "fold_keyed", "reduce_keyed", "scan", "multiset_delta", "lattice_fold", "lattice_reduce", "assert", "assert_eq", "resolve_futures",
    "resolve_futures_ordered", "resolve_futures_blocking", "resolve_futures_blocking_ordered", "null", "defer_tick", "defer_tick_lazy",
];
const NARY: &[&str] = &[
    "union", "union", "chain", "chain_first_n", "join", "join", "join_multiset", "join_fused", "join_fused_lhs", "join_fused_rhs", "join_multiset_half", "cross_join",
    "cross_join_multiset", "anti_join", "difference", "cross_singleton", "zip", "zip_longest", "defer_signal",
];
const FAN: &[&str] = &["tee", "tee", "tee", "unzip", "partition", "demux_enum", "state", "state_by"];
const SINK: &[&str] = &["for_each", "for_each", "dest_sink", "dest_file", "null", "fold", "reduce", "inspect", "assert", "tee"];
const PSEUDO: &[&str] = &["handoff", "singleton", "singleton", "optional"];
const REF_CARRIERS: &[&str] = &[
    "map", "filter", "filter_map", "flat_map", "inspect", "sort_by_key", "fold", "fold_no_replay", "reduce", "reduce_no_replay", "fold_keyed", "reduce_keyed", "scan", "assert",
    "for_each", "join_fused", "join_fused_lhs", "join_fused_rhs", "state_by",
];

fn add_consumer(g: &mut G, rng: &mut Rng, name: &'static str, lp: usize, inputs: Vec<OutEnd>) -> usize {
    let n = g.add(rng, name, lp);
    let s = g.nodes[n].spec;
    let k = inputs.len();
    for (i, o) in inputs.into_iter().enumerate() {
        let o = g.bring(rng, o, lp);
        let dp = match s.inn {
            In::Ports(p) => Some(p[i].to_string()),
            In::Var(_) => {
                if k > 1 && rng.chance(1, 3) || k == 1 && rng.chance(1, 6) {
                    Some(i.to_string())
                } else {
                    None
                }
            }
            _ => None,
        };
        g.connect(&o, n, dp);
    }
    // numbered variadic ports must be all-or-none to be unambiguous: normalise
    if let In::Var(_) = s.inn {
        let idx: Vec<usize> = (0..g.edges.len()).filter(|&i| g.edges[i].d == n).collect();
        let any = idx.iter().any(|&i| g.edges[i].dp.is_some());
        if any {
            for (j, &i) in idx.iter().enumerate() {
                g.edges[i].dp = Some(j.to_string());
            }
        }
    }
    n
}

fn open_outputs(g: &mut G, rng: &mut Rng, n: usize) {
    let s = g.nodes[n].spec;
    match s.out {
        Out::Zero => {}
        Out::One => g.open.push(OutEnd { node: n, port: None }),
        Out::ZeroOrOne => {
            if rng.chance(2, 3) {
                g.open.push(OutEnd { node: n, port: None })
            }
        }
        Out::Ports(p) => {
            for x in p {
                g.open.push(OutEnd { node: n, port: Some(x.to_string()) })
            }
        }
        Out::Var => {
            let k = [1, 2, 2, 2, 3, 3, 0][rng.below(7)];
            let numbered = rng.chance(1, 4);
            for i in 0..k {
                g.open.push(OutEnd { node: n, port: if numbered { Some(i.to_string()) } else { None } })
            }
        }
        Out::Named => {
            let k = 2 + rng.below(2);
            if s.name == "partition" && rng.chance(1, 2) {
                g.nodes[n].text = format!("partition(|x, n| x % n)");
                for i in 0..k {
                    g.open.push(OutEnd { node: n, port: Some(i.to_string()) })
                }
            } else {
                let names: Vec<String> = (0..k).map(|i| format!("{}{}", ["Aa", "Bb", "Cc"][i], n)).collect();
                if s.name == "partition" {
                    g.nodes[n].text = format!("partition(|x, [{}]| {})", names.join(", "), names[0]);
                }
                for nm in names {
                    g.open.push(OutEnd { node: n, port: Some(nm) })
                }
            }
        }
    }
}

fn build_graph(rng: &mut Rng, meta: &mut Meta) -> G {
    let mut g = G { nodes: vec![], edges: vec![], loops: vec![0], uniq: rng.below(50), open: vec![], ref_targets: vec![] };
    // loop tree
    if rng.chance(1, 2) {
        let nl = 1 + rng.below(4);
        for _ in 0..nl {
            let parent = if rng.chance(1, 2) { g.loops.len() - 1 } else { rng.below(g.loops.len()) };
            if g.depth(parent) < 3 {
                g.loops.push(parent);
            } else {
                g.loops.push(0);
            }
        }
    }
    let span = if rng.chance(1, 5) { 28 } else { 12 };
    let target = 2 + rng.below(span);
    let mut guard = 0;
    while g.nodes.len() < target && guard < 200 {
        guard += 1;
        let w = rng.below(100);
        if g.open.is_empty() || w < 10 {
            let o = g.new_source(rng);
            g.open.push(o);
        } else if w < 50 {
            // unary
            let o = g.take_open(rng).unwrap();
            let lp = g.pick_loop(rng, g.nodes[o.node].lp);
            let name = *rng.choose(UNARY);
            let n = add_consumer(&mut g, rng, name, lp, vec![o]);
            open_outputs(&mut g, rng, n);
        } else if w < 68 {
            // n-ary
            let name = *rng.choose(NARY);
            let s = spec(name);
            let k = match s.inn {
                In::Ports(p) => p.len(),
                In::Var(min) => (min + rng.below(3)).max(if rng.chance(1, 8) { 0 } else { 1 }),
                _ => 1,
            };
            let first = g.take_open(rng);
            let lp = match &first {
                Some(o) => g.pick_loop(rng, g.nodes[o.node].lp),
                None => 0,
            };
            let mut ins = vec![];
            if let Some(o) = first {
                if k > 0 {
                    ins.push(o)
                } else {
                    g.open.push(o)
                }
            }
            while ins.len() < k {
                match g.take_open_near(rng, lp) {
                    Some(o) if rng.chance(4, 5) => ins.push(o),
                    other => {
                        if let Some(o) = other {
                            g.open.push(o);
                        }
                        let o = g.new_source(rng);
                        ins.push(o)
                    }
                }
            }
            rng.shuffle(&mut ins);
            let n = add_consumer(&mut g, rng, name, lp, ins);
            open_outputs(&mut g, rng, n);
        } else if w < 80 {
            let o = g.take_open(rng).unwrap();
            let lp = g.pick_loop(rng, g.nodes[o.node].lp);
            let name = *rng.choose(FAN);
            let n = add_consumer(&mut g, rng, name, lp, vec![o]);
            open_outputs(&mut g, rng, n);
        } else if w < 90 {
            let o = g.take_open(rng).unwrap();
            let lp = g.pick_loop(rng, g.nodes[o.node].lp);
            let name = *rng.choose(PSEUDO);
            let n = add_consumer(&mut g, rng, name, lp, vec![o]);
            g.ref_targets.push(n);
            open_outputs(&mut g, rng, n);
        } else {
            let o = g.take_open(rng).unwrap();
            let lp = g.nodes[o.node].lp;
            let name = *rng.choose(SINK);
            let n = add_consumer(&mut g, rng, name, lp, vec![o]);
            if name == "tee" {
                // a tee with no outputs is a (warned-about) sink
            } else if g.nodes[n].spec.out == Out::ZeroOrOne {
                // stays a sink
            }
        }
    }
    // close every open output with a sink in its own loop
    while let Some(o) = g.take_open(rng) {
        let lp = g.nodes[o.node].lp;
        let name = *rng.choose(&SINK[..5]);
        add_consumer(&mut g, rng, name, lp, vec![o]);
    }
    let _ = meta;
    g
}

/// Splice a 1-in-1-out operator into edge `ei`; returns the new node.
fn splice(g: &mut G, rng: &mut Rng, ei: usize, name: &'static str, keep_port_on_new: bool) -> usize {
    let e = g.edges[ei].clone();
    let lp = g.nodes[e.s].lp;
    let n = g.add(rng, name, lp);
    g.edges[ei] = E { s: e.s, sp: e.sp.clone(), d: n, dp: if keep_port_on_new { Some("0".into()) } else { None } };
    g.edges.push(E { s: n, sp: None, d: e.d, dp: e.dp });
    n
}

fn add_extras(g: &mut G, rng: &mut Rng, meta: &mut Meta) {
    // (1) unary unions / tees on random edges (what eliminate_extra_unions_tees removes)
    if !g.edges.is_empty() && rng.chance(1, 2) {
        let k = 1 + rng.below(3);
        for _ in 0..k {
            let ei = rng.below(g.edges.len());
            let name = if rng.chance(1, 2) { "union" } else { "tee" };
            let port = name == "union" && rng.chance(1, 3);
            splice(g, rng, ei, name, port);
            meta.unary_union_tee += 1;
        }
    }
    // (2) extra edges, many of them backwards (cycles), with or without a delay on the way
    if !g.edges.is_empty() && rng.chance(3, 5) {
        let k = 1 + rng.below(2);
        for _ in 0..k {
            let ea = rng.below(g.edges.len());
            let from_node = g.edges[ea].s;
            // where to re-enter: prefer an edge upstream of `from_node` (creates a cycle)
            let anc = g.ancestors(from_node);
            let up_edges: Vec<usize> = (0..g.edges.len()).filter(|&i| i != ea && (anc.contains(&g.edges[i].d) || g.edges[i].d == from_node)).collect();
            let eb = if !up_edges.is_empty() && rng.chance(7, 10) { *rng.choose(&up_edges) } else { rng.below(g.edges.len()) };
            if eb == ea {
                continue;
            }
            // a crossing edge's destination is a windowing op: splice on the source side's loop in both cases
            let t = splice(g, rng, ea, "tee", false);
            let m = splice(g, rng, eb, "union", false);
            let mut cur = OutEnd { node: t, port: None };
            let delay = rng.chance(1, 2);
            let lazy = rng.chance(1, 3);
            let delay_first = rng.chance(1, 2);
            let target_loop = g.nodes[m].lp;
            let add_delay = |g: &mut G, rng: &mut Rng, cur: OutEnd, lp: usize| -> OutEnd {
                let n = add_consumer(g, rng, if lazy { "defer_tick_lazy" } else { "defer_tick" }, lp, vec![cur]);
                OutEnd { node: n, port: None }
            };
            if delay && delay_first {
                let lp = g.nodes[cur.node].lp;
                cur = add_delay(g, rng, cur, lp);
            }
            if rng.chance(1, 2) {
                let lp = g.nodes[cur.node].lp;
                let n = add_consumer(g, rng, "map", lp, vec![cur]);
                cur = OutEnd { node: n, port: None };
            }
            cur = g.bring(rng, cur, target_loop);
            if delay && !delay_first {
                cur = add_delay(g, rng, cur, target_loop);
            }
            g.connect(&cur, m, None);
            meta.back_edges += 1;
        }
    }
    // (3) references to handoff()/singleton()/optional() pseudo-operators
    let carriers: Vec<usize> = (0..g.nodes.len()).filter(|&i| REF_CARRIERS.contains(&g.nodes[i].spec.name)).collect();
    if !g.ref_targets.is_empty() && !carriers.is_empty() {
        let targets = g.ref_targets.clone();
        for t in targets {
            if !rng.chance(3, 4) {
                continue;
            }
            let name = format!("v{t}");
            // mostly pick referencers that are not upstream of the handoff (those close a same-tick cycle)
            let anc = g.ancestors(t);
            let downstream: Vec<usize> = carriers.iter().copied().filter(|c| !anc.contains(c)).collect();
            let all_carriers = carriers.clone();
            let carriers: Vec<usize> = if !downstream.is_empty() && rng.chance(4, 5) { downstream } else { all_carriers };
            let mode = rng.below(10);
            if mode < 4 {
                // ungrouped shared references
                for _ in 0..1 + rng.below(3) {
                    let c = *rng.choose(&carriers);
                    g.nodes[c].refs.push(format!("let _ = #{name};"));
                    meta.n_refs += 1;
                }
            } else if mode < 6 {
                let c = *rng.choose(&carriers);
                g.nodes[c].refs.push(format!("let _ = #mut {name};"));
                meta.n_refs += 1;
            } else {
                // explicit access groups; a mutable reference is alone in its group
                let ng = 2 + rng.below(2);
                let base = rng.below(3);
                let mut used: Vec<usize> = vec![];
                for gi in 0..ng {
                    let grp = base + gi * (1 + rng.below(2));
                    if rng.chance(1, 3) {
                        if let Some(c) = pick_distinct(rng, &carriers, &mut used, meta) {
                            g.nodes[c].refs.push(format!("let _ = #{{{grp}}} mut {name};"));
                            meta.n_refs += 1;
                        }
                    } else {
                        for _ in 0..1 + rng.below(2) {
                            if let Some(c) = pick_distinct(rng, &carriers, &mut used, meta) {
                                g.nodes[c].refs.push(format!("let _ = #{{{grp}}} {name};"));
                                meta.n_refs += 1;
                            }
                        }
                    }
                }
            }
        }
    }
}

/// Pick a reference carrier not yet used for this handoff; very rarely pick a used one on purpose (an
/// operator in two access groups of one handoff makes the compiler abort; recorded as `same_op_two_groups`).
fn pick_distinct(rng: &mut Rng, carriers: &[usize], used: &mut Vec<usize>, meta: &mut Meta) -> Option<usize> {
    if !used.is_empty() && rng.chance(1, 150) {
        meta.same_op_two_groups = true;
        return Some(*rng.choose(used));
    }
    let free: Vec<usize> = carriers.iter().copied().filter(|c| !used.contains(c)).collect();
    if free.is_empty() {
        return None;
    }
    let c = *rng.choose(&free);
    used.push(c);
    Some(c)
}

fn port(p: &Option<String>) -> String {
    match p {
        Some(x) => format!("[{x}]"),
        None => String::new(),
    }
}

fn render(g: &G, rng: &mut Rng) -> String {
    let n = g.nodes.len();
    let outdeg: Vec<usize> = (0..n).map(|i| g.edges.iter().filter(|e| e.s == i).count()).collect();
    let indeg: Vec<usize> = (0..n).map(|i| g.edges.iter().filter(|e| e.d == i).count()).collect();
    let is_target = |i: usize| g.ref_targets.contains(&i);
    // inline (chain) edges
    let mut next: Vec<Option<usize>> = vec![None; n]; // edge index of inline out-edge
    let mut prev: Vec<Option<usize>> = vec![None; n];
    for (ei, e) in g.edges.iter().enumerate() {
        let eligible = outdeg[e.s] == 1 && indeg[e.d] == 1 && e.sp.is_none() && e.dp.is_none() && g.nodes[e.s].lp == g.nodes[e.d].lp && e.s != e.d && !is_target(e.s);
        if !eligible || !rng.chance(3, 4) {
            continue;
        }
        // would it close a cycle of inline edges?
        let mut c = e.d;
        let mut cyc = false;
        let mut steps = 0;
        while let Some(ne) = next[c] {
            c = g.edges[ne].d;
            steps += 1;
            if c == e.s || steps > n {
                cyc = true;
                break;
            }
        }
        if cyc {
            continue;
        }
        next[e.s] = Some(ei);
        prev[e.d] = Some(ei);
    }
    let inline: BTreeSet<usize> = next.iter().flatten().copied().collect();
    // chains
    let mut chain_of = vec![usize::MAX; n];
    let mut chains: Vec<Vec<usize>> = vec![];
    for h in 0..n {
        if prev[h].is_some() {
            continue;
        }
        let mut c = vec![h];
        let mut cur = h;
        while let Some(ne) = next[cur] {
            cur = g.edges[ne].d;
            c.push(cur);
        }
        for &x in &c {
            chain_of[x] = chains.len();
        }
        chains.push(c);
    }
    // fold decisions for non-inline edges
    let mut prefix: BTreeMap<usize, usize> = BTreeMap::new(); // chain -> edge
    let mut suffix: BTreeMap<usize, usize> = BTreeMap::new();
    let mut standalone: Vec<usize> = vec![];
    for (ei, e) in g.edges.iter().enumerate() {
        if inline.contains(&ei) {
            continue;
        }
        let (cs, cd) = (chain_of[e.s], chain_of[e.d]);
        let can_prefix = indeg[e.d] == 1 && !prefix.contains_key(&cd) && cs != cd;
        let can_suffix = outdeg[e.s] == 1 && !suffix.contains_key(&cs) && !is_target(e.s) && cs != cd;
        let r = rng.below(10);
        if can_prefix && r < 3 {
            prefix.insert(cd, ei);
        } else if can_suffix && r < 6 {
            suffix.insert(cs, ei);
        } else {
            standalone.push(ei);
        }
    }
    let cname = |c: usize| format!("v{}", chains[c][chains[c].len() - 1]);
    // name: chain is addressed by its tail's index so that `#v<tail>` works for reference targets
    let op_text = |i: usize| g.nodes[i].text.replace("$R", &g.nodes[i].refs.join(" "));
    // statements per loop block
    let mut block_stmts: Vec<Vec<String>> = vec![vec![]; g.loops.len()];
    for (ci, c) in chains.iter().enumerate() {
        let body = c.iter().map(|&i| op_text(i)).collect::<Vec<_>>().join(" -> ");
        let mut s = String::new();
        let mut body = body;
        let has_prefix = prefix.contains_key(&ci);
        let has_suffix = suffix.contains_key(&ci);
        if let Some(&ei) = prefix.get(&ci) {
            let e = &g.edges[ei];
            if e.dp.is_some() {
                body = format!("{}({})", port(&e.dp), body);
            }
            s.push_str(&format!("{}{} -> ", cname(chain_of[e.s]), port(&e.sp)));
        }
        if let Some(&ei) = suffix.get(&ci) {
            let e = &g.edges[ei];
            if e.sp.is_some() {
                body = format!("({}){}", body, port(&e.sp));
            }
            s.push_str(&body);
            s.push_str(&format!(" -> {}{}", port(&e.dp), cname(chain_of[e.d])));
        } else {
            s.push_str(&body);
        }
        let head = c[0];
        let tail = c[c.len() - 1];
        let needs_name = is_target(tail)
            || g.edges.iter().enumerate().any(|(ei, e)| !inline.contains(&ei) && e.d == head && prefix.get(&ci) != Some(&ei))
            || g.edges.iter().enumerate().any(|(ei, e)| !inline.contains(&ei) && e.s == tail && suffix.get(&ci) != Some(&ei));
        let named = needs_name || (!has_prefix && !has_suffix && rng.chance(1, 5));
        let stmt = if named { format!("{} = {};", cname(ci), s) } else { format!("{s};") };
        block_stmts[g.nodes[head].lp].push(stmt);
    }
    for ei in standalone {
        let e = &g.edges[ei];
        let stmt = format!("{}{} -> {}{};", cname(chain_of[e.s]), port(&e.sp), port(&e.dp), cname(chain_of[e.d]));
        // a link statement holds no operators: it may live in any block
        let b = if rng.chance(1, 2) { g.nodes[e.d].lp } else if rng.chance(1, 2) { g.nodes[e.s].lp } else { rng.below(g.loops.len()) };
        block_stmts[b].push(stmt);
    }
    fn emit(g: &G, rng: &mut Rng, l: usize, block_stmts: &mut Vec<Vec<String>>, indent: usize, out: &mut String) {
        let mut items: Vec<(bool, usize, String)> = std::mem::take(&mut block_stmts[l]).into_iter().map(|s| (false, 0, s)).collect();
        for c in 1..g.loops.len() {
            if g.loops[c] == l {
                items.push((true, c, String::new()));
            }
        }
        rng.shuffle(&mut items);
        let pad = "    ".repeat(indent);
        for (is_loop, c, s) in items {
            if is_loop {
                out.push_str(&format!("{pad}loop {{\n"));
                emit(g, rng, c, block_stmts, indent + 1, out);
                out.push_str(&format!("{pad}}};\n"));
            } else {
                out.push_str(&format!("{pad}{s}\n"));
            }
        }
    }
    let mut out = String::new();
    if rng.chance(1, 10) {
        out.push_str("use std::collections::HashSet;\n");
    }
    emit(g, rng, 0, &mut block_stmts, 0, &mut out);
    out
}

/// One random program.
pub fn random_program(rng: &mut Rng) -> Prog {
    let mut meta = Meta::default();
    let mut g = build_graph(rng, &mut meta);
    add_extras(&mut g, rng, &mut meta);
    meta.n_ops = g.nodes.len();
    meta.n_loops = g.loops.len() - 1;
    meta.max_depth = (0..g.loops.len()).map(|l| g.depth(l)).max().unwrap_or(0);
    // only loops that actually contain operators count
    let used_loops: BTreeSet<usize> = g.nodes.iter().map(|n| n.lp).filter(|l| *l != 0).collect();
    meta.n_loops = used_loops.len();
    meta.max_depth = used_loops.iter().map(|&l| g.depth(l)).max().unwrap_or(0);
    meta.n_ref_targets = g.ref_targets.len();
    for n in &g.nodes {
        meta.ops.insert(n.spec.name);
        if n.spec.name.starts_with("defer_tick") {
            meta.n_delays += 1;
        }
    }
    let text = render(&g, rng);
    Prog { text, meta }
}

// ---------------------------------------------------------------------------------------------
// Bounded-exhaustive tiny graphs: <= 4 operators over a 6-operator alphabet, all wirings.

pub const TINY_ALPHABET: &[(&str, &str)] = &[
    ("source_iter", "source_iter(0..1)"),
    ("map", "map(|x| x)"),
    ("union", "union()"),
    ("tee", "tee()"),
    ("defer_tick", "defer_tick()"),
    ("for_each", "for_each(|_| ())"),
];

/// Enumerate every simple digraph (self-loops allowed, no parallel edges) on `k` nodes labelled by the
/// non-decreasing label sequence `labels` that satisfies the operators' arities.
pub fn tiny_text(labels: &[usize], edges: &[(usize, usize)]) -> String {
    let mut text = String::new();
    for (i, l) in labels.iter().enumerate() {
        text.push_str(&format!("n{i} = {};\n", TINY_ALPHABET[*l].1));
    }
    for (s, d) in edges {
        text.push_str(&format!("n{s} -> n{d};\n"));
    }
    text
}

pub fn tiny_enumerate(k: usize, f: &mut dyn FnMut(&[usize], &[(usize, usize)])) {
    let a = TINY_ALPHABET.len();
    let mut labels = vec![0usize; k];
    loop {
        // wirings for this labelling: per node choose its out-targets
        let choices: Vec<Vec<Vec<usize>>> = labels
            .iter()
            .map(|&l| match TINY_ALPHABET[l].0 {
                "for_each" => vec![vec![]],
                "tee" => (0..(1usize << k)).map(|m| (0..k).filter(|j| m >> j & 1 == 1).collect()).collect(),
                _ => (0..k).map(|j| vec![j]).collect(),
            })
            .collect();
        let mut idx = vec![0usize; k];
        'wiring: loop {
            let mut indeg = vec![0usize; k];
            let mut edges = vec![];
            for i in 0..k {
                for &j in &choices[i][idx[i]] {
                    indeg[j] += 1;
                    edges.push((i, j));
                }
            }
            let ok = (0..k).all(|i| match TINY_ALPHABET[labels[i]].0 {
                "source_iter" => indeg[i] == 0,
                "union" => true,
                _ => indeg[i] == 1,
            });
            if ok {
                f(&labels, &edges);
            }
            // next wiring
            let mut p = 0;
            loop {
                if p == k {
                    break 'wiring;
                }
                idx[p] += 1;
                if idx[p] < choices[p].len() {
                    break;
                }
                idx[p] = 0;
                p += 1;
            }
        }
        // next non-decreasing labelling
        let mut p = k;
        loop {
            if p == 0 {
                return;
            }
            p -= 1;
            if labels[p] + 1 < a {
                labels[p] += 1;
                for q in p + 1..k {
                    labels[q] = labels[p];
                }
                break;
            }
        }
    }
}
