//! Independent oracles over abstract graph copies: the C18 well-formedness checker, the C19 dependency
//! digraph + Kahn, the diagnostic-cycle matcher, and the C20 unary union/tee contraction.

use std::collections::{BTreeMap, BTreeSet};

use crate::abs::{AEdge, Abs, Id};

/// The delay an operator declares for (all of) its inputs, from the operator documentation:
/// `defer_tick()` delays by a tick, `defer_tick_lazy()` by a tick without scheduling one.
pub fn declared_delay(op_name: &str) -> Option<&'static str> {
    match op_name {
        "defer_tick" => Some("Tick"),
        "defer_tick_lazy" => Some("TickLazy"),
        _ => None,
    }
}

fn remap_nested(d: &str) -> &'static str {
    match d {
        "Tick" => "Loop",
        "TickLazy" => "LoopLazy",
        "Loop" => "Loop",
        _ => "LoopLazy",
    }
}

pub struct Fail {
    pub kind: &'static str,
    pub msg: String,
}

fn fail(out: &mut Vec<Fail>, kind: &'static str, msg: String) {
    out.push(Fail { kind, msg });
}

/// Colours as reported by `DfirGraph::node_color_map` ("Pull"/"Push"/"Comp"/"Hoff").
pub type Colors = BTreeMap<Id, String>;

pub struct C18Stats {
    pub handoffs: u64,
    pub inserted_handoffs: u64,
    pub delayed_handoffs: u64,
    pub order_constraints: u64,
    pub subgraphs: u64,
    pub loops_checked: u64,
}

/// C18: `f` = flat graph handed to `partition_graph`, `p` = its result.
pub fn check_c18(f: &Abs, p: &Abs, colors: &Colors) -> (Vec<Fail>, C18Stats) {
    let mut out = vec![];
    let mut st = C18Stats { handoffs: 0, inserted_handoffs: 0, delayed_handoffs: 0, order_constraints: 0, subgraphs: 0, loops_checked: 0 };

    // ---- the partitioned graph is the flat graph plus inserted handoffs -------------------------
    for (id, n) in &f.nodes {
        match p.nodes.get(id) {
            None => fail(&mut out, "node-lost", format!("flat node {id} missing after partitioning")),
            Some(pn) => {
                if pn.kind != n.kind || pn.loop_id != n.loop_id || pn.refs != n.refs {
                    fail(&mut out, "node-changed", format!("node {id}: {:?} -> {:?}", n, pn));
                }
            }
        }
    }
    let mut inserted: BTreeSet<Id> = BTreeSet::new();
    for (id, n) in &p.nodes {
        if !f.nodes.contains_key(id) {
            if n.is_hoff() {
                inserted.insert(*id);
            } else {
                fail(&mut out, "node-invented", format!("partitioning added a non-handoff node {id}: {:?}", n.kind));
            }
        }
    }
    st.inserted_handoffs = inserted.len() as u64;
    // contract inserted handoffs and compare wiring
    {
        let mut contracted: Vec<AEdge> = vec![];
        let mut ok = true;
        for (_, e) in &p.edges {
            if inserted.contains(&e.src) {
                continue; // handled from the in-edge side
            }
            if inserted.contains(&e.dst) {
                let outs = p.succs(e.dst);
                let ins = p.preds(e.dst);
                if outs.len() != 1 || ins.len() != 1 {
                    ok = false;
                    continue; // reported by the handoff-degree rule
                }
                if inserted.contains(&outs[0].dst) {
                    ok = false;
                    continue; // reported by adjacency rule
                }
                contracted.push(AEdge { src: e.src, sp: e.sp.clone(), dst: outs[0].dst, dp: outs[0].dp.clone() });
            } else {
                contracted.push(e.clone());
            }
        }
        contracted.sort();
        if ok && contracted != f.sorted_edges() {
            fail(&mut out, "wiring-changed", format!("edges after contracting inserted handoffs {:?} != flat edges {:?}", contracted, f.sorted_edges()));
        }
    }

    // ---- every operator in exactly one subgraph, handoffs in none --------------------------------
    let mut member_of: BTreeMap<Id, Vec<Id>> = BTreeMap::new();
    for (sg, ns) in &p.subgraphs {
        st.subgraphs += 1;
        if ns.is_empty() {
            fail(&mut out, "empty-subgraph", format!("subgraph {sg} is empty"));
        }
        for n in ns {
            member_of.entry(*n).or_default().push(*sg);
        }
    }
    for (id, n) in &p.nodes {
        let m = member_of.get(id).cloned().unwrap_or_default();
        if n.is_op() {
            if m.len() != 1 || n.sg != Some(m[0]) {
                fail(&mut out, "op-not-in-exactly-one-subgraph", format!("operator {id} ({:?}) listed in subgraphs {:?}, node_subgraph = {:?}", n.kind, m, n.sg));
            }
        } else if !m.is_empty() || n.sg.is_some() {
            fail(&mut out, "handoff-in-subgraph", format!("non-operator node {id} is a member of subgraph(s) {:?}/{:?}", m, n.sg));
        }
    }
    for id in member_of.keys() {
        if !p.nodes.contains_key(id) {
            fail(&mut out, "subgraph-names-unknown-node", format!("subgraph lists node {id} which is not in the graph"));
        }
    }
    let sg_of = |n: Id| -> Option<Id> { member_of.get(&n).and_then(|v| v.first().copied()) };

    // ---- one loop context per subgraph --------------------------------------------------------
    let mut sg_loop: BTreeMap<Id, Option<Id>> = BTreeMap::new();
    for (sg, ns) in &p.subgraphs {
        let ls: BTreeSet<Option<Id>> = ns.iter().filter_map(|n| p.nodes.get(n)).map(|n| n.loop_id).collect();
        if ls.len() > 1 {
            fail(&mut out, "subgraph-spans-loops", format!("subgraph {sg} has nodes in loop contexts {:?}", ls));
        }
        sg_loop.insert(*sg, ls.into_iter().next().unwrap_or(None));
    }

    // ---- edges: operator-operator edges stay inside one subgraph; handoff shape ---------------------
    for (_, e) in &p.edges {
        let (s, d) = (p.nodes.get(&e.src), p.nodes.get(&e.dst));
        let (Some(s), Some(d)) = (s, d) else {
            fail(&mut out, "edge-to-unknown-node", format!("edge {:?}", e));
            continue;
        };
        if s.is_hoff() && d.is_hoff() {
            fail(&mut out, "handoff-adjacent", format!("handoff {} feeds handoff {}", e.src, e.dst));
        }
        if s.is_op() && d.is_op() {
            if e.src == e.dst {
                fail(&mut out, "self-loop-without-handoff", format!("operator {} feeds itself directly", e.src));
            } else if sg_of(e.src) != sg_of(e.dst) {
                fail(&mut out, "cross-subgraph-edge-without-handoff", format!("edge {}->{} connects subgraphs {:?} and {:?} without a handoff", e.src, e.dst, sg_of(e.src), sg_of(e.dst)));
            }
        }
    }
    for (id, n) in &p.nodes {
        if !n.is_hoff() {
            continue;
        }
        st.handoffs += 1;
        let (i, o) = (p.preds(*id).len(), p.succs(*id).len());
        let is_new = inserted.contains(id);
        // user-written handoff()/singleton() may have no pipe consumer (reference-only); inserted ones sit on an edge
        if i != 1 || o > 1 || (is_new && o != 1) {
            fail(&mut out, "handoff-degree", format!("handoff {id} (inserted={is_new}) has in-degree {i}, out-degree {o}"));
        }
    }

    // ---- pull-then-push shape of each subgraph --------------------------------------------------
    for (sg, ns) in &p.subgraphs {
        let set: BTreeSet<Id> = ns.iter().copied().collect();
        let internal: Vec<&AEdge> = p.edges.iter().map(|(_, e)| e).filter(|e| set.contains(&e.src) && set.contains(&e.dst)).collect();
        // connected + tree-shaped (a single pipeline, not several, and no diamond)
        if !ns.is_empty() {
            let mut seen: BTreeSet<Id> = BTreeSet::new();
            let mut stack = vec![ns[0]];
            while let Some(x) = stack.pop() {
                if !seen.insert(x) {
                    continue;
                }
                for e in &internal {
                    if e.src == x {
                        stack.push(e.dst);
                    }
                    if e.dst == x {
                        stack.push(e.src);
                    }
                }
            }
            if seen.len() != set.len() {
                fail(&mut out, "subgraph-not-connected", format!("subgraph {sg} {:?} is not one connected pipeline", ns));
            } else if internal.len() + 1 != set.len() {
                fail(&mut out, "subgraph-not-a-tree", format!("subgraph {sg} has {} nodes and {} internal edges", set.len(), internal.len()));
            }
        }
        // colouring: degrees recomputed here; colour taken from node_color_map (what codegen uses)
        for n in ns {
            let (i, o) = (p.preds(*n).len(), p.succs(*n).len());
            match colors.get(n).map(|s| s.as_str()) {
                Some("Pull") => {
                    if o != 1 {
                        fail(&mut out, "pull-op-without-single-output", format!("subgraph {sg}: node {n} is coloured Pull but has {o} outputs"));
                    }
                }
                Some("Push") => {
                    if i != 1 {
                        fail(&mut out, "push-op-without-single-input", format!("subgraph {sg}: node {n} is coloured Push but has {i} inputs"));
                    }
                }
                Some("Comp") => {}
                other => {
                    if !(i == 0 && o == 0) {
                        fail(&mut out, "op-without-colour", format!("subgraph {sg}: node {n} ({i} in, {o} out) has colour {:?}", other));
                    }
                }
            }
        }
        for e in &internal {
            let cs = colors.get(&e.src).map(|s| s.as_str()).unwrap_or("?");
            let cd = colors.get(&e.dst).map(|s| s.as_str()).unwrap_or("?");
            let ok = matches!((cs, cd), ("Pull", "Pull") | ("Pull", "Push") | ("Push", "Push") | ("Pull", "Comp") | ("Comp", "Push"));
            if !ok {
                fail(&mut out, "push-to-pull-edge", format!("subgraph {sg}: edge {}({cs}) -> {}({cd}) is not pull*-push*", e.src, e.dst));
            }
        }
        // the member list is what codegen walks: it must list producers before consumers
        let pos: BTreeMap<Id, usize> = ns.iter().enumerate().map(|(i, n)| (*n, i)).collect();
        for e in &internal {
            if pos[&e.src] >= pos[&e.dst] {
                fail(&mut out, "subgraph-nodes-not-topo-ordered", format!("subgraph {sg} lists {:?}; edge {}->{} goes backwards", ns, e.src, e.dst));
            }
        }
    }

    // ---- delays ------------------------------------------------------------------------------
    let mut expected_delay: BTreeMap<Id, &'static str> = BTreeMap::new();
    for (id, n) in &p.nodes {
        let Some(name) = n.op_name() else { continue };
        let Some(d) = declared_delay(name) else { continue };
        let want = if p.nested(n.loop_id) { remap_nested(d) } else { d };
        for e in p.preds(*id) {
            let src = &p.nodes[&e.src];
            if !src.is_hoff() {
                fail(&mut out, "delayed-input-not-from-handoff", format!("{name} node {id} is fed directly by operator {}", e.src));
                continue;
            }
            if src.delay.as_deref() != Some(want) {
                fail(&mut out, "delay-type-mismatch", format!("{name} node {id} (loop {:?}, nested={}) is fed by handoff {} marked {:?}, expected {want}", n.loop_id, p.nested(n.loop_id), e.src, src.delay));
            }
            expected_delay.insert(e.src, want);
        }
    }
    for (id, n) in &p.nodes {
        if n.delay.is_some() {
            st.delayed_handoffs += 1;
            if !n.is_hoff() {
                fail(&mut out, "delay-on-non-handoff", format!("node {id} carries delay {:?} but is not a handoff", n.delay));
            } else if !expected_delay.contains_key(id) {
                fail(&mut out, "spurious-delay", format!("handoff {id} is marked {:?} but feeds no delayed input", n.delay));
            }
        }
    }

    // ---- subgraph order ------------------------------------------------------------------------
    let mut pos: BTreeMap<Id, usize> = BTreeMap::new();
    let mut perm_ok = p.order.len() == p.subgraphs.len();
    for (i, sg) in p.order.iter().enumerate() {
        if !p.subgraphs.contains_key(sg) || pos.insert(*sg, i).is_some() {
            perm_ok = false;
        }
    }
    if !perm_ok {
        fail(&mut out, "order-not-permutation", format!("order {:?} is not a permutation of subgraphs {:?}", p.order, p.subgraphs.keys().collect::<Vec<_>>()));
        return (out, st);
    }
    // order failures are classified by whether the two operators sit in different loop contexts
    let across = |a: Id, b: Id| -> bool { p.nodes.get(&a).map(|n| n.loop_id) != p.nodes.get(&b).map(|n| n.loop_id) };
    let before = |a: Id, b: Id| -> Option<bool> {
        let (sa, sb) = (sg_of(a)?, sg_of(b)?);
        Some(pos.get(&sa)? < pos.get(&sb)?)
    };
    // (i) non-delay handoffs: producer subgraph strictly before consumer subgraph
    for (id, n) in &p.nodes {
        if !n.is_hoff() || n.delay.is_some() {
            continue;
        }
        for i in p.preds(*id) {
            for o in p.succs(*id) {
                st.order_constraints += 1;
                if before(i.src, o.dst) == Some(false) {
                    fail(&mut out, if across(i.src, o.dst) { "order-handoff-producer-after-consumer|across-loop-boundary" } else { "order-handoff-producer-after-consumer|same-loop-context" }, format!("handoff {id}: producer {} (sg {:?}) does not run before consumer {} (sg {:?}); order {:?}", i.src, sg_of(i.src), o.dst, sg_of(o.dst), p.order));
                }
            }
        }
    }
    // (ii)-(iv) references
    let mut by_target: BTreeMap<Id, Vec<(Option<u32>, Id)>> = BTreeMap::new();
    for (id, n) in &p.nodes {
        for r in &n.refs {
            let Some(t) = r.target else { continue };
            by_target.entry(t).or_default().push((r.group, *id));
            let Some(tn) = p.nodes.get(&t) else {
                fail(&mut out, "ref-to-unknown-node", format!("node {id} references missing node {t}"));
                continue;
            };
            // producer of the referenced handoff runs before the referencing operator
            for i in p.preds(t) {
                st.order_constraints += 1;
                if before(i.src, *id) == Some(false) {
                    fail(&mut out, if across(i.src, *id) { "order-ref-producer-after-consumer|across-loop-boundary" } else { "order-ref-producer-after-consumer|same-loop-context" }, format!("node {id} (sg {:?}, loop {:?}) reads #{t} whose producer {} (sg {:?}) is not ordered before it; order {:?}", sg_of(*id), n.loop_id, i.src, sg_of(i.src), p.order));
                }
            }
            // a borrower runs before the (same-tick) pipe consumer that drains the handoff
            if tn.delay.is_none() {
                for o in p.succs(t) {
                    st.order_constraints += 1;
                    if sg_of(*id).is_some() && sg_of(*id) == sg_of(o.dst) {
                        fail(&mut out, "borrower-shares-subgraph-with-consumer", format!("node {id} borrows #{t} while the handoff's pipe consumer {} sits in the same subgraph {:?} (the consumer drains the handoff when the subgraph starts)", o.dst, sg_of(*id)));
                    } else if before(*id, o.dst) == Some(false) {
                        fail(&mut out, if across(*id, o.dst) { "order-borrower-after-consumer|across-loop-boundary" } else { "order-borrower-after-consumer|same-loop-context" }, format!("node {id} (sg {:?}) borrows #{t} but its consumer {} (sg {:?}) is not ordered after it; order {:?}", sg_of(*id), o.dst, sg_of(o.dst), p.order));
                    }
                }
            }
        }
    }
    for (t, users) in &by_target {
        for (ga, a) in users {
            for (gb, b) in users {
                if ga < gb {
                    st.order_constraints += 1;
                    if before(*a, *b) == Some(false) {
                        fail(&mut out, if across(*a, *b) { "order-access-group|across-loop-boundary" } else { "order-access-group|same-loop-context" }, format!("handoff {t}: access group {:?} user {a} (sg {:?}) does not run before group {:?} user {b} (sg {:?}); order {:?}", ga, sg_of(*a), gb, sg_of(*b), p.order));
                    }
                }
            }
        }
    }
    // (v) each loop's subgraphs (with descendants) are contiguous
    for l in p.loops.keys() {
        let idx: Vec<usize> = p.order.iter().enumerate().filter(|(_, sg)| p.loop_within(sg_loop[sg], *l)).map(|(i, _)| i).collect();
        if idx.is_empty() {
            continue;
        }
        st.loops_checked += 1;
        if idx[idx.len() - 1] - idx[0] + 1 != idx.len() {
            fail(&mut out, "loop-not-contiguous", format!("loop {l}: its subgraphs sit at positions {:?} of order {:?}", idx, p.order));
        }
    }
    (out, st)
}

// ---------------------------------------------------------------------------------------------
// C19

/// Dependency digraph over the flat graph's nodes (edge a -> b: a must run before b in the same tick).
pub struct Deps {
    pub edges: BTreeSet<(Id, Id)>,
    pub n_ref: usize,
    pub n_group: usize,
    pub n_ingress: usize,
    pub n_delayed: usize,
    /// a node that uses the same handoff in two different access groups (depends on itself)
    pub self_group_conflict: bool,
}

pub fn deps(f: &Abs) -> Deps {
    let mut d = Deps { edges: BTreeSet::new(), n_ref: 0, n_group: 0, n_ingress: 0, n_delayed: 0, self_group_conflict: false };
    let delayed_input = |dst: Id| f.nodes.get(&dst).and_then(|n| n.op_name()).and_then(declared_delay).is_some();
    // pipes, minus those into a delayed input
    for (_, e) in &f.edges {
        if delayed_input(e.dst) {
            d.n_delayed += 1;
        } else {
            d.edges.insert((e.src, e.dst));
        }
    }
    // references: referee before referencer; borrower before the referee's pipe consumers
    let mut by_target: BTreeMap<Id, Vec<(Option<u32>, Id)>> = BTreeMap::new();
    for (id, n) in &f.nodes {
        for r in &n.refs {
            let Some(t) = r.target else { continue };
            d.edges.insert((t, *id));
            d.n_ref += 1;
            by_target.entry(t).or_default().push((r.group, *id));
            if f.nodes.get(&t).is_some_and(|x| x.is_hoff()) {
                for o in f.succs(t) {
                    d.edges.insert((*id, o.dst));
                }
            }
        }
    }
    // access groups: lower group before higher group on the same handoff
    for users in by_target.values() {
        for (ga, a) in users {
            for (gb, b) in users {
                if ga < gb {
                    d.edges.insert((*a, *b));
                    d.n_group += 1;
                    if a == b {
                        d.self_group_conflict = true;
                    }
                }
            }
        }
    }
    // loop ingress: a loop block runs atomically, so whoever sends into it runs before all of it
    for (_, e) in &f.edges {
        if delayed_input(e.dst) {
            continue;
        }
        let (ls, ld) = (f.nodes[&e.src].loop_id, f.nodes[&e.dst].loop_id);
        let Some(l) = ld else { continue };
        if ls != ld && !f.loop_within(ls, l) {
            for (id, n) in &f.nodes {
                if f.loop_within(n.loop_id, l) {
                    d.edges.insert((e.src, *id));
                    d.n_ingress += 1;
                }
            }
        }
    }
    d
}

/// Kahn's algorithm: true iff the digraph on `nodes` is acyclic.
pub fn kahn_acyclic(nodes: &BTreeSet<Id>, edges: &BTreeSet<(Id, Id)>) -> bool {
    let mut indeg: BTreeMap<Id, usize> = nodes.iter().map(|n| (*n, 0)).collect();
    for (_, b) in edges {
        *indeg.entry(*b).or_insert(0) += 1;
    }
    let mut q: Vec<Id> = indeg.iter().filter(|(_, d)| **d == 0).map(|(n, _)| *n).collect();
    let mut seen = 0usize;
    while let Some(u) = q.pop() {
        seen += 1;
        for (a, b) in edges.range((u, 0)..=(u, Id::MAX)) {
            debug_assert_eq!(*a, u);
            let e = indeg.get_mut(b).unwrap();
            *e -= 1;
            if *e == 0 {
                q.push(*b);
            }
        }
    }
    seen == indeg.len()
}

/// Parse the `Cycle: ["..", ".."]` tail of the partitioner's diagnostic.
pub fn parse_cycle_labels(msg: &str) -> Option<Vec<String>> {
    let i = msg.find("Cycle: ")?;
    let arr = &msg[i + "Cycle: ".len()..];
    let e: syn::ExprArray = syn::parse_str(arr.trim()).ok()?;
    let mut v = vec![];
    for x in e.elems {
        match x {
            syn::Expr::Lit(syn::ExprLit { lit: syn::Lit::Str(s), .. }) => v.push(s.value()),
            _ => return None,
        }
    }
    Some(v)
}

/// Is there a directed cycle of `edges` (in either orientation, distinct nodes) whose node labels
/// spell `labels`?
pub fn cycle_matches(labels: &[String], node_labels: &BTreeMap<Id, String>, edges: &BTreeSet<(Id, Id)>) -> bool {
    if labels.is_empty() {
        return false;
    }
    let cands: Vec<Vec<Id>> = labels.iter().map(|l| node_labels.iter().filter(|(_, x)| *x == l).map(|(i, _)| *i).collect()).collect();
    if cands.iter().any(|c| c.is_empty()) {
        return false;
    }
    fn rec(i: usize, chosen: &mut Vec<Id>, cands: &[Vec<Id>], edges: &BTreeSet<(Id, Id)>, fwd: bool, steps: &mut usize) -> bool {
        *steps += 1;
        if *steps > 200_000 {
            return false;
        }
        let has = |a: Id, b: Id| if fwd { edges.contains(&(a, b)) } else { edges.contains(&(b, a)) };
        if i == cands.len() {
            return has(chosen[chosen.len() - 1], chosen[0]);
        }
        for &c in &cands[i] {
            if chosen.contains(&c) {
                continue;
            }
            if i > 0 && !has(chosen[i - 1], c) {
                continue;
            }
            chosen.push(c);
            if rec(i + 1, chosen, cands, edges, fwd, steps) {
                return true;
            }
            chosen.pop();
        }
        false
    }
    let mut steps = 0;
    rec(0, &mut vec![], &cands, edges, true, &mut steps) || rec(0, &mut vec![], &cands, edges, false, &mut steps)
}

// ---------------------------------------------------------------------------------------------
// C20 (a): contraction of 1-in-1-out unions and tees on an abstract copy

/// Returns None if the graph contains a cycle made only of unary unions/tees (nothing sensible remains).
pub fn contract_unary_unions_tees(g: &Abs) -> Option<Abs> {
    let mut r = g.clone();
    let unary: Vec<Id> = g
        .nodes
        .iter()
        .filter(|(id, n)| matches!(n.op_name(), Some("union") | Some("tee")) && g.preds(**id).len() == 1 && g.succs(**id).len() == 1)
        .map(|(id, _)| *id)
        .collect();
    for x in unary {
        let ins: Vec<usize> = r.edges.iter().enumerate().filter(|(_, (_, e))| e.dst == x).map(|(i, _)| i).collect();
        let outs: Vec<usize> = r.edges.iter().enumerate().filter(|(_, (_, e))| e.src == x).map(|(i, _)| i).collect();
        if ins.len() != 1 || outs.len() != 1 || ins[0] == outs[0] {
            return None; // self-loop through unary nodes only
        }
        let (ie, oe) = (r.edges[ins[0]].1.clone(), r.edges[outs[0]].1.clone());
        let new = AEdge { src: ie.src, sp: ie.sp, dst: oe.dst, dp: oe.dp };
        let (a, b) = (ins[0].max(outs[0]), ins[0].min(outs[0]));
        r.edges.remove(a);
        r.edges.remove(b);
        r.edges.push((0, new));
        r.nodes.remove(&x);
        for l in r.loops.values_mut() {
            // loop membership lists are compared separately (the real code leaves stale ids there)
            let _ = l;
        }
    }
    Some(r)
}
