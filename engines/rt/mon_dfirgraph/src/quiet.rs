//! Thread-aware quiet `catch_unwind` (vcommon's uses one global flag, which is racy across workers).

use std::cell::Cell;
use std::panic::{AssertUnwindSafe, catch_unwind};

thread_local! {
    static IN_CATCH: Cell<u32> = const { Cell::new(0) };
}

pub fn install() {
    static ONCE: std::sync::Once = std::sync::Once::new();
    ONCE.call_once(|| {
        let prev = std::panic::take_hook();
        std::panic::set_hook(Box::new(move |info| {
            if IN_CATCH.with(|c| c.get()) == 0 {
                prev(info);
            }
        }));
    });
}

/// Run `f`, turning a panic into `Err(message)`.
pub fn catch<T>(f: impl FnOnce() -> T) -> Result<T, String> {
    install();
    IN_CATCH.with(|c| c.set(c.get() + 1));
    let r = catch_unwind(AssertUnwindSafe(f));
    IN_CATCH.with(|c| c.set(c.get() - 1));
    r.map_err(|e| {
        if let Some(s) = e.downcast_ref::<&str>() {
            s.to_string()
        } else if let Some(s) = e.downcast_ref::<String>() {
            s.clone()
        } else {
            "<non-string panic>".to_string()
        }
    })
}
