//! C18, C19, C20 and the DFIR half of C42: the DFIR compiler's graph-level stages
//! (`FlatGraphBuilder` -> `merge_modules` -> `eliminate_extra_unions_tees` -> `partition_graph` -> serde /
//! `as_code`) run as a plain library on generated surface-syntax programs and judged by independent
//! checkers over abstract copies of the graphs.

mod abs;
mod pgen;
mod oracle;
mod pipeline;
mod quiet;

use std::collections::{BTreeMap, BTreeSet};
use std::sync::Mutex;
use std::sync::atomic::{AtomicUsize, Ordering};

use dfir_lang::diagnostic::Diagnostics;
use dfir_lang::graph::ops::{OPERATORS, PortListSpec};
use dfir_lang::graph::{DfirGraph, GraphNode, PortIndexValue};
use dfir_lang::parse::IndexInt;
use proc_macro2::Span;
use quote::ToTokens;
use vcommon::{Args, Reporter, Rng, Tier, Value, hash_of, json};
use quiet::catch;

use abs::{Abs, Id, abstract_graph, kid};
use pgen::{CATALOGUE, Meta};
use oracle::*;
use pipeline::*;

const ENGINE: &str = "mon_dfirgraph";

// ---------------------------------------------------------------------------------------------
// per-thread collector, merged into the Reporter in chunk order (results do not depend on scheduling)

#[derive(Default)]
struct Col {
    evals: u64,
    nontrivial: Vec<u64>,
    counters: BTreeMap<String, u64>,
    violations: Vec<(String, String, Value)>,
    per_sig: BTreeMap<String, u32>,
    samples: Vec<Value>,
    ops_seen: BTreeSet<&'static str>,
}

impl Col {
    fn count(&mut self, k: &str) {
        *self.counters.entry(k.to_string()).or_insert(0) += 1;
    }
    fn count_n(&mut self, k: &str, n: u64) {
        *self.counters.entry(k.to_string()).or_insert(0) += n;
    }
    fn violation(&mut self, sig: &str, what: &str, case: impl FnOnce() -> Value) {
        let n = self.per_sig.entry(sig.to_string()).or_insert(0);
        *n += 1;
        let c = if *n <= 3 { case() } else { Value::Null };
        let w = if *n <= 3 { what.to_string() } else { String::new() };
        self.violations.push((sig.to_string(), w, c));
    }
    fn sample(&mut self, v: impl FnOnce() -> Value) {
        if self.samples.len() < 2 {
            self.samples.push(v());
        }
    }
    fn merge_into(self, rep: &mut Reporter, ops: &mut BTreeSet<&'static str>) {
        rep.evals(self.evals);
        for h in self.nontrivial {
            rep.nontrivial(h);
        }
        for (k, n) in self.counters {
            rep.count_n(&k, n);
        }
        for (sig, what, case) in self.violations {
            rep.violation(&sig, &what, case);
        }
        for s in self.samples {
            rep.sample(|| s);
        }
        ops.extend(self.ops_seen);
    }
}

fn case_json(prop: &str, family: &str, text: &str) -> Value {
    json!({"engine": ENGINE, "prop": prop, "family": family, "program": text})
}

fn first_line(s: &str) -> String {
    s.lines().next().unwrap_or("").chars().take(160).collect()
}

fn colors_of(g: &DfirGraph) -> Colors {
    g.node_color_map().iter().map(|(id, c)| (kid(id), format!("{c:?}"))).collect()
}

fn note_meta(col: &mut Col, m: &Meta) {
    if m.n_loops > 0 {
        col.count("programs_with_loops");
    }
    if m.max_depth >= 2 {
        col.count("programs_with_nested_loops");
    }
    if m.n_refs > 0 {
        col.count("programs_with_references");
    }
    if m.n_delays > 0 {
        col.count("programs_with_delay_ops");
    }
    if m.back_edges > 0 {
        col.count("programs_with_inserted_back_edges");
    }
    if m.unary_union_tee > 0 {
        col.count("programs_with_unary_union_tee");
    }
}

/// Front-end outcomes that are not the subject of the property at hand are only counted.
fn count_front(col: &mut Col, st: &Staged) {
    match st {
        Staged::ParseErr => col.count("gen_parse_error"),
        Staged::BuildPanic => col.count("front_builder_panic"),
        Staged::BuildErr => col.count("front_rejected_by_builder"),
        Staged::MergeErr => col.count("front_merge_modules_error"),
        Staged::ElimPanic => col.count("front_eliminate_panic"),
        Staged::AdjacentHandoffs => col.count("front_adjacent_handoffs"),
        Staged::Partitioned { .. } => col.count("reached_partitioner"),
    }
}

// ---------------------------------------------------------------------------------------------
// C18

fn c18_on(col: &mut Col, prop: &str, family: &str, text: &str, flat: &Abs, g: &DfirGraph, meta: Option<&Meta>) -> bool {
    let pa = abstract_graph(g);
    let colors = colors_of(g);
    let (fails, st) = check_c18(flat, &pa, &colors);
    col.evals += 1 + st.handoffs + st.order_constraints + st.subgraphs + st.loops_checked;
    col.count_n("handoffs_checked", st.handoffs);
    col.count_n("inserted_handoffs", st.inserted_handoffs);
    col.count_n("delayed_handoffs", st.delayed_handoffs);
    col.count_n("order_constraints_checked", st.order_constraints);
    col.count_n("subgraphs_checked", st.subgraphs);
    col.count_n("loops_contiguity_checked", st.loops_checked);
    let loop_marked = pa.nodes.values().filter(|n| n.delay.as_deref().is_some_and(|d| d.starts_with("Loop"))).count();
    if loop_marked > 0 {
        col.count("programs_with_loop_remapped_delay");
    }
    if pa.nodes.values().any(|n| n.is_op() && !n.refs.is_empty() && n.loop_id.is_some()) {
        col.count("accepted_with_reference_from_inside_loop");
    }
    if st.handoffs > 0 || st.subgraphs > 1 {
        col.nontrivial.push(hash_of(&("c18", text)));
    }
    if let Some(m) = meta {
        if m.max_depth >= 2 {
            col.count("accepted_with_nested_loops");
        }
        if m.n_refs > 0 {
            col.count("accepted_with_references");
        }
        for o in &m.ops {
            col.ops_seen.insert(o);
        }
    }
    let mut kinds: BTreeSet<&'static str> = BTreeSet::new();
    for f in &fails {
        if kinds.insert(f.kind) {
            let sig = format!("{prop}|partition_graph|{}", f.kind);
            col.violation(&sig, &f.msg, || case_json(prop, family, text));
        }
    }
    fails.is_empty()
}

fn run_c18(col: &mut Col, family: &str, text: &str, meta: Option<&Meta>) {
    let st = stages(text);
    count_front(col, &st);
    if let Staged::Partitioned { flat, part, .. } = st {
        match part {
            Part::Ok(g) => {
                col.count("accepted");
                c18_on(col, "C18", family, text, &flat, &g, meta);
                col.sample(|| json!({"program": text, "subgraphs": g.subgraph_ids().count(), "order": abstract_graph(&g).order}));
            }
            Part::Err { .. } => col.count("partition_rejected_cycle"),
            Part::Panic(_) => col.count("partition_panic"),
        }
    }
}

// ---------------------------------------------------------------------------------------------
// C19

fn run_c19(col: &mut Col, family: &str, text: &str, meta: Option<&Meta>) {
    let st = stages(text);
    count_front(col, &st);
    let Staged::Partitioned { flat, part, .. } = st else { return };
    let d = deps(&flat);
    let nodes: BTreeSet<Id> = flat.nodes.keys().copied().collect();
    let acyclic = kahn_acyclic(&nodes, &d.edges);
    // the same graph with the delay exemption removed: tells whether a delay operator breaks a cycle here
    let mut with_delayed = d.edges.clone();
    for (_, e) in &flat.edges {
        with_delayed.insert((e.src, e.dst));
    }
    let cyclic_but_for_delay = acyclic && !kahn_acyclic(&nodes, &with_delayed);
    col.evals += 1;
    if !acyclic || cyclic_but_for_delay || d.n_ref > 0 || d.n_ingress > 0 {
        col.nontrivial.push(hash_of(&("c19", text)));
    }
    if !acyclic {
        // which dependency family closes the cycle (for coverage)
        let pipes: BTreeSet<(Id, Id)> = flat.edges.iter().filter(|(_, e)| flat.nodes[&e.dst].op_name().and_then(declared_delay).is_none()).map(|(_, e)| (e.src, e.dst)).collect();
        if !kahn_acyclic(&nodes, &pipes) {
            col.count("cyclic_by_pipes");
        } else if d.self_group_conflict {
            col.count("cyclic_by_same_op_two_groups");
        } else {
            col.count("cyclic_only_with_reference_group_or_ingress_deps");
            let mut no_ingress = deps_without_ingress(&flat);
            no_ingress.extend(pipes.iter().copied());
            if kahn_acyclic(&nodes, &no_ingress) {
                col.count("cyclic_only_with_loop_ingress_deps");
            }
        }
    }
    let case = || case_json("C19", family, text);
    col.sample(|| json!({"program": text, "dependency_graph_acyclic": acyclic, "cycle_broken_only_by_delay": cyclic_but_for_delay, "accepted": matches!(part, Part::Ok(_))}));
    match part {
        Part::Ok(g) => {
            if !acyclic {
                col.violation("C19|partition_graph|ok-on-cyclic", "partition_graph accepted a graph whose same-tick dependency graph is cyclic", case);
            } else {
                col.count("accepted_acyclic");
                if cyclic_but_for_delay {
                    col.count("accepted_delayed_cycle");
                }
            }
            c18_on(col, "C19", family, text, &flat, &g, meta);
        }
        Part::Err { msg, flat: fg } => {
            col.count("rejected");
            if acyclic {
                col.violation("C19|partition_graph|err-on-acyclic", &format!("rejected although the dependency graph is acyclic: {}", first_line(&msg)), case);
            } else {
                col.count("rejected_cyclic");
                match parse_cycle_labels(&msg) {
                    None => col.violation("C19|partition_graph|diagnostic-without-cycle", &format!("cannot read a cycle out of: {}", first_line(&msg)), case),
                    Some(labels) => {
                        col.evals += 1;
                        let nl = labels_of(&fg);
                        if !cycle_matches(&labels, &nl, &d.edges) {
                            col.violation("C19|partition_graph|bogus-cycle", &format!("reported cycle {:?} is not a directed cycle of the dependency graph", labels), case);
                        }
                        col.count_n("reported_cycle_nodes", labels.len() as u64);
                    }
                }
            }
            // documented: the pristine flat graph is handed back
            col.evals += 1;
            if abstract_graph(&fg) != flat {
                col.violation("C19|partition_graph|err-flat-graph-not-pristine", "the flat graph handed back in PartitionError differs from the input", case);
            }
        }
        Part::Panic(p) => {
            col.count("partition_panic");
            let self_delay = flat.edges.iter().any(|(_, e)| e.src == e.dst && flat.nodes[&e.dst].op_name().and_then(declared_delay).is_some());
            let class = if d.self_group_conflict {
                "same-op-in-two-access-groups"
            } else if self_delay {
                "delay-op-feeds-itself"
            } else {
                "other"
            };
            let expect = if acyclic { "acyclic (must be accepted)" } else { "cyclic (must be rejected with a cycle diagnostic)" };
            col.violation(&format!("C19|partition_graph|panic|{class}"), &format!("partition_graph panicked on a graph that is {expect}: {}", first_line(&p)), case);
        }
    }
}

fn labels_of(g: &DfirGraph) -> BTreeMap<Id, String> {
    labels(g)
}

/// Dependencies other than pipes and loop ingress (references, borrower-before-consumer, access groups).
fn deps_without_ingress(f: &Abs) -> BTreeSet<(Id, Id)> {
    let mut g = f.clone();
    g.loops.clear();
    for n in g.nodes.values_mut() {
        n.loop_id = None;
    }
    deps(&g).edges
}

// ---------------------------------------------------------------------------------------------
// C20

fn port_multiset(v: &[String]) -> Vec<String> {
    let mut v = v.to_vec();
    v.sort();
    v
}

/// The cached per-operator port lists must agree with the edges (the graph doc warns about staleness).
fn inst_ports_consistent(a: &Abs) -> Option<String> {
    for (id, n) in &a.nodes {
        if !n.is_op() {
            continue;
        }
        let Some((ip, op)) = &n.inst_ports else {
            return Some(format!("operator {id} has no operator instance"));
        };
        let want_in: Vec<String> = port_multiset(&a.preds(*id).iter().map(|e| e.dp.clone()).collect::<Vec<_>>());
        let want_out: Vec<String> = port_multiset(&a.succs(*id).iter().map(|e| e.sp.clone()).collect::<Vec<_>>());
        if port_multiset(ip) != want_in || port_multiset(op) != want_out {
            return Some(format!("operator {id}: cached ports in={:?} out={:?}, edges say in={:?} out={:?}", ip, op, want_in, want_out));
        }
    }
    None
}

fn loops_restricted(a: &Abs) -> BTreeMap<Id, (Option<Id>, Vec<Id>, Vec<Id>)> {
    a.loops.iter().map(|(l, x)| (*l, (x.parent, x.children.clone(), x.nodes.iter().copied().filter(|n| a.nodes.contains_key(n)).collect()))).collect()
}

fn diff_abs(want: &Abs, got: &Abs) -> Option<String> {
    for (id, n) in &want.nodes {
        match got.nodes.get(id) {
            None => return Some(format!("node {id} ({:?}) is missing", n.kind)),
            Some(m) if m != n => return Some(format!("node {id} changed: {:?} -> {:?}", n, m)),
            _ => {}
        }
    }
    for id in got.nodes.keys() {
        if !want.nodes.contains_key(id) {
            return Some(format!("unexpected node {id} ({:?})", got.nodes[id].kind));
        }
    }
    let (we, ge) = (want.sorted_edges(), got.sorted_edges());
    if we != ge {
        let missing: Vec<_> = we.iter().filter(|e| !ge.contains(e)).collect();
        let extra: Vec<_> = ge.iter().filter(|e| !we.contains(e)).collect();
        return Some(format!("edges differ: missing {:?}, unexpected {:?}", missing, extra));
    }
    if loops_restricted(want) != loops_restricted(got) || want.root_loops != got.root_loops {
        return Some("loop membership differs".to_string());
    }
    None
}

fn run_c20(col: &mut Col, family: &str, text: &str, _meta: Option<&Meta>, salt: u64) {
    let case = || case_json("C20", family, text);
    // ---- (a) eliminate_extra_unions_tees -------------------------------------------------------
    let out = match front(text) {
        Front::ParseErr(_) => return col.count("gen_parse_error"),
        Front::BuildPanic(_) => return col.count("front_builder_panic"),
        Front::BuildErr(_) => return col.count("front_rejected_by_builder"),
        Front::Built(o) => o,
    };
    let mut flat_graph = out.flat_graph;
    let uses = out.uses;
    let built = abstract_graph(&flat_graph);
    if flat_graph.merge_modules().is_err() {
        return col.count("front_merge_modules_error");
    }
    let expected = contract_unary_unions_tees(&built);
    let removed = expected.as_ref().map(|e| built.nodes.len() - e.nodes.len()).unwrap_or(0);
    col.evals += 1;
    let elim = catch(|| dfir_lang::graph::eliminate_extra_unions_tees(&mut flat_graph));
    match (&elim, &expected) {
        (Err(p), None) => {
            col.count("unary_union_tee_cycle");
            col.violation(
                "C20|eliminate_extra_unions_tees|panic|cycle-of-unary-unions-tees",
                &format!("the rewrite panicked on a graph containing a cycle made only of 1-in-1-out unions/tees: {}", first_line(p)),
                case,
            );
            return;
        }
        (Err(p), Some(_)) => {
            col.violation("C20|eliminate_extra_unions_tees|panic", &format!("the rewrite panicked: {}", first_line(p)), case);
            return;
        }
        (Ok(()), None) => {
            col.count("unary_union_tee_cycle");
            return;
        }
        (Ok(()), Some(exp)) => {
            let after = abstract_graph(&flat_graph);
            if removed > 0 {
                col.nontrivial.push(hash_of(&("c20a", text)));
                col.count("elim_programs_with_removed_nodes");
                col.count_n("elim_nodes_removed", removed as u64);
            }
            if let Some(d) = diff_abs(exp, &after) {
                col.violation("C20|eliminate_extra_unions_tees|graph-differs-from-contraction", &d, case);
            } else if let Some(d) = inst_ports_consistent(&after) {
                col.violation("C20|eliminate_extra_unions_tees|stale-operator-instance-ports", &d, case);
            }
        }
    }
    let flat = abstract_graph(&flat_graph);

    // ---- (b) merge_modules on a second build of the same program ---------------------------------
    if let Front::Built(o2) = front(text) {
        let mut g2 = o2.flat_graph;
        let before = abstract_graph(&g2);
        let mut rng = Rng::new(hash_of(text) ^ salt);
        let eids: Vec<_> = g2.edge_ids().collect();
        if !eids.is_empty() {
            let k = 1 + rng.below(3.min(eids.len()));
            let mut chosen = eids.clone();
            rng.shuffle(&mut chosen);
            chosen.truncate(k);
            let input = rng.chance(1, 2);
            let mb = g2.insert_node(GraphNode::ModuleBoundary { input, import_expr: Span::call_site() }, None, None);
            let break_it = rng.chance(1, 6);
            for (i, e) in chosen.iter().enumerate() {
                let (s, d) = g2.edge(*e);
                let (sp, dp) = g2.edge_ports(*e);
                let (sp, dp) = (sp.clone(), dp.clone());
                g2.remove_edge(*e);
                let mk = |i: usize, kind: usize| -> PortIndexValue {
                    match kind {
                        0 => PortIndexValue::Int(IndexInt { value: i as isize, span: Span::call_site() }),
                        1 => PortIndexValue::Path(syn::parse_str(&format!("port_{i}")).unwrap()),
                        _ => PortIndexValue::Elided(None),
                    }
                };
                let kind = if k == 1 { rng.below(3) } else { rng.below(2) };
                g2.insert_edge(s, sp, mb, mk(i, kind));
                // a module whose inner side uses a different port name cannot be stitched
                let inner = if break_it && i == 0 { mk(i + 100, 0) } else { mk(i, kind) };
                g2.insert_edge(mb, inner, d, dp);
            }
            col.evals += 1;
            col.nontrivial.push(hash_of(&("c20b", text, k, break_it)));
            let r = catch(|| g2.merge_modules());
            match r {
                Err(p) => col.violation("C20|merge_modules|panic", &first_line(&p), || json!({"engine": ENGINE, "prop": "C20", "family": family, "program": text, "salt": salt})),
                Ok(Err(d)) => {
                    if break_it {
                        col.count("merge_modules_mismatch_rejected");
                        if !d.message.contains("did not match") {
                            col.violation("C20|merge_modules|mismatch-wrong-diagnostic", &d.message, case);
                        }
                    } else {
                        col.violation("C20|merge_modules|err-on-matching-ports", &d.message, case);
                    }
                }
                Ok(Ok(())) => {
                    if break_it {
                        col.violation("C20|merge_modules|ok-on-mismatched-ports", "module boundary with different port sets on its two sides was stitched", case);
                    } else {
                        col.count("merge_modules_stitched");
                        col.count_n("merge_modules_edges_stitched", k as u64);
                        let after = abstract_graph(&g2);
                        if let Some(d) = diff_abs(&before, &after) {
                            col.violation("C20|merge_modules|graph-differs-after-stitching", &d, case);
                        }
                    }
                }
            }
        }
    }

    // ---- (c) serde round trip of the partitioned graph ---------------------------------------------
    if flat.edges.iter().any(|(_, e)| flat.nodes[&e.src].is_hoff() && flat.nodes[&e.dst].is_hoff()) {
        return col.count("front_adjacent_handoffs");
    }
    let part = match catch(move || dfir_lang::graph::partition_graph(flat_graph)) {
        Ok(Ok(g)) => g,
        Ok(Err(_)) => return col.count("partition_rejected_cycle"),
        Err(_) => return col.count("partition_panic"),
    };
    let pa = abstract_graph(&part);
    col.evals += 1;
    if let Some(d) = inst_ports_consistent(&pa) {
        col.violation("C20|partition_graph|stale-operator-instance-ports", &d, case);
    }
    let js = match serde_json::to_string(&part) {
        Ok(j) => j,
        Err(e) => return col.violation("C20|serde|serialize-failed", &e.to_string(), case),
    };
    let reloaded = catch(|| {
        let mut g: DfirGraph = serde_json::from_str(&js).map_err(|e| e.to_string())?;
        let mut d = Diagnostics::new();
        g.insert_node_op_insts_all(&mut d);
        Ok::<_, String>((g, diag_strings(&d)))
    });
    let (g2, diags) = match reloaded {
        Err(p) => return col.violation("C20|serde|reload-panicked", &first_line(&p), case),
        Ok(Err(e)) => return col.violation("C20|serde|deserialize-failed", &e, case),
        Ok(Ok(x)) => x,
    };
    col.evals += 1;
    col.nontrivial.push(hash_of(&("c20c", text)));
    col.count("serde_round_trips");
    if let Some(m) = _meta {
        for o in &m.ops {
            col.ops_seen.insert(o);
        }
    }
    if !diags.is_empty() {
        col.violation("C20|serde|reload-diagnostics", &format!("insert_node_op_insts_all reported {:?} (Dfir::new asserts none)", diags), case);
    }
    let ra = abstract_graph(&g2);
    // compare everything; the raw (pre-`#`-substitution) argument text is compared separately
    let strip = |a: &Abs| -> Abs {
        let mut a = a.clone();
        for n in a.nodes.values_mut() {
            if let abs::Kind::Op { raw_args, ref_tokens, .. } = &mut n.kind {
                raw_args.clear();
                ref_tokens.clear();
            }
        }
        a
    };
    let (pa_s, ra_s) = (strip(&pa), strip(&ra));
    if let Some(d) = diff_abs(&pa_s, &ra_s) {
        col.violation("C20|serde|graph-differs-after-reload", &d, case);
    } else if pa_s.subgraphs != ra_s.subgraphs {
        col.violation("C20|serde|subgraphs-differ-after-reload", &format!("{:?} vs {:?}", pa_s.subgraphs, ra_s.subgraphs), case);
    } else if pa_s.order != ra_s.order {
        col.violation("C20|serde|order-differs-after-reload", &format!("{:?} vs {:?}", pa_s.order, ra_s.order), case);
    } else if pa_s.loops != ra_s.loops {
        col.violation("C20|serde|loops-differ-after-reload", &format!("{:?} vs {:?}", pa_s.loops, ra_s.loops), case);
    } else if pa_s.edges != ra_s.edges {
        col.violation("C20|serde|edge-ids-or-order-differ-after-reload", "edge list (ids, iteration order) differs", case);
    }
    let has_refs = pa.nodes.values().any(|n| !n.refs.is_empty());
    if has_refs {
        col.count("serde_round_trips_with_references");
    }
    if pa != ra && pa_s == ra_s {
        // only the raw argument text / `#` reference tokens differ
        col.violation(
            "C20|serde|operator-arguments-lose-reference-markers",
            "after the round trip the operators' raw arguments no longer contain the `#var` reference markers (they come back as plain identifiers) and `singletons_referenced` is empty",
            case,
        );
    }
    // what the runtime uses the reloaded graph for: rendering
    col.evals += 1;
    let cfg = Default::default();
    let render = catch(|| (part.to_mermaid(&cfg), g2.to_mermaid(&cfg), part.to_dot(&cfg), g2.to_dot(&cfg)));
    match render {
        Err(p) => col.violation("C20|serde|rendering-panicked", &first_line(&p), case),
        Ok((m1, m2, d1, d2)) => {
            if m1 != m2 || d1 != d2 {
                col.violation("C20|serde|rendering-differs-after-reload", "mermaid/dot of the reloaded graph differs from the original's", case);
            }
        }
    }
    // code generation from the reloaded graph: identical up to source locations (spans are not serialised);
    // skipped when `#` references are present because their markers are lost (reported above)
    if !has_refs {
        let uses_ts = quote::quote! { #( #uses )* };
        let c1 = as_code(&part, uses_ts.clone());
        let c2 = as_code(&g2, uses_ts);
        col.evals += 1;
        let norm = |c: &Code| -> String {
            match c {
                Code::Ok { code, diags } => format!("ok {} {:?}", strip_locs(code), diags),
                Code::Err(d) => format!("err {:?}", d),
                Code::Panic(p) => format!("panic {}", first_line(p)),
            }
        };
        if matches!(c1, Code::Ok { .. }) {
            col.count("as_code_compared_after_reload");
        } else {
            col.count("as_code_not_ok");
        }
        if norm(&c1) != norm(&c2) {
            col.violation("C20|serde|as_code-differs-after-reload", &format!("original: {} ... reloaded: {} ...", norm(&c1).chars().take(120).collect::<String>(), norm(&c2).chars().take(120).collect::<String>()), case);
        }
    }
    col.sample(|| json!({"program": text, "removed_unary": removed, "json_bytes": js.len()}));
}

/// Remove the `loc_nopath_<l>_<c>_<l>_<c>` source-location suffixes from generated identifiers.
fn strip_locs(code: &str) -> String {
    let mut out = String::with_capacity(code.len());
    let mut rest = code;
    while let Some(i) = rest.find("loc_nopath_") {
        out.push_str(&rest[..i]);
        out.push_str("loc");
        let tail = &rest[i + "loc_nopath_".len()..];
        let n = tail.bytes().take_while(|b| b.is_ascii_digit() || *b == b'_').count();
        rest = &tail[n..];
    }
    out.push_str(rest);
    out
}

// ---------------------------------------------------------------------------------------------
// C42 (DFIR half)

#[derive(Clone, Debug, PartialEq, Eq)]
struct Digest {
    class: String,
    graph: u64,
    code: u64,
    diags: u64,
}

fn digest(o: &OneShot) -> Digest {
    Digest { class: o.class.to_string(), graph: hash_of(&o.graph_json), code: hash_of(&o.code), diags: hash_of(&o.diags) }
}

fn c42_in_process(col: &mut Col, family: &str, text: &str) -> Option<Digest> {
    let a = one_shot(text);
    let case = || case_json("C42", family, text);
    col.evals += 1;
    for round in 0..2 {
        // allocate something in between so that later maps/arenas land elsewhere
        let _junk: Vec<Vec<u8>> = (0..(7 + round * 13)).map(|i| vec![0u8; 100 + 37 * i]).collect();
        let b = one_shot(text);
        if a.class != b.class {
            col.violation("C42|dfir|in-process|outcome-differs", &format!("{} vs {}", a.class, b.class), case);
            return None;
        }
        if a.graph_json != b.graph_json {
            col.violation("C42|dfir|in-process|graph-json-differs", "two compilations of the same program in one process gave different partitioned graphs", case);
            return None;
        }
        if a.code != b.code {
            col.violation("C42|dfir|in-process|code-differs", "two compilations of the same program in one process gave different token streams", case);
            return None;
        }
        if a.diags != b.diags {
            col.violation("C42|dfir|in-process|diagnostics-differ", &format!("{:?} vs {:?}", a.diags, b.diags), case);
            return None;
        }
    }
    match a.class {
        "ok" => {
            col.count("compiled_ok");
            col.nontrivial.push(hash_of(&("c42", text)));
        }
        "err" => col.count("compiled_err"),
        "panic" => col.count("compiled_panic"),
        _ => col.count("gen_parse_error"),
    }
    Some(digest(&a))
}

fn c42_child(args: &Args) {
    // perturb the heap layout differently per child
    let mut rng = Rng::new(args.seed);
    let _junk: Vec<Vec<u8>> = (0..rng.below(200)).map(|i| vec![1u8; 64 + rng.below(5000) + i]).collect();
    let path = args.rest.iter().find(|a| !a.starts_with("--")).expect("child: file");
    let texts: Vec<String> = serde_json::from_str(&std::fs::read_to_string(path).expect("child: read")).expect("child: json");
    for (i, t) in texts.iter().enumerate() {
        let d = digest(&one_shot(t));
        println!("{}", json!({"i": i, "class": d.class, "graph": d.graph, "code": d.code, "diags": d.diags}));
    }
}

fn run_c42(args: &Args, rep: &mut Reporter) {
    let n = args.budget(300, 5000, 20);
    let base = args.rng();
    let mut texts: Vec<(String, Meta)> = vec![];
    for i in 0..n {
        let mut r = base.fork(0xC42 + i as u64);
        let p = pgen::random_program(&mut r);
        texts.push((p.text, p.meta));
    }
    let mut ops = BTreeSet::new();
    let mut col = Col::default();
    let mut digests: Vec<Option<Digest>> = vec![];
    for (t, m) in &texts {
        note_meta(&mut col, m);
        let d = c42_in_process(&mut col, "random", t);
        if d.as_ref().is_some_and(|d| d.class == "ok") {
            for o in &m.ops {
                col.ops_seen.insert(o);
            }
            if m.n_loops >= 2 {
                col.count("compiled_ok_with_two_or_more_loops");
            }
        }
        digests.push(d);
    }
    // separate processes, 3 per batch
    let exe = std::env::current_exe().expect("current_exe");
    let batch = 500usize;
    let mut child_checked = 0u64;
    for (bi, chunk) in texts.chunks(batch).enumerate() {
        let file = std::env::temp_dir().join(format!("dfirgraph-c42-{}-{}.json", std::process::id(), bi));
        let list: Vec<&String> = chunk.iter().map(|(t, _)| t).collect();
        std::fs::write(&file, serde_json::to_string(&list).unwrap()).expect("write batch");
        let kids: Vec<_> = (0..3)
            .map(|k| {
                std::process::Command::new(&exe)
                    .args(["--prop", "C42CHILD", "--seed", &format!("{}", args.seed * 31 + k + 1)])
                    .arg(&file)
                    .stdout(std::process::Stdio::piped())
                    .stderr(std::process::Stdio::null())
                    .spawn()
                    .expect("spawn child")
            })
            .collect();
        for (k, kid) in kids.into_iter().enumerate() {
            let out = kid.wait_with_output().expect("child output");
            let mut seen = 0usize;
            for line in String::from_utf8_lossy(&out.stdout).lines() {
                let Ok(v) = serde_json::from_str::<Value>(line) else { continue };
                let i = v["i"].as_u64().unwrap() as usize;
                seen += 1;
                let gi = bi * batch + i;
                let Some(mine) = &digests[gi] else { continue };
                let theirs = Digest { class: v["class"].as_str().unwrap().to_string(), graph: v["graph"].as_u64().unwrap(), code: v["code"].as_u64().unwrap(), diags: v["diags"].as_u64().unwrap() };
                col.evals += 1;
                child_checked += 1;
                let text = &texts[gi].0;
                let case = || case_json("C42", "random", text);
                if k == 0 {
                    col.sample(|| json!({"program": text, "outcome_class": mine.class, "graph_json_hash": mine.graph, "code_hash": mine.code, "compared": "3 in-process builds + 3 child processes"}));
                }
                if mine.class != theirs.class {
                    col.violation("C42|dfir|cross-process|outcome-differs", &format!("{} here vs {} in child {k}", mine.class, theirs.class), case);
                } else if mine.graph != theirs.graph {
                    col.violation("C42|dfir|cross-process|graph-json-differs", &format!("child process {k} produced a different partitioned graph"), case);
                } else if mine.code != theirs.code {
                    col.violation("C42|dfir|cross-process|code-differs", &format!("child process {k} produced a different token stream"), case);
                } else if mine.diags != theirs.diags {
                    col.violation("C42|dfir|cross-process|diagnostics-differ", &format!("child process {k} produced different diagnostics"), case);
                }
            }
            if !out.status.success() || seen != chunk.len() {
                rep.require(false, &format!("child process {k} of batch {bi} failed or was short ({seen}/{} results)", chunk.len()));
            }
        }
        let _ = std::fs::remove_file(&file);
    }
    col.count_n("cross_process_comparisons", child_checked);
    col.merge_into(rep, &mut ops);
    rep.extra("operators_seen_in_compiled_programs", json!(ops.len()));
    if args.tier != Tier::Miri {
        let ok = rep.counter("compiled_ok");
        rep.require(ok as usize >= n / 4, "fewer than a quarter of the programs compiled to code");
        rep.require(rep.counter("gen_parse_error") == 0, "the generator emitted unparsable programs");
        rep.require(child_checked as usize >= 3 * n * 9 / 10, "too few cross-process comparisons");
        rep.require(rep.counter("compiled_ok_with_two_or_more_loops") >= 3, "fewer than 3 compiled programs with >= 2 loops");
        rep.require(ops.len() >= CATALOGUE.len() * 8 / 10, "fewer than 80% of the catalogue operators appeared in compiled programs");
    }
}

// ---------------------------------------------------------------------------------------------
// drivers

fn check_catalogue() -> Result<(), String> {
    // harness self-check: the generator's catalogue agrees with the compiler's operator table
    for s in CATALOGUE {
        if matches!(s.name, "handoff" | "singleton" | "optional") {
            continue;
        }
        let Some(op) = OPERATORS.iter().find(|o| o.name == s.name) else {
            return Err(format!("catalogue operator {} does not exist", s.name));
        };
        let ports = |f: Option<fn() -> PortListSpec>| -> Option<Vec<String>> {
            match f.map(|f| f()) {
                Some(PortListSpec::Fixed(p)) => Some(p.iter().map(|x| x.to_token_stream().to_string()).collect()),
                _ => None,
            }
        };
        if let pgen::In::Ports(p) = s.inn {
            let real = ports(op.ports_inn);
            if real.is_some() && real != Some(p.iter().map(|x| x.to_string()).collect()) {
                return Err(format!("{}: input ports {:?} vs {:?}", s.name, p, real));
            }
        }
        if let pgen::Out::Ports(p) = s.out {
            let real = ports(op.ports_out);
            if real.is_some() && real != Some(p.iter().map(|x| x.to_string()).collect()) {
                return Err(format!("{}: output ports {:?} vs {:?}", s.name, p, real));
            }
        }
        for np in s.pers {
            if !op.persistence_args.contains(np) {
                return Err(format!("{}: {} persistence args not allowed", s.name, np));
            }
        }
    }
    Ok(())
}

type PerProg = fn(&mut Col, &str, &str, Option<&Meta>, u64);

fn per_prog(prop: &str) -> PerProg {
    match prop {
        "C18" => |c, f, t, m, _| run_c18(c, f, t, m),
        "C19" => |c, f, t, m, _| run_c19(c, f, t, m),
        "C20" => |c, f, t, m, s| run_c20(c, f, t, m, s),
        _ => unreachable!(),
    }
}

fn run_graph_prop(args: &Args, rep: &mut Reporter) -> bool {
    let prop = args.prop.clone();
    let f = per_prog(&prop);
    let n = args.budget(3000, 100_000, 40);
    let mut ops: BTreeSet<&'static str> = BTreeSet::new();
    let salt = args.seed;

    // ---- bounded-exhaustive tiny graphs (texts collected here, judged by the worker pool below) ----------
    let mut exhaustive = false;
    let mut tiny: Vec<String> = vec![];
    if args.tier != Tier::Miri {
        // complete for k <= 4 in both tiers; thorough adds a 1-in-4 sample of the 117 450 graphs with k = 5
        let kmax = if args.tier == Tier::Thorough { 5 } else { 4 };
        let mut rng = args.rng().fork(0x7177);
        for k in 1..=kmax {
            let before = tiny.len();
            pgen::tiny_enumerate(k, &mut |labels, edges| {
                if k > 4 && !rng.chance(1, 4) {
                    return;
                }
                tiny.push(pgen::tiny_text(labels, edges));
            });
            rep.count_n(&format!("tiny_graphs_k{k}"), (tiny.len() - before) as u64);
        }
        exhaustive = true;
        rep.extra("tiny_family", json!({"alphabet": pgen::TINY_ALPHABET.iter().map(|x| x.0).collect::<Vec<_>>(), "complete_up_to_k": 4, "k5": if kmax == 5 { "sampled 1/4" } else { "not run" }}));
    }

    // ---- all programs through parallel workers (deterministic chunking, merged in chunk order) ----------
    let chunk = 200usize;
    let nt = tiny.len();
    let total = nt + n;
    let nchunks = total.div_ceil(chunk);
    let next = AtomicUsize::new(0);
    let results: Mutex<BTreeMap<usize, Col>> = Mutex::new(BTreeMap::new());
    let workers = std::thread::available_parallelism().map(|x| x.get()).unwrap_or(4).clamp(1, 8);
    let base = args.rng();
    let tiny = &tiny;
    std::thread::scope(|s| {
        for _ in 0..workers {
            s.spawn(|| {
                loop {
                    let ci = next.fetch_add(1, Ordering::Relaxed);
                    if ci >= nchunks {
                        break;
                    }
                    let mut col = Col::default();
                    for j in ci * chunk..((ci + 1) * chunk).min(total) {
                        if j < nt {
                            f(&mut col, "tiny", &tiny[j], None, salt);
                            continue;
                        }
                        let i = j - nt;
                        let mut r = base.fork(0xD0F1 + i as u64);
                        let p = pgen::random_program(&mut r);
                        note_meta(&mut col, &p.meta);
                        if p.meta.same_op_two_groups {
                            col.count("programs_with_same_op_in_two_access_groups");
                        }
                        f(&mut col, "random", &p.text, Some(&p.meta), salt);
                    }
                    results.lock().unwrap().insert(ci, col);
                }
            });
        }
    });
    for (_, col) in results.into_inner().unwrap() {
        col.merge_into(rep, &mut ops);
    }
    rep.extra("catalogue_size", json!(CATALOGUE.len()));
    rep.extra("operators_seen_in_programs_reaching_the_checker", json!(ops.len()));
    let missing: Vec<&str> = CATALOGUE.iter().map(|s| s.name).filter(|n| !ops.contains(n)).collect();
    if !missing.is_empty() {
        rep.extra("operators_never_seen", json!(missing));
    }

    // ---- minimum observation -------------------------------------------------------------------
    if args.tier != Tier::Miri {
        rep.require(rep.counter("gen_parse_error") == 0, "the generator emitted unparsable programs");
        match prop.as_str() {
            "C18" => {
                rep.require(missing.is_empty(), "some catalogue operators never appeared in an accepted program");
                rep.require(rep.counter("accepted") as usize >= n / 4, "fewer than a quarter of the random programs were accepted");
                rep.require(rep.counter("accepted_with_nested_loops") >= 30, "fewer than 30 accepted programs with nested loops");
                rep.require(rep.counter("accepted_with_references") >= 30, "fewer than 30 accepted programs with references");
                rep.require(rep.counter("delayed_handoffs") >= 100, "fewer than 100 delayed handoffs checked");
                rep.require(rep.counter("programs_with_loop_remapped_delay") >= 5, "fewer than 5 programs with a Tick->Loop remapped handoff");
            }
            "C19" => {
                rep.require(rep.counter("rejected_cyclic") >= 50, "fewer than 50 rejected cycles");
                rep.require(rep.counter("accepted_delayed_cycle") >= 50, "fewer than 50 accepted cycles broken by a delay operator");
                rep.require(rep.counter("cyclic_only_with_reference_group_or_ingress_deps") >= 10, "fewer than 10 cycles closed only by reference/access-group/ingress dependencies");
                rep.require(rep.counter("accepted_acyclic") as usize >= n / 5, "too few accepted programs");
            }
            _ => {
                rep.require(rep.counter("elim_programs_with_removed_nodes") >= 100, "fewer than 100 programs with a removed unary union/tee");
                rep.require(rep.counter("merge_modules_stitched") >= 100, "fewer than 100 stitched module boundaries");
                rep.require(rep.counter("merge_modules_mismatch_rejected") >= 10, "fewer than 10 mismatched module boundaries");
                rep.require(rep.counter("serde_round_trips") as usize >= n / 4, "too few serde round trips");
                rep.require(rep.counter("as_code_compared_after_reload") >= 100, "fewer than 100 as_code comparisons after reload");
            }
        }
    }
    exhaustive
}

fn replay(args: &Args, rep: &mut Reporter, case: Value) {
    let text = case["program"].as_str().expect("replay: program").to_string();
    let family = case["family"].as_str().unwrap_or("replay").to_string();
    let prop = case["prop"].as_str().unwrap_or(&args.prop).to_string();
    let mut col = Col::default();
    match prop.as_str() {
        "C18" | "C19" | "C20" => per_prog(&prop)(&mut col, &family, &text, None, case["salt"].as_u64().unwrap_or(args.seed)),
        "C42" => {
            let _ = c42_in_process(&mut col, &family, &text);
        }
        p => panic!("replay: unknown prop {p}"),
    }
    col.merge_into(rep, &mut BTreeSet::new());
}

fn main() {
    let args = Args::parse();
    if args.prop == "NONE" {
        return;
    }
    if args.prop == "C42CHILD" {
        c42_child(&args);
        return;
    }
    if args.prop == "TINYCOUNT" {
        for k in 1..=5usize {
            let mut n = 0u64;
            let t = std::time::Instant::now();
            pgen::tiny_enumerate(k, &mut |_, _| n += 1);
            println!("k={k} graphs={n} {:?}", t.elapsed());
        }
        return;
    }
    if args.prop == "CODE" {
        // debugging aid: print the generated code for a program file
        let text = std::fs::read_to_string(&args.rest[0]).expect("file");
        let o = one_shot(&text);
        println!("{} {:?}\n{}", o.class, o.diags, o.code);
        return;
    }
    if args.prop == "SHOW" {
        // debugging aid: print a few generated programs
        let base = args.rng();
        for i in 0..args.budget(5, 5, 5) {
            let mut r = base.fork(0xD0F1 + i as u64);
            let p = pgen::random_program(&mut r);
            println!("// ---- program {i} {:?}\n{}", p.meta.ops, p.text);
        }
        return;
    }
    if let Err(e) = check_catalogue() {
        eprintln!("harness: catalogue mismatch: {e}");
        std::process::exit(3);
    }
    let prop = args.prop.clone();
    let mut rep = Reporter::new(&prop, args.seed);
    if let Some(case) = args.replay_case() {
        replay(&args, &mut rep, case);
        rep.finish("replay of one recorded program", false);
        return;
    }
    match prop.as_str() {
        "C18" | "C19" | "C20" => {
            let ex = run_graph_prop(&args, &mut rep);
            let rule = match prop.as_str() {
                "C18" => "Programs: (a) every arity-respecting wiring of <=4 operators (thorough: plus a quarter of the 5-operator ones) over {source_iter,map,union,tee,defer_tick,for_each}; (b) seeded random DFIR texts over a 72-operator catalogue with nested loop blocks, handoff()/singleton()/optional() references with access groups, unary unions/tees and inserted back edges, rendered in randomised surface form. Each is run through the macro's own stages; every accepted partitioned graph is judged by an independent checker (membership, loop context, pull*-push* tree shape, handoff shape/adjacency, delay markings, subgraph order incl. references/access groups, loop contiguity). Non-trivial = accepted program with at least one handoff or two subgraphs.",
                "C19" => "Same programs as C18 with deliberately inserted back edges (with/without defer_tick/defer_tick_lazy), references, access groups and loop re-entry. The harness builds the same-tick dependency digraph from the flat graph (pipes minus delayed inputs, referee->referencer, borrower->consumer, lower->higher access group, sender->whole loop) and decides cyclicity with Kahn: partition_graph must return Err iff cyclic, the diagnostic's cycle must spell a directed cycle of that digraph, the flat graph handed back must be unchanged, and accepted graphs also pass the C18 checker. Non-trivial = program whose dependency graph is cyclic, or cyclic but for a delay, or has reference/ingress dependencies.",
                _ => "Same programs as C18. (a) eliminate_extra_unions_tees is compared with an independent contraction of every 1-in-1-out union/tee on an abstract copy (operators, arguments, ports of surviving edges, loops, cached operator-instance ports); (b) 1-3 random edges are rerouted through a ModuleBoundary node with fresh int/path/elided port labels (as an imported module would) and merge_modules must restore exactly the original wiring, or report a port mismatch when one side is relabelled; (c) the partitioned graph is serialised with serde_json, reloaded and completed with insert_node_op_insts_all exactly as Dfir::new does, and must have identical nodes, edges+ports, subgraphs, handoffs+delays, order, loops, references, renderings and (without # references) as_code output up to source locations. Non-trivial = a unary union/tee was removed / a boundary was stitched / a round trip was performed.",
            };
            rep.finish(rule, ex);
        }
        "C42" => {
            if !args.rest.iter().any(|a| a == "dfir") {
                eprintln!("note: only --part dfir is implemented in this monitor");
            }
            run_c42(&args, &mut rep);
            rep.finish("Seeded random DFIR programs (same generator as C18) are each compiled with build_dfir_code three times in this process (every HashMap gets a fresh RandomState, allocations in between) and once in each of three child processes with differently perturbed heaps; outcome class, serde_json of the partitioned graph, the generated token stream text and the diagnostics must all be identical. Non-trivial = program that compiles to code.", false);
        }
        p => {
            eprintln!("unknown property {p}");
            std::process::exit(3);
        }
    }
}
