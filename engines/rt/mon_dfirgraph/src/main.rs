mod abs;
mod pipeline;
use dfir_lang::diagnostic::Diagnostics;
use dfir_lang::graph::DfirGraph;
use pipeline::*;
fn main() {
    let args = vcommon::Args::parse();
    if args.prop == "NONE" {
        return;
    }
    if args.prop == "PROBE" {
        let text = std::fs::read_to_string(&args.rest[0]).unwrap();
        for prog in text.split("=====") {
            println!("---- {}", prog.trim());
            match stages(prog) {
                Staged::ParseErr(e) => println!("parse err {e}"),
                Staged::BuildPanic(e) => println!("build panic {e}"),
                Staged::BuildErr(e) => println!("build err {e:?}"),
                Staged::MergeErr(e) => println!("merge err {e}"),
                Staged::ElimPanic { msg, .. } => println!("elim panic {msg}"),
                Staged::AdjacentHandoffs { .. } => println!("adjacent"),
                Staged::Partitioned { flat, uses, warnings, part, .. } => {
                    println!("warnings {warnings:?}");
                    match part {
                        Part::Panic(p) => println!("partition panic {p}"),
                        Part::Err { msg, flat: fg } => { println!("partition err {msg}"); println!("labels {:?}", labels(&fg)); }
                        Part::Ok(g) => {
                            let a = abs::abstract_graph(&g);
                            println!("flat {}", flat.to_json());
                            println!("part {}", a.to_json());
                            let c = as_code(&g, uses.clone());
                            let js = serde_json::to_string(&g).unwrap();
                            let mut g2: DfirGraph = serde_json::from_str(&js).unwrap();
                            let mut d = Diagnostics::new();
                            g2.insert_node_op_insts_all(&mut d);
                            println!("reload diags {:?}", diag_strings(&d));
                            let a2 = abs::abstract_graph(&g2);
                            println!("abs equal {}", a == a2);
                            if a != a2 { println!("reloaded {:?}", a2.nodes); }
                            let c2 = as_code(&g2, uses.clone());
                            println!("code equal {}", c == c2);
                            match (&c, &c2) { (Code::Ok{code,..}, Code::Ok{code:code2,..}) => { println!("len {} {}", code.len(), code2.len()); if code != code2 { let i = code.bytes().zip(code2.bytes()).position(|(a,b)| a!=b).unwrap_or(0); println!("A: {}\nB: {}", &code[i.saturating_sub(80)..(i+200).min(code.len())], &code2[i.saturating_sub(80)..(i+200).min(code2.len())]); } }, _ => println!("{c:?}\n{c2:?}") }
                            println!("mermaid equal {}", g.to_mermaid(&Default::default()) == g2.to_mermaid(&Default::default()));
                            if args.rest.len() > 1 { println!("{}", g.to_mermaid(&Default::default())); println!("{}", g2.to_mermaid(&Default::default())); }
                        }
                    }
                }
            }
        }
        return;
    }
    eprintln!("not implemented yet");
    std::process::exit(3);
}
