//! An abstracted, owned copy of a `DfirGraph` taken through its public accessors only. All oracles work
//! on this copy (the real graph is consumed by `partition_graph` and is not `Clone`).

use std::collections::BTreeMap;

use dfir_lang::graph::{DfirGraph, GraphNode, HandoffKind, PortIndexValue};
use quote::ToTokens;
use slotmap::Key;

pub type Id = u64;

pub fn kid<K: Key>(k: K) -> Id {
    k.data().as_ffi()
}

#[derive(Clone, Debug, PartialEq, Eq)]
pub enum Kind {
    /// name (without generics), full token string, raw argument token string, `#refs` as written
    Op { name: String, tokens: String, raw_args: String, ref_tokens: Vec<String> },
    Hoff(&'static str),
    ModB(bool),
}

#[derive(Clone, Debug, PartialEq, Eq)]
pub struct ARef {
    pub target: Option<Id>,
    pub is_mut: bool,
    pub group: Option<u32>,
}

#[derive(Clone, Debug, PartialEq, Eq)]
pub struct ANode {
    pub kind: Kind,
    pub loop_id: Option<Id>,
    pub varname: Option<String>,
    pub sg: Option<Id>,
    pub delay: Option<String>,
    pub refs: Vec<ARef>,
    /// (sorted input ports, sorted output ports) of the cached `OperatorInstance`, if present.
    pub inst_ports: Option<(Vec<String>, Vec<String>)>,
}

impl ANode {
    pub fn is_op(&self) -> bool {
        matches!(self.kind, Kind::Op { .. })
    }
    pub fn is_hoff(&self) -> bool {
        matches!(self.kind, Kind::Hoff(_))
    }
    pub fn op_name(&self) -> Option<&str> {
        match &self.kind {
            Kind::Op { name, .. } => Some(name),
            _ => None,
        }
    }
}

#[derive(Clone, Debug, PartialEq, Eq, PartialOrd, Ord)]
pub struct AEdge {
    pub src: Id,
    pub sp: String,
    pub dst: Id,
    pub dp: String,
}

#[derive(Clone, Debug, PartialEq, Eq)]
pub struct ALoop {
    pub parent: Option<Id>,
    pub children: Vec<Id>,
    pub nodes: Vec<Id>,
}

#[derive(Clone, Debug, PartialEq, Eq)]
pub struct Abs {
    pub nodes: BTreeMap<Id, ANode>,
    /// (edge id, edge) in the graph's own iteration order
    pub edges: Vec<(Id, AEdge)>,
    pub loops: BTreeMap<Id, ALoop>,
    pub root_loops: Vec<Id>,
    pub subgraphs: BTreeMap<Id, Vec<Id>>,
    pub order: Vec<Id>,
}

pub fn port_str(p: &PortIndexValue) -> String {
    match p {
        PortIndexValue::Int(i) => format!("{}", i.value),
        PortIndexValue::Path(p) => p.to_token_stream().to_string(),
        PortIndexValue::Elided(_) => "_".to_string(),
    }
}

pub fn abstract_graph(g: &DfirGraph) -> Abs {
    let mut nodes = BTreeMap::new();
    for (nid, node) in g.nodes() {
        let kind = match node {
            GraphNode::Operator(op) => Kind::Op {
                name: op.name_string(),
                tokens: op.to_token_stream().to_string(),
                raw_args: op.args_raw.to_string().split_whitespace().collect::<String>(),
                ref_tokens: op.singletons_referenced.iter().map(|r| r.to_token_stream().to_string()).collect(),
            },
            GraphNode::Handoff { kind, .. } => Kind::Hoff(match kind {
                HandoffKind::Vec => "vec",
                HandoffKind::Singleton => "singleton",
                HandoffKind::Optional => "optional",
            }),
            GraphNode::ModuleBoundary { input, .. } => Kind::ModB(*input),
        };
        let refs = g
            .node_handoff_references(nid)
            .iter()
            .map(|r| ARef { target: r.node_id.map(kid), is_mut: r.is_mut, group: r.access_group })
            .collect();
        let inst_ports = g.node_op_inst(nid).map(|oi| {
            (oi.input_ports.iter().map(port_str).collect(), oi.output_ports.iter().map(port_str).collect())
        });
        nodes.insert(
            kid(nid),
            ANode {
                kind,
                loop_id: g.node_loop(nid).map(kid),
                varname: g.node_varname(nid).map(|v| v.0.to_string()),
                sg: g.node_subgraph(nid).map(kid),
                delay: g.handoff_delay_type(nid).map(|d| format!("{d:?}")),
                refs,
                inst_ports,
            },
        );
    }
    let mut edges = vec![];
    for (eid, (s, d)) in g.edges() {
        let (sp, dp) = g.edge_ports(eid);
        edges.push((kid(eid), AEdge { src: kid(s), sp: port_str(sp), dst: kid(d), dp: port_str(dp) }));
    }
    let mut loops = BTreeMap::new();
    for (lid, lnodes) in g.loops() {
        loops.insert(
            kid(lid),
            ALoop {
                parent: g.loop_parent(lid).map(kid),
                children: g.loop_children(lid).iter().map(|&c| kid(c)).collect(),
                nodes: lnodes.iter().map(|&n| kid(n)).collect(),
            },
        );
    }
    let root_loops = g.root_loops().iter().map(|&l| kid(l)).collect();
    let mut subgraphs = BTreeMap::new();
    for (sid, snodes) in g.subgraphs() {
        subgraphs.insert(kid(sid), snodes.iter().map(|&n| kid(n)).collect());
    }
    let order = g.subgraph_toposort().iter().map(|&s| kid(s)).collect();
    Abs { nodes, edges, loops, root_loops, subgraphs, order }
}

impl Abs {
    pub fn preds(&self, n: Id) -> Vec<&AEdge> {
        self.edges.iter().filter(|(_, e)| e.dst == n).map(|(_, e)| e).collect()
    }
    pub fn succs(&self, n: Id) -> Vec<&AEdge> {
        self.edges.iter().filter(|(_, e)| e.src == n).map(|(_, e)| e).collect()
    }
    pub fn sorted_edges(&self) -> Vec<AEdge> {
        let mut v: Vec<AEdge> = self.edges.iter().map(|(_, e)| e.clone()).collect();
        v.sort();
        v
    }
    /// True iff `l` is `anc` or nested (transitively) inside `anc`.
    pub fn loop_within(&self, l: Option<Id>, anc: Id) -> bool {
        let mut cur = l;
        let mut guard = 0;
        while let Some(c) = cur {
            if c == anc {
                return true;
            }
            cur = self.loops.get(&c).and_then(|x| x.parent);
            guard += 1;
            if guard > self.loops.len() + 1 {
                return false;
            }
        }
        false
    }
    pub fn nested(&self, l: Option<Id>) -> bool {
        l.and_then(|l| self.loops.get(&l)).is_some_and(|x| x.parent.is_some())
    }
}
