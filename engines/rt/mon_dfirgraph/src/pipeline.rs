//! Runs the real compiler front half stage by stage — exactly the sequence `build_dfir_code` uses
//! (`FlatGraphBuilder::from_dfir(..).build()` -> `merge_modules` -> `eliminate_extra_unions_tees` ->
//! adjacent-handoff check -> `partition_graph` -> `as_code`) — keeping abstract copies in between.

use std::collections::BTreeMap;

use dfir_lang::diagnostic::{Diagnostics, Level};
use dfir_lang::graph::{
    DfirGraph, FlatGraphBuilder, FlatGraphBuilderOutput, GraphNode, build_dfir_code, eliminate_extra_unions_tees,
    partition_graph,
};
use dfir_lang::parse::DfirCode;
use proc_macro2::TokenStream;
use quote::quote;
use crate::quiet::catch;

use crate::abs::{Abs, Id, abstract_graph, kid};

pub fn root() -> TokenStream {
    quote! { ::dfir_rs }
}

pub fn diag_strings(d: &Diagnostics) -> Vec<String> {
    d.iter().map(|x| format!("{:?}: {}", x.level, x.message)).collect()
}

#[allow(dead_code)]
pub enum Front {
    ParseErr(String),
    BuildPanic(String),
    BuildErr(Vec<String>),
    Built(FlatGraphBuilderOutput),
}

pub fn front(text: &str) -> Front {
    let code = match syn::parse_str::<DfirCode>(text) {
        Ok(c) => c,
        Err(e) => return Front::ParseErr(e.to_string()),
    };
    match catch(|| FlatGraphBuilder::from_dfir(code).build()) {
        Err(p) => Front::BuildPanic(p),
        Ok(Err(d)) => Front::BuildErr(diag_strings(&d)),
        Ok(Ok(out)) => Front::Built(out),
    }
}

pub enum Part {
    Ok(DfirGraph),
    /// partition_graph returned Err: message + the flat graph handed back
    Err { msg: String, flat: Box<DfirGraph> },
    Panic(String),
}

pub enum Staged {
    ParseErr,
    BuildPanic,
    BuildErr,
    MergeErr,
    ElimPanic,
    AdjacentHandoffs,
    /// `flat` = abstract copy of the graph handed to `partition_graph`
    Partitioned { flat: Abs, part: Part },
}

/// The macro's pipeline, by hand, up to and including `partition_graph`.
pub fn stages(text: &str) -> Staged {
    let out = match front(text) {
        Front::ParseErr(_) => return Staged::ParseErr,
        Front::BuildPanic(_) => return Staged::BuildPanic,
        Front::BuildErr(_) => return Staged::BuildErr,
        Front::Built(o) => o,
    };
    let FlatGraphBuilderOutput { mut flat_graph, .. } = out;
    if flat_graph.merge_modules().is_err() {
        return Staged::MergeErr;
    }
    if catch(|| eliminate_extra_unions_tees(&mut flat_graph)).is_err() {
        return Staged::ElimPanic;
    }
    let flat = abstract_graph(&flat_graph);
    // Same check as `build_dfir_code`: adjacent handoffs are an error.
    let mut adjacent = false;
    for (_e, (s, d)) in flat_graph.edges() {
        if matches!(flat_graph.node(s), GraphNode::Handoff { .. }) && matches!(flat_graph.node(d), GraphNode::Handoff { .. }) {
            adjacent = true;
        }
    }
    if adjacent {
        return Staged::AdjacentHandoffs;
    }
    let part = match catch(move || partition_graph(flat_graph)) {
        Err(p) => Part::Panic(p),
        Ok(Ok(g)) => Part::Ok(g),
        Ok(Err(e)) => Part::Err { msg: e.diagnostic.message.clone(), flat: e.flat_graph },
    };
    Staged::Partitioned { flat, part }
}

/// Result of `as_code` rendered to strings.
#[derive(Clone, Debug, PartialEq, Eq)]
pub enum Code {
    Ok { code: String, diags: Vec<String> },
    Err(Vec<String>),
    Panic(String),
}

pub fn as_code(g: &DfirGraph, uses: TokenStream) -> Code {
    let r = catch(|| {
        let mut d = Diagnostics::new();
        let r = g.as_code(&root(), true, uses, &mut d);
        (r, d)
    });
    match r {
        Err(p) => Code::Panic(p),
        Ok((Ok(ts), d)) => Code::Ok { code: ts.to_string(), diags: diag_strings(&d) },
        Ok((Err(d), _)) => Code::Err(diag_strings(&d)),
    }
}

/// One-shot compile through the crate's own entry point (`build_dfir_code`), rendered to strings:
/// (outcome class, graph JSON or "", code or diagnostics).
#[derive(Clone, Debug, PartialEq, Eq, Hash)]
pub struct OneShot {
    pub class: &'static str,
    pub graph_json: String,
    pub code: String,
    pub diags: Vec<String>,
}

pub fn one_shot(text: &str) -> OneShot {
    let code = match syn::parse_str::<DfirCode>(text) {
        Ok(c) => c,
        Err(e) => return OneShot { class: "parse-err", graph_json: String::new(), code: String::new(), diags: vec![e.to_string()] },
    };
    match catch(|| build_dfir_code(code, &root())) {
        // only the first line: the rest of an assertion message prints spans as process-global byte offsets
        Err(p) => OneShot { class: "panic", graph_json: String::new(), code: String::new(), diags: vec![p.lines().next().unwrap_or("").to_string()] },
        Ok(Err(d)) => OneShot {
            class: "err",
            graph_json: String::new(),
            code: String::new(),
            diags: d.iter().filter(|x| x.level == Level::Error).map(|x| format!("{:?}: {}", x.level, x.message)).collect(),
        },
        Ok(Ok(o)) => OneShot {
            class: "ok",
            graph_json: serde_json::to_string(&o.partitioned_graph).unwrap_or_else(|e| format!("<serde error {e}>")),
            code: o.code.to_string(),
            diags: diag_strings(&o.diagnostics),
        },
    }
}

/// Pretty labels of the nodes of a (flat) graph, as the cycle diagnostic prints them.
pub fn labels(g: &DfirGraph) -> BTreeMap<Id, String> {
    g.nodes().map(|(id, n)| (kid(id), n.to_pretty_string().into_owned())).collect()
}
