//! C16 — the single-threaded mpsc channel (`dfir_rs::util::unsync::mpsc`) under a hand-written
//! deterministic executor.
//!
//! The harness owns k sender tasks, one receiver task and one counting waker per task. A *schedule*
//! is a sequence of actions
//!   `S<i>`  poll sender task i        (spurious if the task has no un-consumed wake)
//!   `R`     poll the receiver task    (ditto)
//!   `xS<i>` cancel: drop task i's pending send future, the task moves on to its next item
//!   `dS<i>` drop sender task i (with whatever it has in flight)
//!   `cR`    `Receiver::close()`       `dR` drop the receiver
//! After the schedule the executor *drains*: it polls woken tasks only, in wake order, until no task
//! is woken (quiescence), like an ordinary single-threaded executor would.
//!
//! Task kinds: `send` (one `Sender::send` future at a time), `sink` (`Sink::poll_ready` +
//! `start_send`, `poll_close` at the end), `try` (`try_send`, gives up on `Full`), `join` (all items
//! as concurrent `send` futures inside one task, every unfinished one polled on each task poll, like
//! `futures::join!`). A task performs one channel operation per poll and wakes itself if it can go
//! on; when it is out of items it drops its sender.
//!
//! Oracle: a FIFO queue model (safety: what may be answered) and, at every quiescent point, the
//! lost-wake-up rule: no live task is parked without an un-consumed wake while the model says its
//! next poll would make progress.

use std::collections::{BTreeMap, VecDeque};
use std::future::Future;
use std::num::NonZeroUsize;
use std::pin::Pin;
use std::rc::Rc;
use std::sync::atomic::{AtomicBool, AtomicU32, Ordering};
use std::sync::{Arc, Mutex};
use std::task::{Context, Poll, Wake, Waker};

use dfir_rs::util::unsync::mpsc::{self, Receiver, SendError, Sender, TrySendError};
use futures::{Sink, Stream};
use vcommon::{Args, Reporter, Rng, Tier, Value, catch, hash_of, json};

// ---------------------------------------------------------------------------------------------
// configuration and schedules

#[derive(Clone, Copy, Debug, PartialEq, Eq, Hash)]
enum Mode {
    Fut,
    Sink,
    Try,
    Join,
}

impl Mode {
    fn name(self) -> &'static str {
        match self {
            Mode::Fut => "send",
            Mode::Sink => "sink",
            Mode::Try => "try",
            Mode::Join => "join",
        }
    }
    fn parse(s: &str) -> Mode {
        match s {
            "send" => Mode::Fut,
            "sink" => Mode::Sink,
            "try" => Mode::Try,
            "join" => Mode::Join,
            _ => panic!("bad mode {s}"),
        }
    }
}

#[derive(Clone, Debug, PartialEq, Eq, Hash)]
struct Cfg {
    cap: Option<usize>,
    /// (mode, number of items); item ids are 10*(task+1)+j
    senders: Vec<(Mode, usize)>,
    /// receiver task polls through `Stream::poll_next` instead of `poll_recv`
    rx_stream: bool,
}

#[derive(Clone, Copy, Debug, PartialEq, Eq, Hash)]
enum Act {
    PollS(usize),
    PollR,
    Cancel(usize),
    DropS(usize),
    CloseR,
    DropR,
}

impl Act {
    fn show(self) -> String {
        match self {
            Act::PollS(i) => format!("S{i}"),
            Act::PollR => "R".into(),
            Act::Cancel(i) => format!("xS{i}"),
            Act::DropS(i) => format!("dS{i}"),
            Act::CloseR => "cR".into(),
            Act::DropR => "dR".into(),
        }
    }
    fn parse(s: &str) -> Act {
        let num = |t: &str| t.parse::<usize>().expect("task index");
        if s == "R" {
            Act::PollR
        } else if s == "cR" {
            Act::CloseR
        } else if s == "dR" {
            Act::DropR
        } else if let Some(t) = s.strip_prefix("xS") {
            Act::Cancel(num(t))
        } else if let Some(t) = s.strip_prefix("dS") {
            Act::DropS(num(t))
        } else if let Some(t) = s.strip_prefix('S') {
            Act::PollS(num(t))
        } else {
            panic!("bad action {s}")
        }
    }
    fn sender(self) -> Option<usize> {
        match self {
            Act::PollS(i) | Act::Cancel(i) | Act::DropS(i) => Some(i),
            _ => None,
        }
    }
}

fn sched_str(s: &[Act]) -> Vec<String> {
    s.iter().map(|a| a.show()).collect()
}

fn case_json(cfg: &Cfg, sched: &[Act], fam: &str) -> Value {
    json!({"engine":"mon_mpsc","family":fam,"cap":cfg.cap,"rx_stream":cfg.rx_stream,
           "senders": cfg.senders.iter().map(|(m,n)| json!({"mode":m.name(),"items":n})).collect::<Vec<_>>(),
           "schedule": sched_str(sched)})
}

// ---------------------------------------------------------------------------------------------
// counting wakers + run queue

struct TW {
    id: usize,
    woken: AtomicBool,
    /// set by the harness while the task is parked on the channel; a wake that finds it set is a
    /// wake-up delivered by the channel to a waiting task
    parked: AtomicBool,
    count: AtomicU32,
    parked_wakes: AtomicU32,
    q: Arc<Mutex<VecDeque<usize>>>,
}

impl Wake for TW {
    fn wake(self: Arc<Self>) {
        self.wake_by_ref()
    }
    fn wake_by_ref(self: &Arc<Self>) {
        self.count.fetch_add(1, Ordering::Relaxed);
        if self.parked.swap(false, Ordering::Relaxed) {
            self.parked_wakes.fetch_add(1, Ordering::Relaxed);
        }
        if !self.woken.swap(true, Ordering::Relaxed) {
            self.q.lock().unwrap().push_back(self.id);
        }
    }
}

// ---------------------------------------------------------------------------------------------
// harness

type SendFut = Pin<Box<dyn Future<Output = Result<(), SendError<u32>>>>>;

struct STask {
    mode: Mode,
    items: Vec<u32>,
    next: usize,
    tx_rc: Option<Rc<Sender<u32>>>,
    tx_own: Option<Sender<u32>>,
    inflight: Vec<(u32, SendFut)>,
    sink_waiting: bool,
    alive: bool,
}

#[derive(Clone, Copy, PartialEq, Eq, Debug)]
enum RxState {
    Alive,
    Closed,
    Dropped,
}

struct Model {
    queue: VecDeque<u32>,
    cap: Option<usize>,
    rx: RxState,
    live_senders: usize,
    last_exit: &'static str,
    ok_sent: Vec<u32>,
    received: Vec<u32>,
}

impl Model {
    fn has_room(&self) -> bool {
        self.cap.is_none_or(|c| self.queue.len() < c)
    }
}

struct Harness {
    cfg: Cfg,
    k: usize,
    tasks: Vec<STask>,
    rx: Option<Receiver<u32>>,
    rx_done: bool,
    wakers: Vec<Arc<TW>>,
    q: Arc<Mutex<VecDeque<usize>>>,
    model: Model,
    trace: Vec<String>,
    viol: Vec<(String, String)>,
    spurious: bool,
    cancel: bool,
    join2: bool,
    evals: u64,
    send_pending_seen: bool,
    full_with_room: u64,
}

fn owner_of(item: u32) -> usize {
    (item / 10) as usize - 1
}

impl Harness {
    fn new(cfg: &Cfg) -> Harness {
        let k = cfg.senders.len();
        let (tx0, rx) = mpsc::channel::<u32>(cfg.cap.map(|c| NonZeroUsize::new(c).expect("cap > 0")));
        let q = Arc::new(Mutex::new(VecDeque::new()));
        let wakers: Vec<Arc<TW>> = (0..=k)
            .map(|id| {
                Arc::new(TW {
                    id,
                    woken: AtomicBool::new(false),
                    parked: AtomicBool::new(false),
                    count: AtomicU32::new(0),
                    parked_wakes: AtomicU32::new(0),
                    q: q.clone(),
                })
            })
            .collect();
        let mut txs: Vec<Sender<u32>> = (1..k).map(|_| tx0.clone()).collect();
        txs.insert(0, tx0);
        let tasks = cfg
            .senders
            .iter()
            .zip(txs)
            .enumerate()
            .map(|(i, (&(mode, n), tx))| {
                let (tx_rc, tx_own) = match mode {
                    Mode::Fut | Mode::Join => (Some(Rc::new(tx)), None),
                    Mode::Sink | Mode::Try => (None, Some(tx)),
                };
                STask {
                    mode,
                    items: (0..n).map(|j| 10 * (i as u32 + 1) + j as u32).collect(),
                    next: 0,
                    tx_rc,
                    tx_own,
                    inflight: vec![],
                    sink_waiting: false,
                    alive: true,
                }
            })
            .collect();
        let h = Harness {
            cfg: cfg.clone(),
            k,
            tasks,
            rx: Some(rx),
            rx_done: false,
            wakers,
            q,
            model: Model { queue: VecDeque::new(), cap: cfg.cap, rx: RxState::Alive, live_senders: k, last_exit: "none", ok_sent: vec![], received: vec![] },
            trace: vec![],
            viol: vec![],
            spurious: false,
            cancel: false,
            join2: false,
            evals: 0,
            send_pending_seen: false,
            full_with_room: 0,
        };
        // freshly spawned tasks are runnable
        for w in &h.wakers {
            w.wake_by_ref();
        }
        h
    }

    fn woken(&self, id: usize) -> bool {
        self.wakers[id].woken.load(Ordering::Relaxed)
    }
    fn rx_task_live(&self) -> bool {
        self.rx.is_some() && !self.rx_done
    }
    fn task_live(&self, id: usize) -> bool {
        if id == self.k { self.rx_task_live() } else { self.tasks[id].alive }
    }
    fn runnable(&self) -> bool {
        (0..=self.k).any(|id| self.task_live(id) && self.woken(id))
    }
    /// Schedule class of the execution so far: what kind of caller behaviour it needed.
    /// `woken-only` = every poll was of a task with an un-consumed wake and no pending send was
    /// dropped (what a plain executor does with one channel operation in flight per task);
    /// `cancelled-send` = woken-only polls but a pending send was dropped (`select!`, task abort);
    /// `spurious-poll` = some task was polled without having been woken; `+join-task` = a task had
    /// two send futures in flight at once and polls both whenever it runs (`join!`).
    fn class(&self) -> &'static str {
        match (self.spurious, self.cancel, self.join2) {
            (false, false, false) => "woken-only",
            (false, false, true) => "woken-only+join-task",
            (false, true, false) => "woken-only+cancelled-send",
            (false, true, true) => "woken-only+cancelled-send+join-task",
            (true, false, false) => "spurious-poll",
            (true, false, true) => "spurious-poll+join-task",
            (true, true, false) => "spurious-poll+cancelled-send",
            (true, true, true) => "spurious-poll+cancelled-send+join-task",
        }
    }
    fn flag(&mut self, sig: &str, what: String) {
        self.viol.push((sig.to_string(), what));
    }

    // ---- model judgements of single answers (safety) ----

    fn judge_send_ok(&mut self, site: &str, item: u32) {
        self.evals += 1;
        match self.model.rx {
            RxState::Alive => {
                if !self.model.has_room() {
                    self.flag(&format!("C16|{site}|ok-over-capacity"), format!("{site}({item}) succeeded with {} items buffered, capacity {:?}", self.model.queue.len(), self.model.cap));
                }
                self.model.queue.push_back(item);
                self.model.ok_sent.push(item);
            }
            st => {
                self.flag(&format!("C16|{site}|ok-after-receiver-closed"), format!("{site}({item}) returned Ok although the receiver is {st:?}"));
            }
        }
    }
    fn judge_send_closed(&mut self, site: &str, item: u32, returned: Option<u32>, must_return: bool) {
        self.evals += 1;
        if self.model.rx == RxState::Alive {
            self.flag(&format!("C16|{site}|closed-error-while-receiver-alive"), format!("{site}({item}) reported the channel closed although the receiver is alive and open"));
        }
        match returned {
            Some(v) if v != item => self.flag(&format!("C16|{site}|error-returns-wrong-item"), format!("{site}({item}) failed and handed back {v}")),
            None if must_return => self.flag(&format!("C16|{site}|error-does-not-return-item"), format!("{site}({item}) failed without handing the item back")),
            _ => {}
        }
    }
    fn judge_full(&mut self, site: &str, item: u32, returned: Option<u32>) {
        self.evals += 1;
        if returned != Some(item) {
            self.flag(&format!("C16|{site}|error-returns-wrong-item"), format!("{site}({item}) answered Full and handed back {returned:?}"));
        }
        if self.model.rx == RxState::Alive && self.model.has_room() {
            self.full_with_room += 1; // not promised either way by C16; counted only
        }
    }

    // ---- task polls ----

    fn finish_sender(&mut self, i: usize, how: &'static str) {
        let t = &mut self.tasks[i];
        t.inflight.clear();
        t.sink_waiting = false;
        let had = t.tx_rc.is_some() || t.tx_own.is_some();
        t.tx_rc = None;
        t.tx_own = None;
        t.alive = false;
        self.wakers[i].parked.store(false, Ordering::Relaxed);
        if had && how != "already-closed" {
            self.model.live_senders -= 1;
            self.model.last_exit = how;
        }
    }

    fn poll_sender(&mut self, i: usize) {
        let w = self.wakers[i].clone();
        w.woken.store(false, Ordering::Relaxed);
        w.parked.store(false, Ordering::Relaxed);
        let waker = Waker::from(w.clone());
        let mut cx = Context::from_waker(&waker);
        let mode = self.tasks[i].mode;
        match mode {
            Mode::Fut | Mode::Join => {
                if self.tasks[i].inflight.is_empty() {
                    let n = if mode == Mode::Join { self.tasks[i].items.len() - self.tasks[i].next } else { 1 };
                    for _ in 0..n {
                        let t = &mut self.tasks[i];
                        let item = t.items[t.next];
                        t.next += 1;
                        let s = t.tx_rc.clone().expect("sender");
                        t.inflight.push((item, Box::pin(async move { s.send(item).await })));
                    }
                    if n >= 2 {
                        self.join2 = true;
                    }
                }
                let mut inflight = std::mem::take(&mut self.tasks[i].inflight);
                let mut keep = vec![];
                let mut res = vec![];
                for (item, mut f) in inflight.drain(..) {
                    match f.as_mut().poll(&mut cx) {
                        Poll::Pending => {
                            res.push(format!("send({item})=Pending"));
                            self.send_pending_seen = true;
                            keep.push((item, f));
                        }
                        Poll::Ready(Ok(())) => {
                            res.push(format!("send({item})=Ok"));
                            self.judge_send_ok("send", item);
                        }
                        Poll::Ready(Err(SendError(v))) => {
                            res.push(format!("send({item})=Err({v})"));
                            self.judge_send_closed("send", item, Some(v), true);
                        }
                    }
                }
                self.trace.push(format!("S{i}:{}", res.join(",")));
                let parked = !keep.is_empty();
                self.tasks[i].inflight = keep;
                if parked {
                    w.parked.store(true, Ordering::Relaxed);
                } else if self.tasks[i].next == self.tasks[i].items.len() {
                    self.finish_sender(i, "drop");
                } else {
                    w.wake_by_ref();
                }
            }
            Mode::Sink => {
                let t = &mut self.tasks[i];
                if t.next == t.items.len() {
                    let r = Pin::new(t.tx_own.as_mut().expect("sender")).poll_close(&mut cx);
                    self.trace.push(format!("S{i}:poll_close={}", match &r { Poll::Ready(Ok(())) => "Ok", Poll::Ready(Err(_)) => "Err", Poll::Pending => "Pending" }));
                    self.evals += 1;
                    if !matches!(r, Poll::Ready(Ok(()))) {
                        self.flag("C16|Sink::poll_close|not-ok", "poll_close did not complete with Ok".into());
                    }
                    // the sender handle is closed now; dropping it afterwards changes nothing for the model
                    self.model.live_senders -= 1;
                    self.model.last_exit = "close_this_sender";
                    self.finish_sender(i, "already-closed");
                    return;
                }
                let item = t.items[t.next];
                let tx = t.tx_own.as_mut().expect("sender");
                match Pin::new(&mut *tx).poll_ready(&mut cx) {
                    Poll::Pending => {
                        t.sink_waiting = true;
                        self.send_pending_seen = true;
                        self.trace.push(format!("S{i}:poll_ready({item})=Pending"));
                        w.parked.store(true, Ordering::Relaxed);
                    }
                    Poll::Ready(Ok(())) => {
                        t.sink_waiting = false;
                        t.next += 1;
                        let r = Pin::new(&mut *tx).start_send(item);
                        match r {
                            Ok(()) => {
                                self.trace.push(format!("S{i}:poll_ready+start_send({item})=Ok"));
                                self.judge_send_ok("Sink::start_send", item);
                            }
                            Err(TrySendError::Full(v)) => {
                                self.trace.push(format!("S{i}:poll_ready=Ok,start_send({item})=Full"));
                                self.judge_full("Sink::start_send", item, v);
                            }
                            Err(TrySendError::Closed(v)) => {
                                self.trace.push(format!("S{i}:poll_ready=Ok,start_send({item})=Closed"));
                                self.judge_send_closed("Sink::start_send", item, v, true);
                            }
                        }
                        w.wake_by_ref();
                    }
                    Poll::Ready(Err(e)) => {
                        t.sink_waiting = false;
                        t.next += 1;
                        self.trace.push(format!("S{i}:poll_ready({item})=Err"));
                        match e {
                            TrySendError::Closed(v) => self.judge_send_closed("Sink::poll_ready", item, v, false),
                            TrySendError::Full(_) => {
                                self.evals += 1;
                                self.flag("C16|Sink::poll_ready|full-error", "poll_ready answered Err(Full) instead of Pending".into())
                            }
                        }
                        w.wake_by_ref();
                    }
                }
            }
            Mode::Try => {
                let t = &mut self.tasks[i];
                let item = t.items[t.next];
                t.next += 1;
                let r = t.tx_own.as_ref().expect("sender").try_send(item);
                match r {
                    Ok(()) => {
                        self.trace.push(format!("S{i}:try_send({item})=Ok"));
                        self.judge_send_ok("try_send", item);
                    }
                    Err(TrySendError::Full(v)) => {
                        self.trace.push(format!("S{i}:try_send({item})=Full"));
                        self.judge_full("try_send", item, Some(v));
                    }
                    Err(TrySendError::Closed(v)) => {
                        self.trace.push(format!("S{i}:try_send({item})=Closed"));
                        self.judge_send_closed("try_send", item, Some(v), true);
                    }
                }
                if self.tasks[i].next == self.tasks[i].items.len() {
                    self.finish_sender(i, "drop");
                } else {
                    w.wake_by_ref();
                }
            }
        }
    }

    fn poll_receiver(&mut self) {
        let w = self.wakers[self.k].clone();
        w.woken.store(false, Ordering::Relaxed);
        w.parked.store(false, Ordering::Relaxed);
        let waker = Waker::from(w.clone());
        let mut cx = Context::from_waker(&waker);
        let rx = self.rx.as_mut().expect("receiver");
        let r = if self.cfg.rx_stream { Pin::new(rx).poll_next(&mut cx) } else { rx.poll_recv(&cx) };
        self.evals += 1;
        match r {
            Poll::Pending => {
                self.trace.push("R:Pending".into());
                w.parked.store(true, Ordering::Relaxed);
            }
            Poll::Ready(Some(y)) => {
                self.trace.push(format!("R:Some({y})"));
                if self.model.queue.front() == Some(&y) {
                    self.model.queue.pop_front();
                } else {
                    let m = &self.model;
                    let (kind, why) = if m.received.contains(&y) {
                        ("duplicate-item", "it was already received")
                    } else if !m.ok_sent.contains(&y) {
                        ("item-never-sent", "no successful send handed it in")
                    } else if m.queue.iter().take_while(|&&z| z != y).any(|&z| owner_of(z) == owner_of(y)) {
                        ("per-sender-order", "an earlier item of the same sender is still undelivered")
                    } else {
                        ("send-order", "earlier successful sends of other senders are still undelivered")
                    };
                    let what = format!("recv returned {y} but {why}; queue by send order is {:?}", m.queue);
                    self.flag(&format!("C16|recv|{kind}"), what);
                    if let Some(p) = self.model.queue.iter().position(|&z| z == y) {
                        self.model.queue.remove(p);
                    }
                }
                self.model.received.push(y);
                w.wake_by_ref();
            }
            Poll::Ready(None) => {
                self.trace.push("R:None".into());
                if !self.model.queue.is_empty() {
                    let what = format!("recv returned None while {:?} were sent successfully and not yet received", self.model.queue);
                    self.flag("C16|recv|none-with-items-undelivered", what);
                } else if self.model.live_senders > 0 && self.model.rx == RxState::Alive {
                    let what = format!("recv returned None while {} sender(s) are alive and the receiver was not closed", self.model.live_senders);
                    self.flag("C16|recv|none-while-senders-alive", what);
                }
                // the receiver task returns, which drops the receiver
                self.rx_done = true;
                self.rx = None;
                self.model.rx = RxState::Dropped;
                self.model.queue.clear();
            }
        }
    }

    /// `Sender::is_closed` must agree with what the receiver did.
    fn judge_is_closed(&mut self) {
        let want = self.model.rx != RxState::Alive;
        for i in 0..self.k {
            let t = &self.tasks[i];
            let got = match (&t.tx_rc, &t.tx_own) {
                (Some(s), _) => s.is_closed(),
                (_, Some(s)) => s.is_closed(),
                _ => continue,
            };
            self.evals += 1;
            if got != want {
                let what = format!("sender task {i}: is_closed() = {got} while the receiver is {:?}", self.model.rx);
                self.flag("C16|is_closed|disagrees-with-receiver-state", what);
                return;
            }
        }
    }

    // ---- schedule actions ----

    fn act(&mut self, a: Act) {
        match a {
            Act::PollS(i) => {
                if !self.woken(i) {
                    self.spurious = true;
                }
                self.poll_sender(i);
            }
            Act::PollR => {
                if !self.woken(self.k) {
                    self.spurious = true;
                }
                self.poll_receiver();
            }
            Act::Cancel(i) => {
                self.cancel = true;
                let t = &mut self.tasks[i];
                let dropped: Vec<u32> = t.inflight.iter().map(|x| x.0).collect();
                t.inflight.clear();
                if t.sink_waiting {
                    t.sink_waiting = false;
                    t.next += 1;
                }
                self.trace.push(format!("xS{i}:cancelled{dropped:?}"));
                self.wakers[i].parked.store(false, Ordering::Relaxed);
                let t = &self.tasks[i];
                if t.next == t.items.len() && t.mode != Mode::Sink {
                    self.finish_sender(i, "drop");
                } else {
                    self.wakers[i].wake_by_ref();
                }
            }
            Act::DropS(i) => {
                if !self.tasks[i].inflight.is_empty() || self.tasks[i].sink_waiting {
                    self.cancel = true;
                }
                self.trace.push(format!("dS{i}"));
                self.finish_sender(i, "drop");
            }
            Act::CloseR => {
                self.trace.push("cR".into());
                self.rx.as_mut().expect("receiver").close();
                self.model.rx = RxState::Closed;
                // `close` takes `&mut Receiver`: it is the receiver's own task that calls it, so that
                // task is running (e.g. a `select!` arm) and goes on to drain the buffer
                self.wakers[self.k].wake_by_ref();
            }
            Act::DropR => {
                self.trace.push("dR".into());
                self.rx = None;
                self.model.rx = RxState::Dropped;
                self.model.queue.clear();
                self.wakers[self.k].parked.store(false, Ordering::Relaxed);
            }
        }
        if self.viol.is_empty() {
            self.judge_is_closed();
        }
    }

    fn enabled(&self, allow_spurious: bool, allow_cancel: bool) -> Vec<Act> {
        let mut v = vec![];
        for i in 0..self.k {
            let t = &self.tasks[i];
            if !t.alive {
                continue;
            }
            if self.woken(i) || allow_spurious {
                v.push(Act::PollS(i));
            }
            let in_flight = !t.inflight.is_empty() || t.sink_waiting;
            if allow_cancel && in_flight {
                v.push(Act::Cancel(i));
            }
            if allow_cancel || !in_flight {
                v.push(Act::DropS(i));
            }
        }
        if self.rx_task_live() {
            if self.woken(self.k) || allow_spurious {
                v.push(Act::PollR);
            }
            if self.model.rx == RxState::Alive {
                v.push(Act::CloseR);
            }
            v.push(Act::DropR);
        }
        v
    }

    /// Poll woken tasks only, in wake order, until none is woken. Returns the drained polls.
    fn drain(&mut self) -> Vec<String> {
        let total_items: usize = self.cfg.senders.iter().map(|s| s.1).sum();
        // every poll either completes a channel operation (<= 2*items + k + 2 of them) or parks a
        // task until the next wake; each operation wakes at most two tasks
        let cap = 20 * (total_items + self.k + 3);
        let mut done = vec![];
        let mut steps = 0;
        loop {
            let id = self.q.lock().unwrap().pop_front();
            let Some(id) = id else { break };
            if !self.woken(id) || !self.task_live(id) {
                continue;
            }
            steps += 1;
            if steps > cap {
                self.flag("C16|executor|no-quiescence-within-step-cap", format!("woken-only execution did not settle within {cap} polls"));
                break;
            }
            if id == self.k {
                done.push("R".to_string());
                self.poll_receiver();
            } else {
                done.push(format!("S{id}"));
                self.poll_sender(id);
            }
            if self.viol.is_empty() {
                self.judge_is_closed();
            }
            if !self.viol.is_empty() {
                break;
            }
        }
        done
    }

    /// The lost-wake-up rule at a quiescent point.
    fn judge_quiescence(&mut self) {
        debug_assert!(!self.runnable());
        let class = self.class();
        for i in 0..self.k {
            let t = &self.tasks[i];
            if !t.alive || !(self.wakers[i].parked.load(Ordering::Relaxed)) {
                continue;
            }
            self.evals += 1;
            let waiting: Vec<u32> = if t.mode == Mode::Sink { vec![t.items[t.next]] } else { t.inflight.iter().map(|x| x.0).collect() };
            match self.model.rx {
                RxState::Alive => {
                    if self.model.has_room() {
                        let what = format!(
                            "sender task {i} ({}) is parked in send of {waiting:?} with no wake-up outstanding although {} of {:?} slots are used and the receiver is parked; nothing will ever poll it again",
                            t.mode.name(), self.model.queue.len(), self.model.cap
                        );
                        self.flag(&format!("C16|quiescence|sender-stranded-with-free-capacity|{class}"), what);
                    }
                }
                st => {
                    let what = format!("sender task {i} ({}) is parked in send of {waiting:?} with no wake-up outstanding although the receiver is {st:?}", t.mode.name());
                    self.flag(&format!("C16|quiescence|sender-not-woken-by-receiver-close|{class}"), what);
                }
            }
        }
        if self.rx_task_live() && self.wakers[self.k].parked.load(Ordering::Relaxed) {
            self.evals += 1;
            let m = &self.model;
            if !m.queue.is_empty() {
                let what = format!("the receiver is parked with no wake-up outstanding although {:?} are buffered", m.queue);
                self.flag(&format!("C16|quiescence|receiver-stranded-with-items-buffered"), what);
            } else if m.rx == RxState::Closed {
                self.flag(&format!("C16|quiescence|receiver-stranded-after-own-close"), "the receiver called close(), the buffer is empty, yet its task is parked with no wake-up outstanding".into());
            } else if m.live_senders == 0 {
                let what = format!("every sender is gone (the last one by {}), the buffer is empty, yet the receiver is parked with no wake-up outstanding and will never see None", m.last_exit);
                self.flag(&format!("C16|quiescence|receiver-not-woken-when-last-sender-gone-by-{}", m.last_exit), what);
            }
        }
    }
}

// ---------------------------------------------------------------------------------------------
// one execution = schedule, then drain, then judgement

struct Outcome {
    enabled: Vec<Act>,
    viol: Vec<(String, String)>,
    /// a per-answer (safety) violation or panic: the state no longer follows the model, do not extend
    stop: bool,
    class: &'static str,
    evals: u64,
    nontrivial: bool,
    send_pending: bool,
    full_with_room: u64,
    trace: Vec<String>,
    drained: Vec<String>,
    /// how many schedule actions were executed (a run stops at the first violation)
    executed: usize,
}

fn execute(cfg: &Cfg, sched: &[Act], allow_spurious: bool, allow_cancel: bool, judge_mid: bool) -> Outcome {
    let r = catch(|| {
        let mut h = Harness::new(cfg);
        let mut executed = 0;
        for &a in sched {
            // tolerate replay descriptors that name a disabled action
            if !h.enabled(true, true).contains(&a) {
                h.trace.push(format!("{}:not-enabled", a.show()));
                executed += 1;
                continue;
            }
            h.act(a);
            executed += 1;
            if !h.viol.is_empty() {
                break;
            }
            if judge_mid && !h.runnable() {
                h.judge_quiescence();
                if !h.viol.is_empty() {
                    break;
                }
            }
        }
        let stop = !h.viol.is_empty();
        let enabled = if stop { vec![] } else { h.enabled(allow_spurious, allow_cancel) };
        let mut drained = vec![];
        if !stop {
            drained = h.drain();
            if h.viol.is_empty() {
                h.judge_quiescence();
            }
        }
        let chan_wakes: u32 = h.wakers.iter().map(|w| w.parked_wakes.load(Ordering::Relaxed)).sum();
        Outcome {
            enabled,
            class: h.class(),
            evals: h.evals,
            nontrivial: chan_wakes > 0,
            send_pending: h.send_pending_seen,
            full_with_room: h.full_with_room,
            trace: std::mem::take(&mut h.trace),
            drained,
            executed,
            // safety violations stop extension; stranding alone does not
            stop: stop || h.viol.iter().any(|(s, _)| !s.contains("|quiescence|")),
            viol: std::mem::take(&mut h.viol),
        }
    });
    match r {
        Ok(o) => o,
        Err(p) => Outcome {
            enabled: vec![],
            viol: vec![("C16|channel|panic".into(), format!("panic while executing the schedule: {p}"))],
            stop: true,
            class: "?",
            evals: 1,
            nontrivial: false,
            send_pending: false,
            full_with_room: 0,
            trace: vec![],
            drained: vec![],
            executed: sched.len(),
        },
    }
}

/// Violations are collected first and reported shortest-schedule-first, so that the replay file of a
/// signature is a minimal schedule found.
#[derive(Default)]
struct Findings {
    by_sig: BTreeMap<String, (u64, Vec<(usize, String, Value)>)>,
}

impl Findings {
    fn add(&mut self, sig: &str, len: usize, what: impl FnOnce() -> String, case: impl FnOnce() -> Value) {
        let e = self.by_sig.entry(sig.to_string()).or_default();
        e.0 += 1;
        if e.1.len() < 3 || len < e.1.last().unwrap().0 {
            e.1.push((len, what(), case()));
            e.1.sort_by_key(|x| x.0);
            e.1.truncate(3);
        }
    }
    fn report(self, rep: &mut Reporter) {
        let mut minimal = serde_json_map();
        for (sig, (count, best)) in self.by_sig {
            minimal.insert(sig.clone(), json!({"count": count, "shortest_schedule_len": best[0].0, "shortest": best[0].2, "what": best[0].1}));
            let n = best.len() as u64;
            for (_, what, case) in &best {
                rep.violation(&sig, what, case.clone());
            }
            for _ in n..count {
                rep.violation(&sig, "", Value::Null); // counted, not printed (reporter prints 3 per signature)
            }
        }
        if !minimal.is_empty() {
            rep.extra("violations_minimal_schedules", Value::Object(minimal));
        }
    }
}

fn serde_json_map() -> vcommon::serde_json::Map<String, Value> {
    vcommon::serde_json::Map::new()
}

fn record(rep: &mut Reporter, fnd: &mut Findings, cfg: &Cfg, sched: &[Act], o: &Outcome, fam: &str) {
    rep.evals(o.evals.max(1));
    let sched = &sched[..o.executed.min(sched.len())];
    if o.nontrivial {
        rep.nontrivial(hash_of(&(cfg, sched)));
        rep.sample(|| json!({"case": case_json(cfg, sched, fam), "class": o.class, "trace": o.trace, "then_drained": o.drained}));
    }
    if o.send_pending {
        rep.count("runs_with_parked_sender");
    }
    rep.count_n("try_send_full_although_room", o.full_with_room);
    rep.count(&format!("runs|{}", o.class));
    let mut seen = vec![];
    for (sig, what) in &o.viol {
        if seen.contains(&sig) {
            continue;
        }
        seen.push(sig);
        fnd.add(
            sig,
            sched.len(),
            || format!("{what}; class={}; executed={:?}; then woken-only drain polled {:?}", o.class, o.trace, o.drained),
            || case_json(cfg, sched, fam),
        );
    }
}

// ---------------------------------------------------------------------------------------------
// exhaustive enumeration of schedules (tree search, every node = schedule prefix is executed)

fn explore(rep: &mut Reporter, fnd: &mut Findings, cfg: &Cfg, allow_spurious: bool, allow_cancel: bool, max_len: usize, fam: &str) -> u64 {
    let mut nodes = 0u64;
    let mut stack: Vec<Vec<Act>> = vec![vec![]];
    while let Some(prefix) = stack.pop() {
        let o = execute(cfg, &prefix, allow_spurious, allow_cancel, false);
        nodes += 1;
        record(rep, fnd, cfg, &prefix, &o, fam);
        if o.stop || prefix.len() >= max_len {
            continue;
        }
        // symmetry: among sender tasks with identical (mode, items), first use is in index order
        let mut touched = vec![false; cfg.senders.len()];
        for a in &prefix {
            if let Some(i) = a.sender() {
                touched[i] = true;
            }
        }
        for &a in o.enabled.iter().rev() {
            if let Some(i) = a.sender() {
                if i > 0 && !touched[i] && !touched[i - 1] && cfg.senders[i] == cfg.senders[i - 1] {
                    continue;
                }
            }
            let mut p = prefix.clone();
            p.push(a);
            stack.push(p);
        }
    }
    nodes
}

fn cfg(cap: Option<usize>, senders: &[(Mode, usize)]) -> Cfg {
    Cfg { cap, senders: senders.to_vec(), rx_stream: false }
}

// ---------------------------------------------------------------------------------------------
// random long schedules

fn random_run(rep: &mut Reporter, fnd: &mut Findings, rng: &mut Rng, len: usize) {
    let k = 1 + rng.below(4);
    let modes = [Mode::Fut, Mode::Fut, Mode::Sink, Mode::Try, Mode::Join];
    let senders: Vec<(Mode, usize)> = (0..k).map(|_| (*rng.choose(&modes), 1 + rng.below(4))).collect();
    let cap = match rng.below(5) {
        0 => None,
        1 | 2 => Some(1),
        3 => Some(2),
        _ => Some(3),
    };
    let c = Cfg { cap, senders, rx_stream: rng.chance(1, 2) };
    let (allow_spurious, allow_cancel) = match rng.below(5) {
        0 | 1 => (false, false),
        2 => (false, true),
        _ => (true, true),
    };
    let fam = if cap.is_none() { "random-unbounded" } else { "random-bounded" };
    // the schedule is grown step by step against a live harness so that only enabled actions are drawn
    let mut sched: Vec<Act> = vec![];
    let r = catch(|| {
        let mut h = Harness::new(&c);
        for _ in 0..len {
            let en = h.enabled(allow_spurious, allow_cancel);
            if en.is_empty() {
                break;
            }
            let polls: Vec<Act> = en.iter().copied().filter(|a| matches!(a, Act::PollS(_) | Act::PollR)).collect();
            let a = if !polls.is_empty() && rng.chance(85, 100) {
                *rng.choose(&polls)
            } else {
                // receiver close/drop rarely: they end most of the interesting behaviour
                let a = *rng.choose(&en);
                if matches!(a, Act::CloseR | Act::DropR) && rng.chance(3, 4) { *rng.choose(&en) } else { a }
            };
            sched.push(a);
            h.act(a);
            if !h.viol.is_empty() {
                break;
            }
            if !h.runnable() {
                h.judge_quiescence();
                if !h.viol.is_empty() {
                    break;
                }
            }
        }
    });
    if let Err(p) = r {
        fnd.add("C16|channel|panic", sched.len(), || format!("panic: {p}"), || case_json(&c, &sched, fam));
        return;
    }
    // judge by re-executing the recorded schedule (same path as --replay)
    let o = execute(&c, &sched, allow_spurious, allow_cancel, true);
    rep.count(fam);
    record(rep, fnd, &c, &sched, &o, fam);
}

// ---------------------------------------------------------------------------------------------

fn replay(rep: &mut Reporter, case: &Value) {
    let cap = case["cap"].as_u64().map(|c| c as usize);
    let senders: Vec<(Mode, usize)> = case["senders"]
        .as_array()
        .expect("senders")
        .iter()
        .map(|s| (Mode::parse(s["mode"].as_str().unwrap()), s["items"].as_u64().unwrap() as usize))
        .collect();
    let c = Cfg { cap, senders, rx_stream: case["rx_stream"].as_bool().unwrap_or(false) };
    let sched: Vec<Act> = case["schedule"].as_array().expect("schedule").iter().map(|a| Act::parse(a.as_str().unwrap())).collect();
    let fam = case["family"].as_str().unwrap_or("replay").to_string();
    let o = execute(&c, &sched, true, true, true);
    let mut fnd = Findings::default();
    record(rep, &mut fnd, &c, &sched, &o, &fam);
    eprintln!("class={} trace={:?} drained={:?}", o.class, o.trace, o.drained);
    fnd.report(rep);
}

// ---------------------------------------------------------------------------------------------
// Cross-check of the harness executor: the same situations as small ordinary async programs on
// `futures::executor::LocalPool` (a third-party executor: it polls woken tasks only). Not part of
// the verdict; `mon_mpsc --prop C16 probe-localpool` prints which tasks never finish.

fn probe_localpool() {
    use std::cell::RefCell;

    use futures::executor::LocalPool;
    use futures::task::LocalSpawnExt;

    /// Let every other runnable task have `n` turns first.
    async fn turns(n: usize) {
        for _ in 0..n {
            let mut yielded = false;
            std::future::poll_fn(|cx| {
                if yielded {
                    Poll::Ready(())
                } else {
                    yielded = true;
                    cx.waker().wake_by_ref();
                    Poll::Pending
                }
            })
            .await;
        }
    }

    fn run(name: &str, build: impl FnOnce(&futures::executor::LocalSpawner, Rc<RefCell<Vec<String>>>)) {
        let mut pool = LocalPool::new();
        let log = Rc::new(RefCell::new(vec![]));
        build(&pool.spawner(), log.clone());
        pool.run_until_stalled();
        eprintln!("{name}: executor stalled; finished tasks = {:?}", log.borrow());
    }

    run("last sender leaves through Sink::close while the receiver waits (cap 1)", |sp, log| {
        let (mut tx, mut rx) = mpsc::bounded::<u32>(1);
        let l = log.clone();
        sp.spawn_local(async move {
            let mut got = vec![];
            while let Some(x) = rx.recv().await {
                got.push(x);
            }
            l.borrow_mut().push(format!("receiver saw None after {got:?}"));
        })
        .unwrap();
        let l = log.clone();
        sp.spawn_local(async move {
            turns(3).await;
            tx.send(1).await.unwrap();
            turns(3).await;
            futures::SinkExt::close(&mut tx).await.unwrap();
            l.borrow_mut().push("sender closed".into());
        })
        .unwrap();
    });

    run("join!-style task and a plain sender (cap 1, buffer pre-filled)", |sp, log| {
        let (tx, mut rx) = mpsc::bounded::<u32>(1);
        tx.try_send(99).unwrap();
        let (tc, tj) = (tx.clone(), tx);
        let l = log.clone();
        sp.spawn_local(async move {
            tc.send(30).await.unwrap();
            l.borrow_mut().push("plain sender sent 30".into());
        })
        .unwrap();
        let l = log.clone();
        sp.spawn_local(async move {
            let (a, b) = futures::future::join(tj.send(10), tj.send(11)).await;
            a.unwrap();
            b.unwrap();
            l.borrow_mut().push("join task sent 10 and 11".into());
        })
        .unwrap();
        let l = log.clone();
        sp.spawn_local(async move {
            let mut got = vec![];
            while let Some(x) = rx.recv().await {
                got.push(x);
            }
            l.borrow_mut().push(format!("receiver saw None after {got:?}"));
        })
        .unwrap();
    });

    run("select!-style cancelled send and a plain sender (cap 1, buffer pre-filled)", |sp, log| {
        let (tx, mut rx) = mpsc::bounded::<u32>(1);
        tx.try_send(99).unwrap();
        let (ta, tb) = (tx.clone(), tx);
        let (cancel_tx, cancel_rx) = futures::channel::oneshot::channel::<()>();
        let l = log.clone();
        sp.spawn_local(async move {
            ta.send(10).await.unwrap();
            l.borrow_mut().push("plain sender sent 10".into());
        })
        .unwrap();
        let l = log.clone();
        sp.spawn_local(async move {
            turns(2).await;
            let send = Box::pin(tb.send(20));
            match futures::future::select(send, cancel_rx).await {
                futures::future::Either::Left(_) => l.borrow_mut().push("second sender sent 20".into()),
                futures::future::Either::Right(_) => l.borrow_mut().push("second sender gave up (send future dropped)".into()),
            }
        })
        .unwrap();
        let l = log.clone();
        sp.spawn_local(async move {
            turns(5).await;
            cancel_tx.send(()).unwrap();
            l.borrow_mut().push("canceller fired".into());
        })
        .unwrap();
        let l = log.clone();
        sp.spawn_local(async move {
            turns(10).await;
            let mut got = vec![];
            while let Some(x) = rx.recv().await {
                got.push(x);
            }
            l.borrow_mut().push(format!("receiver saw None after {got:?}"));
        })
        .unwrap();
    });
}

fn main() {
    let args = Args::parse();
    if args.prop == "NONE" {
        return;
    }
    if args.rest.iter().any(|a| a == "probe-localpool") {
        probe_localpool();
        return;
    }
    if args.prop != "C16" {
        eprintln!("mon_mpsc serves C16 only");
        std::process::exit(3);
    }
    let mut rep = Reporter::new("C16", args.seed);
    if let Some(case) = args.replay_case() {
        replay(&mut rep, &case);
        rep.finish("replay", false);
        return;
    }
    let rng = args.rng();
    let mut fnd = Findings::default();
    use Mode::*;

    // sender-task sets, grouped by number of tasks
    let sets1: Vec<Vec<(Mode, usize)>> = vec![vec![(Fut, 2)], vec![(Sink, 2)], vec![(Try, 2)], vec![(Join, 2)], vec![(Fut, 1)], vec![(Sink, 1)]];
    let sets2: Vec<Vec<(Mode, usize)>> = vec![
        vec![(Fut, 2), (Fut, 2)],
        vec![(Fut, 2), (Fut, 1)],
        vec![(Fut, 1), (Fut, 1)],
        vec![(Sink, 2), (Sink, 1)],
        vec![(Fut, 2), (Sink, 2)],
        vec![(Fut, 2), (Try, 2)],
        vec![(Sink, 2), (Try, 1)],
        vec![(Join, 2), (Fut, 1)],
        vec![(Join, 2), (Fut, 2)],
        vec![(Join, 2), (Sink, 1)],
    ];
    let sets3: Vec<Vec<(Mode, usize)>> = vec![
        vec![(Fut, 1), (Fut, 1), (Fut, 1)],
        vec![(Fut, 2), (Fut, 1), (Fut, 1)],
        vec![(Fut, 1), (Sink, 1), (Try, 1)],
        vec![(Sink, 1), (Sink, 1), (Sink, 1)],
        vec![(Join, 2), (Fut, 1), (Fut, 1)],
    ];
    // (woken-only depth, all-actions depth) per number of sender tasks
    let depth: [(usize, usize); 3] = match args.tier {
        Tier::Quick => [(10, 9), (10, 7), (9, 6)],
        Tier::Thorough => [(12, 10), (12, 9), (10, 8)],
        Tier::Miri => [(4, 3), (3, 3), (0, 0)],
    };
    let mut table = serde_json_map();
    let mut ci = 0usize;
    for (kidx, sets) in [&sets1, &sets2, &sets3].into_iter().enumerate() {
        let (dw, da) = depth[kidx];
        for (si, set) in sets.iter().enumerate() {
            for capn in [1usize, 2] {
                // under Miri (~0.2 s per executed schedule): capacity 1 and half of the task sets that park
                if (dw == 0 && da == 0) || (args.tier == Tier::Miri && (capn == 2 || set[0].1 < 2 || (set.len() == 2 && si % 2 == 1))) {
                    continue;
                }
                ci += 1;
                if !args.in_shard(ci) {
                    continue;
                }
                let c = cfg(Some(capn), set);
                let name: Vec<String> = set.iter().map(|(m, n)| format!("{}{n}", m.name())).collect();
                // (under Miri the woken-only schedules are only visited as part of the all-actions tree)
                let n1 = if args.tier == Tier::Miri { 0 } else { explore(&mut rep, &mut fnd, &c, false, false, dw, "enum-woken-only") };
                let n2 = explore(&mut rep, &mut fnd, &c, true, true, da, "enum-all-actions");
                rep.count_n("nodes_woken_only_enumeration", n1);
                rep.count_n("nodes_all_actions_enumeration", n2);
                table.insert(format!("cap{capn}:{}", name.join("+")), json!({"woken_only":{"max_len":dw,"schedules":n1},"all_actions":{"max_len":da,"schedules":n2}}));
            }
        }
    }
    // unbounded channels: no sender can park; FIFO, closure and receiver wake-ups remain
    for set in [&sets1[0], &sets1[1], &sets2[1], &sets2[4], &sets2[7], &sets3[2]] {
        ci += 1;
        if !args.in_shard(ci) {
            continue;
        }
        let c = cfg(None, set);
        let d = args.budget(7, 9, 2);
        let n = explore(&mut rep, &mut fnd, &c, true, true, if set.len() == 3 { d - 2 } else { d - 1 }, "enum-unbounded");
        rep.count_n("nodes_unbounded_enumeration", n);
    }
    rep.extra("enumeration", Value::Object(table));

    // random long schedules
    for i in 0..args.budget(150_000, 2_000_000, 8) {
        ci += 1;
        let mut r = rng.fork(i as u64);
        if args.in_shard(ci) {
            random_run(&mut rep, &mut fnd, &mut r, if args.tier == Tier::Miri { 25 } else { 60 });
        }
    }

    fnd.report(&mut rep);
    let miri = args.tier == Tier::Miri;
    rep.require(miri || rep.counter("runs|woken-only") > 10_000, "fewer than 10000 woken-only executions");
    rep.require(miri || rep.counter("runs|woken-only+cancelled-send") > 10_000, "fewer than 10000 executions with a cancelled send");
    rep.require(miri || rep.counter("runs|spurious-poll") > 10_000, "fewer than 10000 executions with a spurious poll");
    rep.require(miri || rep.counter("runs|woken-only+join-task") > 1_000, "fewer than 1000 executions with a join-style task");
    rep.require(miri || rep.counter("runs_with_parked_sender") > 10_000, "fewer than 10000 executions in which a sender had to wait for capacity");
    rep.require(miri || rep.counter("random-unbounded") > 100, "fewer than 100 random unbounded-channel runs");
    rep.finish(
        "every schedule (sequence of: poll sender task i / poll receiver / cancel a pending send / drop a sender task / close or drop the receiver) up to the tier's length (see extra.enumeration) for capacity 1..2 and the listed 1..3 sender-task sets, once restricted to what an executor produces (only woken tasks are polled, nothing cancelled) and once with every action; each schedule is followed by a woken-only drain to quiescence; plus unbounded channels and random length-60 schedules over <=4 tasks x <=4 items, capacity 1..3 or unbounded. Symmetric schedules (identical sender tasks renamed) are pruned. Every answer is judged against a FIFO queue model, every quiescent point by the lost-wake-up rule. Non-trivial = distinct (configuration, schedule) in which the channel woke a task that was parked on it",
        true,
    );
}
