//! C15 — `MergeSource` over `TaggedSource`s (hydro_deploy_integration): the merged stream is an
//! order-preserving, lossless, correctly tagged interleaving that ends exactly when every source has
//! ended and serves the sources round-robin.
//!
//! Workload: n scripted sources. A script is a string over {P,R,E}: the answer to the i-th poll is
//! `Pending`, `Ready(Some(Ok(next item)))` or `Ready(Some(Err(numbered io::Error)))`; once the script
//! is used up the source answers `Ready(None)`. The caller polls the merged stream until it ends.
//! Observed: the merged `Poll` sequence and the global log of inner polls (source, answer, merged
//! call number). All judgements come from these two logs.

use std::collections::BTreeSet;
use std::io;
use std::pin::Pin;
use std::sync::atomic::{AtomicU32, Ordering};
use std::sync::{Arc, Mutex};
use std::task::{Context, Poll, Wake, Waker};

use futures::Stream;
use hydro_deploy_integration::{MergeSource, TaggedSource};
use vcommon::{Args, Reporter, Rng, Tier, Value, catch, hash_of, json};

#[derive(Clone, Copy, Debug, PartialEq, Eq, Hash)]
enum Step {
    P,
    R,
    E,
}

#[derive(Clone, Copy, Debug, PartialEq, Eq)]
enum Ans {
    Pending,
    Item(u32),
    Err(u32),
    End,
}

#[derive(Clone, Copy, Debug)]
struct InnerPoll {
    src: usize,
    ans: Ans,
    call: usize,
    /// poll arrived after this source had already answered `Ready(None)`
    after_end: bool,
}

#[derive(Default)]
struct Log {
    polls: Vec<InnerPoll>,
    call: usize,
}

struct ScriptStream {
    src: usize,
    script: Vec<Step>,
    pos: usize,
    ended: bool,
    next_item: u32,
    log: Arc<Mutex<Log>>,
}

fn item_no(src: usize, k: u32) -> u32 {
    (src as u32 + 1) * 100 + k
}

impl Stream for ScriptStream {
    type Item = Result<u32, io::Error>;
    fn poll_next(self: Pin<&mut Self>, cx: &mut Context<'_>) -> Poll<Option<Self::Item>> {
        let me = self.get_mut();
        let mut log = me.log.lock().unwrap();
        let call = log.call;
        if me.ended {
            log.polls.push(InnerPoll { src: me.src, ans: Ans::End, call, after_end: true });
            return Poll::Ready(None);
        }
        let (ans, out) = match me.script.get(me.pos).copied() {
            None => {
                me.ended = true;
                (Ans::End, Poll::Ready(None))
            }
            Some(Step::P) => {
                // a real source would keep the waker and call it later; calling it right away is the
                // same promise ("poll me again") and lets the caller count forwarded wakers
                cx.waker().wake_by_ref();
                (Ans::Pending, Poll::Pending)
            }
            Some(Step::R) => {
                let v = item_no(me.src, me.next_item);
                me.next_item += 1;
                (Ans::Item(v), Poll::Ready(Some(Ok(v))))
            }
            Some(Step::E) => {
                let v = item_no(me.src, me.next_item);
                me.next_item += 1;
                (Ans::Err(v), Poll::Ready(Some(Err(io::Error::other(format!("e{v}"))))))
            }
        };
        me.pos += 1;
        log.polls.push(InnerPoll { src: me.src, ans, call, after_end: false });
        out
    }
}

struct CountWaker(AtomicU32);
impl Wake for CountWaker {
    fn wake(self: Arc<Self>) {
        self.0.fetch_add(1, Ordering::Relaxed);
    }
    fn wake_by_ref(self: &Arc<Self>) {
        self.0.fetch_add(1, Ordering::Relaxed);
    }
}

#[derive(Clone, Debug, Hash, PartialEq, Eq)]
struct Case {
    ids: Vec<u32>,
    scripts: Vec<Vec<Step>>,
}

fn script_str(s: &[Step]) -> String {
    s.iter()
        .map(|x| match x {
            Step::P => 'P',
            Step::R => 'R',
            Step::E => 'E',
        })
        .collect()
}

fn case_json(c: &Case, fam: &str) -> Value {
    json!({"engine":"mon_merge","family":fam,"ids":c.ids,
           "scripts": c.scripts.iter().map(|s| script_str(s)).collect::<Vec<_>>()})
}

#[derive(Clone, Debug, PartialEq, Eq)]
enum Out {
    Pending,
    Ok(u32, u32),
    Err(u32),
    Other(String),
    End,
}

type Merged = MergeSource<Result<(u32, u32), io::Error>, TaggedSource<u32, ScriptStream>>;

/// Run one case and judge it. Returns true if a violation was reported.
fn run_case(rep: &mut Reporter, c: &Case, fam: &str) -> bool {
    let n = c.scripts.len();
    let log = Arc::new(Mutex::new(Log::default()));
    let sources: Vec<Pin<Box<TaggedSource<u32, ScriptStream>>>> = (0..n)
        .map(|i| {
            Box::pin(TaggedSource::verif_new(
                c.ids[i],
                Box::pin(ScriptStream {
                    src: i,
                    script: c.scripts[i].clone(),
                    pos: 0,
                    ended: false,
                    next_item: 0,
                    log: log.clone(),
                }),
            ))
        })
        .collect();
    let mut merged: Merged = MergeSource::verif_new(sources);
    let cw = Arc::new(CountWaker(AtomicU32::new(0)));
    let waker = Waker::from(cw.clone());

    let total_steps: usize = c.scripts.iter().map(|s| s.len()).sum();
    // every merged poll that does not end the stream must consume >= 1 script step or the final
    // `None` of a source, so a correct run needs at most total_steps + n + 1 polls
    let cap = total_steps + n + 2;

    let mut outs: Vec<Out> = vec![];
    let mut viol: Option<(String, String)> = None;
    let mut ended_at: Option<usize> = None;
    for call in 0..cap {
        log.lock().unwrap().call = call;
        let r = catch(|| {
            let mut cx = Context::from_waker(&waker);
            Pin::new(&mut merged).poll_next(&mut cx)
        });
        match r {
            Err(p) => {
                viol = Some(("C15|MergeSource::poll_next|panic".into(), format!("merged poll #{call} panicked: {p}")));
                break;
            }
            Ok(Poll::Pending) => outs.push(Out::Pending),
            Ok(Poll::Ready(None)) => {
                outs.push(Out::End);
                ended_at = Some(call);
                break;
            }
            Ok(Poll::Ready(Some(Ok((tag, v))))) => outs.push(Out::Ok(tag, v)),
            Ok(Poll::Ready(Some(Err(e)))) => {
                let s = e.to_string();
                match s.strip_prefix('e').and_then(|x| x.parse::<u32>().ok()) {
                    Some(v) => outs.push(Out::Err(v)),
                    None => outs.push(Out::Other(s)),
                }
            }
        }
    }
    drop(merged);
    let log = log.lock().unwrap();
    let polls = &log.polls;

    // ---------------------------------------------------------------------------------------
    // oracle
    let no_end = ended_at.is_none() && viol.is_none();
    let mut judge = |sig: &str, what: String| {
        if viol.is_none() {
            viol = Some((sig.to_string(), what));
        }
    };
    rep.eval();
    if no_end {
        judge("C15|MergeSource::poll_next|no-end-within-step-cap", format!("no Ready(None) within {cap} polls"));
    }

    // per merged call: slice of inner polls
    let mut live = vec![true; n]; // by inner logs
    let mut emitted: Vec<Vec<(bool, u32)>> = vec![vec![]; n]; // (is_ok, number) handed out by each source
    let mut delivered: Vec<usize> = vec![0; n]; // how many of emitted[s] have been returned by the merged stream
    let mut idx = 0;
    let mut pending_answers = 0u32;
    for (call, out) in outs.iter().enumerate() {
        let start = idx;
        while idx < polls.len() && polls[idx].call == call {
            idx += 1;
        }
        let these = &polls[start..idx];
        rep.eval();
        let mut polled_now = BTreeSet::new();
        for p in these {
            polled_now.insert(p.src);
            if p.after_end {
                judge("C15|MergeSource::poll_next|polled-ended-source", format!("merged poll #{call} polled source {} after it had returned Ready(None)", p.src));
            }
            match p.ans {
                Ans::End => live[p.src] = false,
                Ans::Item(v) => emitted[p.src].push((true, v)),
                Ans::Err(v) => emitted[p.src].push((false, v)),
                Ans::Pending => pending_answers += 1,
            }
        }
        let any_live = live.iter().any(|&b| b);
        match out {
            Out::End => {
                if any_live {
                    let l: Vec<usize> = (0..n).filter(|&s| live[s]).collect();
                    judge("C15|MergeSource::poll_next|ended-before-all-sources-ended", format!("merged poll #{call} returned Ready(None) while sources {l:?} had not ended"));
                }
            }
            Out::Pending => {
                if !any_live {
                    judge("C15|MergeSource::poll_next|pending-after-all-sources-ended", format!("merged poll #{call} returned Pending although every source has ended"));
                }
                // Pending promises a wake-up: every source still live must have been asked in this call
                for s in 0..n {
                    if live[s] && !polled_now.contains(&s) {
                        judge("C15|MergeSource::poll_next|pending-without-polling-live-source", format!("merged poll #{call} returned Pending without polling live source {s}"));
                    }
                }
                // ... and none of them may have handed out an item that was then withheld
                if these.iter().any(|p| matches!(p.ans, Ans::Item(_) | Ans::Err(_))) {
                    judge("C15|MergeSource::poll_next|item-taken-but-pending-returned", format!("merged poll #{call} took an item from a source and returned Pending"));
                }
            }
            Out::Ok(tag, v) => {
                match c.ids.iter().position(|t| t == tag) {
                    None => judge("C15|TaggedSource|unknown-tag", format!("merged poll #{call} returned tag {tag} which no source has")),
                    Some(s) => {
                        let owner = (*v / 100) as usize;
                        if owner != s + 1 {
                            judge("C15|TaggedSource|wrong-tag", format!("item {v} of source {} delivered with tag {tag} (source {s})", owner.wrapping_sub(1)));
                        } else {
                            match emitted[s].get(delivered[s]) {
                                Some(&(true, w)) if w == *v => delivered[s] += 1,
                                Some(&(_, w)) => judge("C15|MergeSource::poll_next|per-sender-order-or-duplicate", format!("merged poll #{call} returned item {v} of source {s}, next undelivered item of that source is {w}")),
                                None => judge("C15|MergeSource::poll_next|per-sender-order-or-duplicate", format!("merged poll #{call} returned item {v} of source {s} which was already delivered or never produced")),
                            }
                        }
                    }
                }
            }
            Out::Err(v) => {
                let s = (*v / 100) as usize - 1;
                match emitted.get(s).and_then(|e| e.get(delivered[s])) {
                    Some(&(false, w)) if w == *v => delivered[s] += 1,
                    _ => judge("C15|MergeSource::poll_next|per-sender-order-or-duplicate", format!("merged poll #{call} returned error item {v} out of order / duplicated")),
                }
            }
            Out::Other(s) => judge("C15|MergeSource::poll_next|foreign-item", format!("merged poll #{call} returned an error no source produced: {s}")),
        }
    }
    // nothing lost: at the end every item a source handed out has been returned; every scripted item
    // has been handed out (implied by all sources having ended)
    if ended_at.is_some() {
        rep.eval();
        for s in 0..n {
            if delivered[s] != emitted[s].len() {
                judge("C15|MergeSource::poll_next|item-lost", format!("source {s} handed out {} items, merged stream returned {} of them before ending", emitted[s].len(), delivered[s]));
            }
            let scripted = c.scripts[s].iter().filter(|x| **x != Step::P).count();
            if !live[s] && emitted[s].len() != scripted {
                judge("C15|harness|script-not-consumed", format!("source {s} ended after {} of {} items", emitted[s].len(), scripted));
            }
        }
    }
    // waker forwarding: each inner Pending answer called the waker it was given exactly once
    rep.eval();
    let wakes = cw.0.load(Ordering::Relaxed);
    if wakes != pending_answers {
        judge("C15|MergeSource::poll_next|caller-waker-not-forwarded", format!("{pending_answers} inner Pending answers woke their context, the caller's waker saw {wakes} wakes"));
    }

    // fairness (round-robin): take a source s that answers Ready(Some) at inner poll j. Between its
    // previous poll (or the start) and j, no other source may have been polled more than once.
    rep.eval();
    let mut last_poll: Vec<Option<usize>> = vec![None; n];
    let mut removal_mid_run = false;
    let mut item_after_removal = false;
    let mut some_removed = false;
    for (j, p) in polls.iter().enumerate() {
        if matches!(p.ans, Ans::Item(_) | Ans::Err(_)) {
            let from = last_poll[p.src].map(|x| x + 1).unwrap_or(0);
            let mut cnt = vec![0u32; n];
            for q in &polls[from..j] {
                cnt[q.src] += 1;
            }
            if let Some(t) = (0..n).find(|&t| cnt[t] > 1) {
                let window: Vec<usize> = polls[from..=j].iter().map(|q| q.src).collect();
                judge(
                    "C15|MergeSource::poll_next|unfair-ready-source-waited-more-than-one-round",
                    format!("source {} had data ready but source {t} was polled {} times before it was served (inner polls in between, by source: {window:?})", p.src, cnt[t]),
                );
            }
            if some_removed {
                item_after_removal = true;
            }
        }
        if p.ans == Ans::End && !p.after_end {
            some_removed = true;
            // is some other source still live after this point?
            if polls[j + 1..].iter().any(|q| q.src != p.src && !q.after_end) {
                removal_mid_run = true;
            }
        }
        last_poll[p.src] = Some(j);
    }

    // coverage accounting
    let had_pending = polls.iter().any(|p| p.ans == Ans::Pending);
    if outs.iter().any(|o| *o == Out::Pending) {
        rep.count("cases_with_merged_pending");
    }
    if removal_mid_run {
        rep.count("cases_with_removal_mid_run");
    }
    if removal_mid_run && item_after_removal {
        rep.count("cases_with_item_after_removal");
    }
    rep.count(&format!("sources_{n}"));
    if n >= 2 && removal_mid_run && item_after_removal && had_pending {
        rep.nontrivial(hash_of(c));
        rep.sample(|| {
            json!({"case": case_json(c, fam),
                   "merged": outs.iter().map(|o| format!("{o:?}")).collect::<Vec<_>>(),
                   "inner_polls_by_source": polls.iter().map(|p| p.src).collect::<Vec<_>>()})
        });
    }
    if let Some((sig, what)) = viol {
        let inner: Vec<String> = polls.iter().map(|p| format!("#{}:s{}={:?}", p.call, p.src, p.ans)).collect();
        rep.violation(&sig, &format!("{what}; merged={outs:?}; inner={inner:?}"), case_json(c, fam));
        true
    } else {
        false
    }
}

/// All scripts over `alphabet` with length 0..=max_len.
fn all_scripts(alphabet: &[Step], max_len: usize) -> Vec<Vec<Step>> {
    let mut out = vec![vec![]];
    let mut layer = vec![vec![]];
    for _ in 0..max_len {
        let mut next = vec![];
        for s in &layer {
            for a in alphabet {
                let mut t: Vec<Step> = s.clone();
                t.push(*a);
                next.push(t);
            }
        }
        out.extend(next.iter().cloned());
        layer = next;
    }
    out
}

const IDS: [u32; 6] = [7, 3, 4_000_000_000, 0, 42, 5];

fn exhaustive(rep: &mut Reporter, args: &Args, n: usize, alphabet: &[Step], max_len: usize, fam: &str, case_index: &mut usize) {
    let scripts = all_scripts(alphabet, max_len);
    let k = scripts.len();
    let total = k.pow(n as u32);
    for code in 0..total {
        *case_index += 1;
        if !args.in_shard(*case_index) {
            continue;
        }
        let mut c = code;
        let mut ss = Vec::with_capacity(n);
        for _ in 0..n {
            ss.push(scripts[c % k].clone());
            c /= k;
        }
        let case = Case { ids: IDS[..n].to_vec(), scripts: ss };
        run_case(rep, &case, fam);
    }
    rep.count_n(&format!("exhaustive_{fam}_n{n}_len{max_len}"), total as u64);
}

fn random_case(rng: &mut Rng, n: usize, max_len: usize) -> Case {
    let mut ids: Vec<u32> = vec![];
    while ids.len() < n {
        let t = if rng.chance(1, 2) { rng.below(8) as u32 } else { rng.next_u64() as u32 };
        if !ids.contains(&t) {
            ids.push(t);
        }
    }
    // per-source mix so that some sources are mostly pending, some mostly ready, some short
    let scripts = (0..n)
        .map(|_| {
            let len = rng.below(max_len + 1);
            let p_pending = rng.below(80) as u32;
            (0..len)
                .map(|_| {
                    if rng.chance(p_pending, 100) {
                        Step::P
                    } else if rng.chance(1, 8) {
                        Step::E
                    } else {
                        Step::R
                    }
                })
                .collect()
        })
        .collect();
    Case { ids, scripts }
}

fn replay(rep: &mut Reporter, case: &Value) {
    let ids: Vec<u32> = case["ids"].as_array().expect("ids").iter().map(|x| x.as_u64().unwrap() as u32).collect();
    let scripts: Vec<Vec<Step>> = case["scripts"]
        .as_array()
        .expect("scripts")
        .iter()
        .map(|s| {
            s.as_str()
                .unwrap()
                .chars()
                .map(|ch| match ch {
                    'P' => Step::P,
                    'R' => Step::R,
                    'E' => Step::E,
                    _ => panic!("bad script char"),
                })
                .collect()
        })
        .collect();
    let fam = case["family"].as_str().unwrap_or("replay").to_string();
    run_case(rep, &Case { ids, scripts }, &fam);
}

fn main() {
    let args = Args::parse();
    if args.prop == "NONE" {
        return;
    }
    if args.prop != "C15" {
        eprintln!("mon_merge serves C15 only");
        std::process::exit(3);
    }
    let mut rep = Reporter::new("C15", args.seed);
    if let Some(case) = args.replay_case() {
        replay(&mut rep, &case);
        rep.finish("replay", false);
        return;
    }
    let mut rng = args.rng();
    let mut ci = 0usize;
    let pr = [Step::P, Step::R];
    let pre = [Step::P, Step::R, Step::E];

    // (1) bounded-exhaustive
    run_case(&mut rep, &Case { ids: vec![], scripts: vec![] }, "exh-pr"); // no source at all: ends at once
    match args.tier {
        Tier::Quick => {
            for n in 1..=3 {
                exhaustive(&mut rep, &args, n, &pr, 5, "exh-pr", &mut ci); // 63^3 = 250 047
                exhaustive(&mut rep, &args, n, &pre, 3, "exh-pre", &mut ci); // 40^3 = 64 000
            }
            exhaustive(&mut rep, &args, 4, &pr, 3, "exh-pr", &mut ci); // 15^4 = 50 625
        }
        Tier::Thorough => {
            for n in 1..=2 {
                exhaustive(&mut rep, &args, n, &pre, 6, "exh-pre", &mut ci); // 1093^2
            }
            exhaustive(&mut rep, &args, 3, &pr, 6, "exh-pr", &mut ci); // 127^3 = 2.0e6
            exhaustive(&mut rep, &args, 3, &pre, 4, "exh-pre", &mut ci); // 121^3 = 1.8e6
            exhaustive(&mut rep, &args, 4, &pr, 4, "exh-pr", &mut ci); // 31^4 = 9.2e5
            exhaustive(&mut rep, &args, 4, &pre, 3, "exh-pre", &mut ci); // 40^4 = 2.6e6
        }
        Tier::Miri => {
            for n in 1..=3 {
                exhaustive(&mut rep, &args, n, &pr, 2, "exh-pr", &mut ci);
            }
        }
    }

    // (2) random: 4 sources x <= 12 steps (and a share with 2..6 sources)
    for i in 0..args.budget(400_000, 3_000_000, 30) {
        ci += 1;
        let n = if i % 3 == 0 { 2 + rng.below(5) } else { 4 };
        let case = random_case(&mut rng, n, 12);
        if args.in_shard(ci) {
            run_case(&mut rep, &case, "random");
        }
    }

    let miri = args.tier == Tier::Miri;
    rep.require(miri || rep.counter("cases_with_item_after_removal") > 1000, "fewer than 1000 cases with an item served after a removal");
    rep.require(miri || rep.counter("cases_with_merged_pending") > 1000, "fewer than 1000 cases where the merged stream returned Pending");
    rep.require(miri || (1..=4).all(|n| rep.counter(&format!("sources_{n}")) > 0), "not every source count 1..4 seen");
    rep.finish(
        "every assignment of scripts (strings over {Pending, Ready(item)} / {Pending, Ready(item), Ready(Err)} up to the tier's length, then Ready(None)) to 1..3 and to 4 tagged sources, plus random 2..6 sources x <=12 steps with random tags; the caller polls until Ready(None). Judged from the merged Poll sequence and the inner poll log: tags, per-sender order, nothing lost/duplicated, end exactly when all ended, Pending only after asking every live source, no poll of an ended source, waker forwarded, ready source served before any other source is polled twice. Non-trivial = distinct case with >=2 sources, a Pending answer, a source ending while others are live and an item served after that removal",
        true,
    );
}
