//! The tombstone lattices' share of the crate-wide lattice laws (their main monitor, `mon_lattices`,
//! does not instantiate `SetUnionWithTombstones` / `MapUnionWithTombstones`):
//!   C01  merge is idempotent / commutative / associative   (valid replica states; model equality of the
//!        read-back states AND the crate's `==` where the backend implements it)
//!   C02  `merge` returns true exactly when the receiver's model value changed, and the result is the model join —
//!        every backend x every representation of the merged-in operand
//!   C03  `partial_cmp`, `==`, `is_bot`, `is_top`, `Default` agree with the merge-induced order
//! Same state space, item domains, read-back and model as the C05 part of this crate (`super`).

use std::collections::BTreeSet;

use lattices::collections::{ArrayMap, ArraySet, OptionSet, VecMap, VecSet};
use lattices::IsTop;

use super::*;

/// Number of representations of the merged-in operand (`alt` codes 0..N_ALT).
const N_ALT: u8 = 6;

pub(super) trait Law: Imp {
    fn tyname() -> String;
    /// Merge `other` = `st` built in representation `alt`; returns (flag, name of the operand type):
    /// 0 same type; 1 Vec/Vec ascending; 2 singleton/empty delta types when the state fits;
    /// 3 BTree-backed; 4 VecSet/VecMap in *descending* key order; 5 ArraySet/ArrayMap of exactly two
    /// live entries (descending) when the state fits. Codes that do not fit fall back to Vec/Vec.
    fn merge_repr(&mut self, st: &St, alt: u8) -> (bool, &'static str);
    fn bot_top(&self) -> (bool, bool);
    fn default_() -> Self;
}

impl<I: Item, T: Tomb<I>> Law for SetF<I, T> {
    fn tyname() -> String {
        format!("SetUnionWithTombstones<HashSet<{}>,{}>", I::INAME, T::TNAME)
    }
    fn merge_repr(&mut self, st: &St, alt: u8) -> (bool, &'static str) {
        let mut live: Vec<I> = items::<I>(st.live).collect();
        let mut tombs: Vec<I> = items::<I>(st.tombs).collect();
        let x = &mut self.0;
        match alt {
            0 => (x.merge(Self::build(st).0), "same"),
            2 if live.is_empty() && tombs.len() == 1 => {
                (x.merge(SetUnionWithTombstones::new(EmptySet::<I>::default(), SingletonSet(tombs.pop().unwrap()))), "EmptySet/SingletonSet")
            }
            2 if tombs.is_empty() && live.len() == 1 => {
                (x.merge(SetUnionWithTombstones::new(SingletonSet(live.pop().unwrap()), EmptySet::<I>::default())), "SingletonSet/EmptySet")
            }
            3 => (
                x.merge(SetUnionWithTombstones::new(live.into_iter().collect::<BTreeSet<I>>(), tombs.into_iter().collect::<BTreeSet<I>>())),
                "BTreeSet/BTreeSet",
            ),
            4 => {
                live.reverse();
                tombs.reverse();
                (x.merge(SetUnionWithTombstones::new(VecSet(live), VecSet(tombs))), "VecSet(desc)/VecSet(desc)")
            }
            5 if live.len() == 2 && tombs.len() <= 1 => {
                let (b, a) = (live.pop().unwrap(), live.pop().unwrap());
                (x.merge(SetUnionWithTombstones::new(ArraySet([b, a]), OptionSet(tombs.pop()))), "ArraySet2(desc)/OptionSet")
            }
            _ => (x.merge(SetUnionWithTombstones::new(live, tombs)), "Vec/Vec"),
        }
    }
    fn bot_top(&self) -> (bool, bool) {
        (IsBot::is_bot(&self.0), IsTop::is_top(&self.0))
    }
    fn default_() -> Self {
        SetF(Default::default())
    }
}

impl<I: Item, T: Tomb<I>, V: Val> Law for MapF<I, T, V> {
    fn tyname() -> String {
        let v = if V::KIND == VKind::Max { "Max<u8>" } else { "SetUnion<HashSet<u8>>" };
        format!("MapUnionWithTombstones<HashMap<{},{v}>,{}>", I::INAME, T::TNAME)
    }
    fn merge_repr(&mut self, st: &St, alt: u8) -> (bool, &'static str) {
        let mut live: Vec<(I, V)> = bits(st.live).map(|i| (I::of(i), V::of(st.vals[i]))).collect();
        let mut tombs: Vec<I> = items::<I>(st.tombs).collect();
        let x = &mut self.0;
        match alt {
            0 => (x.merge(Self::build(st).0), "same"),
            2 if live.is_empty() && tombs.len() == 1 => {
                (x.merge(MapUnionWithTombstones::new(EmptyMap::<I, V>::default(), SingletonSet(tombs.pop().unwrap()))), "EmptyMap/SingletonSet")
            }
            2 if tombs.is_empty() && live.len() == 1 => {
                let (k, v) = live.pop().unwrap();
                (x.merge(MapUnionWithTombstones::new(SingletonMap(k, v), EmptySet::<I>::default())), "SingletonMap/EmptySet")
            }
            3 => (
                x.merge(MapUnionWithTombstones::new(
                    live.into_iter().collect::<std::collections::BTreeMap<I, V>>(),
                    tombs.into_iter().collect::<BTreeSet<I>>(),
                )),
                "BTreeMap/BTreeSet",
            ),
            4 => {
                live.reverse();
                tombs.reverse();
                let (k, v): (Vec<I>, Vec<V>) = live.into_iter().unzip();
                (x.merge(MapUnionWithTombstones::new(VecMap::new(k, v), VecSet(tombs))), "VecMap(desc)/VecSet(desc)")
            }
            5 if live.len() == 2 => {
                let ((k1, v1), (k0, v0)) = (live.pop().unwrap(), live.pop().unwrap());
                (x.merge(MapUnionWithTombstones::new(ArrayMap { keys: [k1, k0], vals: [v1, v0] }, tombs)), "ArrayMap2(desc)/Vec")
            }
            _ => (x.merge(MapUnionWithTombstones::new(live, tombs)), "Vec/Vec"),
        }
    }
    fn bot_top(&self) -> (bool, bool) {
        (IsBot::is_bot(&self.0), IsTop::is_top(&self.0))
    }
    fn default_() -> Self {
        MapF(Default::default())
    }
}

type EqFn<F> = Option<fn(&F, &F) -> bool>;
fn crate_eq<F: CmpImp>() -> EqFn<F> {
    Some(|a, b| F::cmp(a, b).1)
}
fn no_eq<F>() -> EqFn<F> {
    None
}

/// Calls `$f::<F>(args.., eq)` for every implementation of `$kind` (FST ones only if `$fst`).
macro_rules! each_impl {
    ($kind:expr, $fst:expr, $f:ident, $($a:expr),*) => {{
        match $kind {
            VKind::Unit => {
                $f::<SetF<u64, HashSet<u64>>>($($a),*, crate_eq());
                $f::<SetF<String, HashSet<String>>>($($a),*, crate_eq());
                $f::<SetF<u64, RoaringTombstoneSet>>($($a),*, no_eq());
                if $fst {
                    $f::<SetF<String, FstTombstoneSet<String>>>($($a),*, no_eq());
                }
            }
            VKind::Max => {
                $f::<MapF<u64, HashSet<u64>, Max<u8>>>($($a),*, crate_eq());
                $f::<MapF<String, HashSet<String>, Max<u8>>>($($a),*, crate_eq());
                $f::<MapF<u64, RoaringTombstoneSet, Max<u8>>>($($a),*, no_eq());
                if $fst {
                    $f::<MapF<String, FstTombstoneSet<String>, Max<u8>>>($($a),*, no_eq());
                }
            }
            VKind::SetU => {
                $f::<MapF<u64, HashSet<u64>, SetUnionHashSet<u8>>>($($a),*, crate_eq());
                $f::<MapF<String, HashSet<String>, SetUnionHashSet<u8>>>($($a),*, crate_eq());
                $f::<MapF<u64, RoaringTombstoneSet, SetUnionHashSet<u8>>>($($a),*, no_eq());
                if $fst {
                    $f::<MapF<String, FstTombstoneSet<String>, SetUnionHashSet<u8>>>($($a),*, no_eq());
                }
            }
        }
    }};
}

fn norm(o: &Obs) -> (BTreeMap<usize, u8>, BTreeSet<usize>) {
    (o.norm_live(), o.tombs.clone())
}
fn model1(kind: VKind, a: &St) -> M {
    model_of(kind, &[*a], &[0].into())
}
fn is_model_bot(m: &M) -> bool {
    m.live.is_empty() && m.tombs.is_empty()
}

// ---------------------------------------------------------------------------------------------
// C01

/// `xs` = 1, 2 or 3 states: idempotence (x⊔x and x⊔repr(x) for every operand representation),
/// commutativity, associativity. Two results are "the same lattice value" iff their read-backs are
/// model-equal, and — where the crate implements `==` — iff the crate says so.
fn c01<F: Law>(rep: &mut Reporter, kind: VKind, xs: &[St], eq: EqFn<F>) {
    let ty = F::tyname();
    let case = || json!({"engine": ENGINE, "mode": "c01", "kind": kind_name(kind), "states": xs.iter().map(|s| s.json()).collect::<Vec<_>>()});
    let m2 = |a: &St, b: &St| {
        let mut v = F::build(a);
        v.merge_same(F::build(b));
        v
    };
    // (law name, left, right) pairs that must be the same value
    let r = catch(|| -> Vec<(String, F, F)> {
        match xs {
            [x] => {
                let mut v = vec![("not-idempotent".to_string(), m2(x, x), F::build(x))];
                for alt in 1..N_ALT {
                    let mut l = F::build(x);
                    let (_, other) = l.merge_repr(x, alt);
                    v.push((format!("not-idempotent|merging-own-value-as-{other}"), l, F::build(x)));
                }
                v
            }
            [x, y] => vec![("not-commutative".to_string(), m2(x, y), m2(y, x))],
            [x, y, z] => {
                let mut l = m2(x, y);
                l.merge_same(F::build(z));
                let mut r = F::build(x);
                r.merge_same(m2(y, z));
                vec![("not-associative".to_string(), l, r)]
            }
            _ => unreachable!(),
        }
    });
    let pairs = match r {
        Err(p) => {
            rep.eval();
            return rep.violation(&format!("C01|{ty}|panic"), &p, case());
        }
        Ok(v) => v,
    };
    for (law, l, r) in &pairs {
        rep.eval();
        match (catch(|| l.observe()), catch(|| r.observe())) {
            (Ok(Ok(ol)), Ok(Ok(or))) => {
                if norm(&ol) != norm(&or) {
                    rep.violation(&format!("C01|{ty}|{law}|model"), &format!("left {} vs right {}", ol.json(), or.json()), case());
                }
            }
            (a, b) => rep.violation(&format!("C01|{ty}|{law}|state-reads-back-inconsistent"), &format!("{a:?} / {b:?}"), case()),
        }
        if let Some(eq) = eq {
            rep.eval();
            match catch(|| (eq(l, r), eq(r, l))) {
                Ok((true, true)) => {}
                Ok(e) => rep.violation(&format!("C01|{ty}|{law}|crate-eq"), &format!("the crate's == on the two results gives {e:?}"), case()),
                Err(p) => rep.violation(&format!("C01|{ty}|{law}|crate-eq-panics"), &p, case()),
            }
        }
    }
    rep.count(match xs.len() {
        1 => "idempotence",
        2 => "commutativity",
        _ => "associativity",
    });
}

fn c01_group(rep: &mut Reporter, kind: VKind, xs: &[St], fst: bool) {
    each_impl!(kind, fst, c01, rep, kind, xs);
    // non-trivial: the values are pairwise different and not bottom (a triple also needs some deletion at work)
    let ms: Vec<M> = xs.iter().map(|x| model1(kind, x)).collect();
    let distinct = (0..ms.len()).all(|i| !is_model_bot(&ms[i]) && (0..i).all(|j| ms[i] != ms[j]));
    if distinct && (xs.len() < 3 || deletion_matters(xs)) {
        rep.nontrivial(hash_of(&("c01", kind, xs)));
        rep.sample(|| json!({"kind": kind_name(kind), "states": xs.iter().map(|s| s.json()).collect::<Vec<_>>()}));
    }
}

// ---------------------------------------------------------------------------------------------
// C02

fn c02<F: Law>(rep: &mut Reporter, kind: VKind, a: &St, b: &St, alt: u8, _eq: EqFn<F>) {
    let ty = F::tyname();
    let case = || json!({"engine": ENGINE, "mode": "c02", "kind": kind_name(kind), "a": a.json(), "b": b.json(), "alt": alt});
    let sts = [*a, *b];
    let before = model_of(kind, &sts, &[0].into());
    let after = model_of(kind, &sts, &[0, 1].into());
    let r = catch(|| {
        let mut x = F::build(a);
        let (flag, other) = x.merge_repr(b, alt);
        (flag, other, x.observe())
    });
    rep.eval();
    match r {
        Err(p) => rep.violation(&format!("C02|{ty}::merge|panic"), &p, case()),
        Ok((_, other, Err(e))) => rep.violation(&format!("C02|{ty}::merge<{other}>|state-reads-back-inconsistent"), &e, case()),
        Ok((flag, other, Ok(obs))) => {
            rep.count(&format!("operand:{other}"));
            if norm(&obs) != (after.live.clone(), after.tombs.clone()) {
                rep.violation(
                    &format!("C02|{ty}::merge<{other}>|result-differs-from-model-join"),
                    &format!("after merge {}, model join live {:?} tombs {:?}", obs.json(), after.live, after.tombs),
                    case(),
                );
                return;
            }
            rep.eval();
            let changed = after != before;
            rep.count(if changed { "model_changed" } else { "model_unchanged" });
            if flag != changed {
                rep.violation(
                    &format!("C02|{ty}::merge<{other}>|changed-flag-wrong|returned-{flag}"),
                    &format!("merge returned {flag}; model receiver {}", if changed { "grew" } else { "did not change" }),
                    case(),
                );
            }
        }
    }
}

/// Colliding live keys of which some grow the receiver and some do not (the flag must be OR-ed, not overwritten).
fn mixed_growth(kind: VKind, a: &St, b: &St) -> bool {
    let both = a.live & b.live & !a.tombs & !b.tombs;
    let grows = |i: usize| vjoin(kind, a.vals[i], b.vals[i]) != a.vals[i];
    bits(both).any(grows) && bits(both).any(|i| !grows(i))
}

fn c02_group(rep: &mut Reporter, kind: VKind, a: &St, b: &St, alt: u8, fst: bool) {
    each_impl!(kind, fst, c02, rep, kind, a, b, alt);
    let (ma, mb) = (model1(kind, a), model1(kind, b));
    if !is_model_bot(&mb) && ma != mb {
        rep.nontrivial(hash_of(&("c02", kind, a, b)));
        rep.sample(|| json!({"kind": kind_name(kind), "a": a.json(), "b": b.json(), "alt": alt}));
    }
    if kind != VKind::Unit && mixed_growth(kind, a, b) {
        rep.count("pairs_with_mixed_growth_on_colliding_keys");
    }
}

// ---------------------------------------------------------------------------------------------
// C03

fn c03_unary<F: Law>(rep: &mut Reporter, kind: VKind, a: &St, _eq: EqFn<F>) {
    let ty = F::tyname();
    let case = || json!({"engine": ENGINE, "mode": "c03-unary", "kind": kind_name(kind), "a": a.json()});
    let want_bot = is_model_bot(&model1(kind, a));
    rep.eval();
    match catch(|| F::build(a).bot_top()) {
        Err(p) => rep.violation(&format!("C03|{ty}|is_bot-or-is_top-panics"), &p, case()),
        Ok((bot, top)) => {
            rep.count(if want_bot { "unary_bottom" } else { "unary_non_bottom" });
            if bot != want_bot {
                rep.violation(&format!("C03|{ty}|is_bot-wrong|returned-{bot}"), &format!("is_bot()={bot}, model least element: {want_bot}"), case());
            }
            // over an unbounded item domain the tombstone lattices have no greatest element
            if top {
                rep.violation(&format!("C03|{ty}|is_top-wrong|returned-true"), "is_top()=true, but a strictly larger value exists (tombstone one more item)", case());
            }
        }
    }
}

fn c03_default<F: Law>(rep: &mut Reporter, kind: VKind, _eq: EqFn<F>) {
    let ty = F::tyname();
    let case = || json!({"engine": ENGINE, "mode": "c03-default", "kind": kind_name(kind)});
    rep.eval();
    match catch(|| {
        let d = F::default_();
        (d.observe(), d.bot_top().0)
    }) {
        Err(p) => rep.violation(&format!("C03|{ty}|default-panics"), &p, case()),
        Ok((Ok(o), bot)) if o.norm_live().is_empty() && o.tombs.is_empty() && bot => rep.count("default_is_bottom"),
        Ok((o, bot)) => rep.violation(&format!("C03|{ty}|default-not-bottom"), &format!("Default reads back as {o:?}, is_bot()={bot}"), case()),
    }
}

/// One cross-representation comparison `l ? r` against the model answer.
fn cross_one<L: PartialOrd<R> + PartialEq<R>, R>(rep: &mut Reporter, names: (&str, &str), l: L, r: R, want: Option<Ordering>, case: &dyn Fn() -> Value) {
    let site = format!("C03|{} vs {}", names.0, names.1);
    rep.eval();
    match catch(|| (l.partial_cmp(&r), l == r)) {
        Err(p) => rep.violation(&format!("{site}|partial_cmp-or-eq-panics"), &p, case()),
        Ok((got, eq)) => {
            rep.count("cross_representation_comparisons");
            if got != want {
                rep.violation(&format!("{site}|partial_cmp-wrong|{}-for-{}", ord_name(got), ord_name(want)), &format!("partial_cmp gives {}, merge-induced order is {}", ord_name(got), ord_name(want)), case());
            }
            if eq != (want == Some(Ordering::Equal)) {
                rep.violation(&format!("{site}|eq-wrong|returned-{eq}"), &format!("== gives {eq}, model order is {}", ord_name(want)), case());
            }
        }
    }
}

fn model_cmp(kind: VKind, a: &St, b: &St) -> Option<Ordering> {
    match (model_le(kind, a, b), model_le(kind, b, a)) {
        (true, true) => Some(Ordering::Equal),
        (true, false) => Some(Ordering::Less),
        (false, true) => Some(Ordering::Greater),
        (false, false) => None,
    }
}

/// Cross-representation `partial_cmp` / `==` (u64 items): HashSet-, BTree- and Vec-backed states against each
/// other and against the singleton/empty delta types.
fn c03_cross(rep: &mut Reporter, kind: VKind, a: &St, b: &St) {
    let want = model_cmp(kind, a, b);
    let case = || json!({"engine": ENGINE, "mode": "c03-cross", "kind": kind_name(kind), "a": a.json(), "b": b.json()});
    let lv = |s: &St| items::<u64>(s.live).collect::<Vec<u64>>();
    let tv = |s: &St| items::<u64>(s.tombs).collect::<Vec<u64>>();
    match kind {
        VKind::Unit => {
            let h = |s: &St| SetUnionWithTombstones::new(lv(s).into_iter().collect::<HashSet<u64>>(), tv(s).into_iter().collect::<HashSet<u64>>());
            let bt = |s: &St| SetUnionWithTombstones::new(lv(s).into_iter().collect::<BTreeSet<u64>>(), tv(s).into_iter().collect::<BTreeSet<u64>>());
            let vs = |s: &St| SetUnionWithTombstones::new(VecSet(lv(s)), VecSet(tv(s)));
            cross_one(rep, ("SetUWT<HashSet,HashSet>", "SetUWT<BTreeSet,BTreeSet>"), h(a), bt(b), want, &case);
            cross_one(rep, ("SetUWT<BTreeSet,BTreeSet>", "SetUWT<VecSet,VecSet>"), bt(a), vs(b), want, &case);
            cross_one(rep, ("SetUWT<VecSet,VecSet>", "SetUWT<HashSet,HashSet>"), vs(a), h(b), want, &case);
            if b.live == 0 && b.tombs.count_ones() == 1 {
                let d = SetUnionWithTombstones::new(EmptySet::<u64>::default(), SingletonSet(tv(b)[0]));
                cross_one(rep, ("SetUWT<HashSet,HashSet>", "SetUWT<EmptySet,SingletonSet>"), h(a), d, want, &case);
            }
            if b.tombs == 0 && b.live.count_ones() == 1 {
                let d = SetUnionWithTombstones::new(SingletonSet(lv(b)[0]), EmptySet::<u64>::default());
                cross_one(rep, ("SetUWT<HashSet,HashSet>", "SetUWT<SingletonSet,EmptySet>"), h(a), d, want, &case);
            }
        }
        VKind::Max => cross_maps::<Max<u8>>(rep, a, b, want, &case),
        VKind::SetU => cross_maps::<SetUnionHashSet<u8>>(rep, a, b, want, &case),
    }
}

fn cross_maps<V: Val>(rep: &mut Reporter, a: &St, b: &St, want: Option<Ordering>, case: &dyn Fn() -> Value) {
    let lv = |s: &St| bits(s.live).map(|i| (u64::of(i), V::of(s.vals[i]))).collect::<Vec<(u64, V)>>();
    let tv = |s: &St| items::<u64>(s.tombs).collect::<Vec<u64>>();
    let h = |s: &St| MapUnionWithTombstones::new(lv(s).into_iter().collect::<HashMap<u64, V>>(), tv(s).into_iter().collect::<HashSet<u64>>());
    let bt = |s: &St| MapUnionWithTombstones::new(lv(s).into_iter().collect::<BTreeMap<u64, V>>(), tv(s).into_iter().collect::<BTreeSet<u64>>());
    let vm = |s: &St| {
        let (k, v): (Vec<u64>, Vec<V>) = lv(s).into_iter().rev().unzip();
        MapUnionWithTombstones::new(VecMap::new(k, v), VecSet(tv(s)))
    };
    cross_one(rep, ("MapUWT<HashMap,HashSet>", "MapUWT<BTreeMap,BTreeSet>"), h(a), bt(b), want, case);
    cross_one(rep, ("MapUWT<BTreeMap,BTreeSet>", "MapUWT<VecMap,VecSet>"), bt(a), vm(b), want, case);
    cross_one(rep, ("MapUWT<VecMap,VecSet>", "MapUWT<HashMap,HashSet>"), vm(a), h(b), want, case);
    if b.live == 0 && b.tombs.count_ones() == 1 {
        let d = MapUnionWithTombstones::new(EmptyMap::<u64, V>::default(), SingletonSet(tv(b)[0]));
        cross_one(rep, ("MapUWT<HashMap,HashSet>", "MapUWT<EmptyMap,SingletonSet>"), h(a), d, want, case);
    }
    if b.tombs == 0 && b.live.count_ones() == 1 {
        let (k, v) = lv(b).pop().unwrap();
        let d = MapUnionWithTombstones::new(SingletonMap(k, v), EmptySet::<u64>::default());
        cross_one(rep, ("MapUWT<HashMap,HashSet>", "MapUWT<SingletonMap,EmptySet>"), h(a), d, want, case);
    }
}

// ---------------------------------------------------------------------------------------------

fn valid_random(rng: &mut Rng, kind: VKind) -> (usize, St) {
    let n = 3 + rng.below(6);
    (n, random_state(rng, kind, n, false))
}
/// A state related to `a`: a few facts added/removed, so that comparable and equal pairs are common.
fn nearby(rng: &mut Rng, kind: VKind, n: usize, a: &St) -> St {
    let mut b = *a;
    for _ in 0..rng.below(4) {
        let i = rng.below(n);
        match rng.below(3) {
            0 => {
                b.tombs |= 1 << i;
                b.live &= !(1 << i);
                b.vals[i] = 0;
            }
            1 if b.tombs >> i & 1 == 0 => {
                b.live |= 1 << i;
                b.vals[i] = match kind {
                    VKind::Unit => 1,
                    _ => rng.below(4) as u8,
                };
            }
            _ if b.tombs >> i & 1 == 0 => {
                b.live &= !(1 << i);
                b.vals[i] = 0;
            }
            _ => {}
        }
    }
    b
}

fn st_list(v: &Value) -> Vec<St> {
    v.as_array().expect("states").iter().map(St::from_json).collect()
}

pub(super) fn run(args: &Args) {
    let pid = args.prop.as_str();
    let mut rep = Reporter::new(pid, args.seed);
    if let Some(case) = args.replay_case() {
        let kind = kind_of_name(case["kind"].as_str().unwrap_or("")).expect("kind");
        match case["mode"].as_str().unwrap_or("") {
            "c01" => c01_group(&mut rep, kind, &st_list(&case["states"]), true),
            "c02" => c02_group(&mut rep, kind, &St::from_json(&case["a"]), &St::from_json(&case["b"]), case["alt"].as_u64().unwrap_or(0) as u8, true),
            "cmp" => check_cmp(&mut rep, pid, kind, &St::from_json(&case["a"]), &St::from_json(&case["b"])),
            "c03-cross" => c03_cross(&mut rep, kind, &St::from_json(&case["a"]), &St::from_json(&case["b"])),
            "c03-unary" => each_impl!(kind, true, c03_unary, &mut rep, kind, &St::from_json(&case["a"])),
            "c03-default" => each_impl!(kind, true, c03_default, &mut rep, kind),
            m => panic!("unknown replay mode {m}"),
        }
        return rep.finish("replay", false);
    }
    let mut rng = args.rng();
    let tier = args.tier;
    let miri = tier == Tier::Miri;
    let kinds = [VKind::Unit, VKind::Max, VKind::SetU];
    // valid states: sets over 3 items (27); maps over 3 keys x value codes {0,1,2} (125) and over 2 keys x codes {0..3} (36)
    let sets27: Vec<St> = (0..64).map(|c| set_state(3, c)).filter(|s| s.valid()).collect();
    let maps125: Vec<St> = (0..512).map(|c| map_state(3, 3, c)).filter(|s| s.valid()).collect();
    let maps36: Vec<St> = (0..100).map(|c| map_state(2, 4, c)).filter(|s| s.valid()).collect();
    fn pick<'a>(kind: VKind, s: &'a Vec<St>, m: &'a Vec<St>) -> &'a Vec<St> {
        if kind == VKind::Unit { s } else { m }
    }

    match pid {
        "C01" => {
            let mut n = 0usize;
            for kind in kinds {
                let u = pick(kind, &sets27, &maps36);
                let u: &[St] = if miri { &u[..3] } else { u };
                for x in u {
                    c01_group(&mut rep, kind, &[*x], true);
                    for y in u {
                        c01_group(&mut rep, kind, &[*x, *y], true);
                        for z in u {
                            n += 1;
                            // each FST merge rebuilds the FST (~100 µs): it takes every 16th triple (thorough: 4th)
                            c01_group(&mut rep, kind, &[*x, *y, *z], n % args.budget(16, 4, 1) == 0);
                        }
                    }
                }
            }
            for h in 0..args.budget(3_000, 60_000, 3) {
                let kind = kinds[h % 3];
                let (n, x) = valid_random(&mut rng, kind);
                let y = if rng.chance(1, 2) { nearby(&mut rng, kind, n, &x) } else { random_state(&mut rng, kind, n, false) };
                let z = if rng.chance(1, 2) { nearby(&mut rng, kind, n, &y) } else { random_state(&mut rng, kind, n, false) };
                c01_group(&mut rep, kind, &[x], true);
                c01_group(&mut rep, kind, &[x, y], true);
                c01_group(&mut rep, kind, &[x, y, z], true);
            }
            rep.require(miri || rep.counter("associativity") >= 100_000, "fewer than 100000 associativity judgements");
            rep.finish(
                "Tombstone lattices only (12 instantiations: set / map-with-Max / map-with-SetUnion values x HashSet(u64), HashSet(String), Roaring, FST tombstones). Valid replica states: all 27 set states over 3 items and all 36 map states over 2 keys x 4 value codes (incl. bottom) — idempotence on every single (also merging the value's own copy in 5 other operand representations), commutativity on every ordered pair, associativity on the full cube (FST on every 16th / thorough 4th triple); plus 3 000 (60 000) random triples over 3..8 items. Two results are the same value iff their read-backs are model-equal and, for the HashSet backend, the crate's == says so in both directions. Non-trivial = distinct tuple of pairwise different non-bottom values (triples: with a deletion at work).",
                true,
            );
        }
        "C02" => {
            let mut n = 0usize;
            for kind in kinds {
                let u = pick(kind, &sets27, &maps125);
                let u: &[St] = if miri { &u[..4] } else { u };
                for a in u {
                    for b in u {
                        n += 1;
                        for alt in 0..N_ALT {
                            // FST: one operand representation per pair, rotating (thorough: all)
                            let fst = tier == Tier::Thorough || n % N_ALT as usize == alt as usize;
                            c02_group(&mut rep, kind, a, b, alt, fst);
                        }
                    }
                }
            }
            for h in 0..args.budget(6_000, 120_000, 4) {
                let kind = kinds[h % 3];
                let (n, a) = valid_random(&mut rng, kind);
                let b = if rng.chance(1, 2) { nearby(&mut rng, kind, n, &a) } else { random_state(&mut rng, kind, n, false) };
                let (a, b) = if rng.chance(1, 2) { (a, b) } else { (b, a) };
                c02_group(&mut rep, kind, &a, &b, rng.below(N_ALT as usize) as u8, true);
            }
            for o in ["same", "Vec/Vec", "BTreeSet/BTreeSet", "BTreeMap/BTreeSet", "VecSet(desc)/VecSet(desc)", "VecMap(desc)/VecSet(desc)", "ArraySet2(desc)/OptionSet", "ArrayMap2(desc)/Vec", "EmptySet/SingletonSet", "SingletonSet/EmptySet", "EmptyMap/SingletonSet", "SingletonMap/EmptySet"] {
                rep.require(miri || rep.counter(&format!("operand:{o}")) >= 200, &format!("fewer than 200 merges with a {o} operand"));
            }
            rep.require(miri || rep.counter("pairs_with_mixed_growth_on_colliding_keys") >= 1_000, "fewer than 1000 map pairs where one colliding key grows the receiver and another does not");
            rep.require(miri || (rep.counter("model_changed") >= 10_000 && rep.counter("model_unchanged") >= 10_000), "both flag outcomes not seen 10000 times");
            rep.finish(
                "Tombstone lattices only (12 instantiations). Every ordered pair (receiver, operand) of all 27 valid set states over 3 items and of all 125 valid map states over 3 keys x value codes {bottom,1,2}, with the operand in 6 representations: same type, Vec/Vec (ascending), singleton/empty delta types, BTreeSet/BTreeMap-backed, VecSet/VecMap in descending key order, ArraySet/ArrayMap of two entries (descending) — so multi-key operands with deterministic iteration order hit colliding keys in both orders; FST receivers take one representation per pair in rotation (thorough: all); plus 6 000 (120 000) random pairs over 3..8 items with 4 value codes. Judged: read-back after merge == model join, returned flag == (model of receiver changed). Non-trivial = distinct (receiver, operand) with a non-bottom operand different from the receiver.",
                true,
            );
        }
        "C03" => {
            for kind in kinds {
                let u = pick(kind, &sets27, &maps125);
                let u: &[St] = if miri { &u[..4] } else { u };
                each_impl!(kind, true, c03_default, &mut rep, kind);
                for a in u {
                    each_impl!(kind, true, c03_unary, &mut rep, kind, a);
                    for b in u {
                        check_cmp(&mut rep, pid, kind, a, b);
                        c03_cross(&mut rep, kind, a, b);
                    }
                }
            }
            for h in 0..args.budget(6_000, 120_000, 4) {
                let kind = kinds[h % 3];
                let (n, a) = valid_random(&mut rng, kind);
                let b = if rng.chance(2, 3) { nearby(&mut rng, kind, n, &a) } else { random_state(&mut rng, kind, n, false) };
                let (a, b) = if rng.chance(1, 2) { (a, b) } else { (b, a) };
                check_cmp(&mut rep, pid, kind, &a, &b);
                c03_cross(&mut rep, kind, &a, &b);
                each_impl!(kind, h % 8 == 0, c03_unary, &mut rep, kind, &a);
            }
            for o in ["None", "Less", "Equal", "Greater"] {
                rep.require(miri || rep.counter(&format!("cmp_{o}")) >= 500, &format!("fewer than 500 comparisons whose model answer is {o}"));
            }
            rep.require(miri || rep.counter("cross_representation_comparisons") >= 10_000, "fewer than 10000 cross-representation comparisons");
            rep.require(rep.counter("default_is_bottom") == 12 || rep.violations() > 0, "Default not judged for all 12 instantiations");
            rep.require(miri || (rep.counter("unary_bottom") >= 12 && rep.counter("unary_non_bottom") >= 1_000), "is_bot not seen both ways");
            rep.finish(
                "Tombstone lattices only. All ordered pairs of the 27 valid set states over 3 items and of the 125 valid map states over 3 keys x value codes {bottom,1,2} (Max and SetUnion values), plus 6 000 (120 000) random pairs over 3..8 items: partial_cmp and == of the HashSet-backed types (u64 and String items) and of 5 cross-representation pairings (HashSet vs BTree vs VecSet/VecMap backed, HashSet-backed vs the singleton/empty delta types) equal the merge-induced model order (a <= b iff a join b = b; equal iff both); is_bot equals 'model value is the least element' and is_top is false (no greatest element over an unbounded item domain) on every state for all 12 instantiations incl. Roaring and FST; Default reads back empty and is_bot. Roaring/FST-backed types implement no PartialOrd/PartialEq. Non-trivial = distinct ordered pair of different states.",
                true,
            );
        }
        _ => unreachable!(),
    }
}
