//! C05 — tombstone lattices never resurrect deleted items.
//!
//! Real code: `SetUnionWithTombstones` / `MapUnionWithTombstones` with the three tombstone backends of
//! `lattices::tombstone` (`HashSet`, `RoaringTombstoneSet`, `FstTombstoneSet<String>`).
//! Workload: merge histories ("plans") over small replica states `(live ⊆ D, tombs ⊆ D)`; after every merge
//! `as_reveal_ref()` is read back into index space and judged by a plain BTreeMap/BTreeSet model.
//!
//! Model (from the type docs: "union both sets, then set = set − tombstones"; map values merge key-wise,
//! bottom values are invisible):
//!   tombs(S) = ⋃ tombs_i,   live(S)[k] = ⊔ { v_i[k] } for k ∉ tombs(S)   (S = set of replicas merged so far).

use std::cmp::Ordering;
use std::collections::{BTreeMap, BTreeSet, HashMap, HashSet};
use std::fmt::Debug;
use std::hash::Hash;

use lattices::cc_traits::Len;
use lattices::collections::{EmptyMap, EmptySet, SingletonMap, SingletonSet};
use lattices::map_union_with_tombstones::MapUnionWithTombstones;
use lattices::set_union::SetUnionHashSet;
use lattices::set_union_with_tombstones::SetUnionWithTombstones;
use lattices::tombstone::{FstTombstoneSet, RoaringTombstoneSet, TombstoneSet};
use lattices::{IsBot, LatticeFrom, Max, Merge};
use vcommon::{Args, Reporter, Rng, Tier, Value, catch, hash_of, json};

mod laws;

const ENGINE: &str = "mon_tomb";
const MAXD: usize = 8;

// ---------------------------------------------------------------------------------------------
// Item domains: index 0..8 <-> concrete item. The first three are the "tiny" domain.

const U64S: [u64; MAXD] = [0, 7, (1 << 32) + 7, u64::MAX, 1, 65_536, 1 << 32, u64::MAX - 1];
const STRS: [&str; MAXD] = ["a", "b", "c", "", "ab", "abc", "ba", "\u{e9}"];

trait Item: Clone + Default + Eq + Hash + Ord + Debug + 'static {
    const INAME: &'static str;
    fn of(i: usize) -> Self;
    fn index(&self) -> Option<usize>;
}
impl Item for u64 {
    const INAME: &'static str = "u64";
    fn of(i: usize) -> Self {
        U64S[i]
    }
    fn index(&self) -> Option<usize> {
        U64S.iter().position(|x| x == self)
    }
}
impl Item for String {
    const INAME: &'static str = "string";
    fn of(i: usize) -> Self {
        STRS[i].to_string()
    }
    fn index(&self) -> Option<usize> {
        STRS.iter().position(|x| x == self)
    }
}

fn bits(mask: u8) -> impl Iterator<Item = usize> {
    (0..MAXD).filter(move |i| mask >> i & 1 == 1)
}
fn items<I: Item>(mask: u8) -> impl Iterator<Item = I> {
    bits(mask).map(I::of)
}

// ---------------------------------------------------------------------------------------------
// Tombstone backends

trait Tomb<I: Item>: TombstoneSet<I> + Clone + Default + FromIterator<I> + IntoIterator<Item = I> + 'static {
    const TNAME: &'static str;
    /// Building an FST costs ~100 µs (the builder zeroes a large registry), so it gets a smaller share
    /// of the workload (see `Group::fst_every`).
    const IS_FST: bool = false;
    fn make(mask: u8) -> Self {
        items::<I>(mask).collect()
    }
}
impl<I: Item> Tomb<I> for HashSet<I> {
    const TNAME: &'static str = "hashset";
}
impl Tomb<u64> for RoaringTombstoneSet {
    const TNAME: &'static str = "roaring";
}
impl Tomb<String> for FstTombstoneSet<String> {
    const TNAME: &'static str = "fst";
    const IS_FST: bool = true;
    /// Input replicas are cloned from a per-mask cache (each mask still goes through `from_iter`
    /// once); the merges themselves always run the real rebuild.
    fn make(mask: u8) -> Self {
        thread_local! {
            static CACHE: std::cell::RefCell<HashMap<u8, FstTombstoneSet<String>>> = Default::default();
        }
        CACHE.with(|c| c.borrow_mut().entry(mask).or_insert_with(|| items::<String>(mask).collect()).clone())
    }
}

/// Read a tombstone set back into index space through *all three* of its read paths (iteration, `len`,
/// `contains`); they must tell the same story.
fn obs_tombs<I: Item, T: Tomb<I>>(t: &T) -> Result<BTreeSet<usize>, String> {
    let mut out = BTreeSet::new();
    let mut n = 0usize;
    for it in t.clone().into_iter() {
        n += 1;
        match it.index() {
            Some(i) => {
                if !out.insert(i) {
                    return Err(format!("tombstone iteration yields {it:?} twice"));
                }
            }
            None => return Err(format!("tombstone set holds {it:?}, which was never inserted")),
        }
    }
    let l = Len::len(t);
    if l != n {
        return Err(format!("tombstone len()={l} but iteration yields {n} items"));
    }
    for i in 0..MAXD {
        let c = TombstoneSet::contains(t, &I::of(i));
        if c != out.contains(&i) {
            return Err(format!("tombstone contains({:?})={c} but iteration says {}", I::of(i), !c));
        }
    }
    Ok(out)
}

// ---------------------------------------------------------------------------------------------
// Map values: a 2-bit code per value. Max<u8>: the number itself (join = max, bottom = 0);
// SetUnion<HashSet<u8>>: bitmask over elements {0,1} (join = or, bottom = 0).

#[derive(Clone, Copy, Debug, PartialEq, Eq, Hash)]
enum VKind {
    Unit, // set variant: every live item carries 1
    Max,
    SetU,
}
fn vjoin(k: VKind, a: u8, b: u8) -> u8 {
    match k {
        VKind::Unit | VKind::Max => a.max(b),
        VKind::SetU => a | b,
    }
}
fn kind_name(k: VKind) -> &'static str {
    match k {
        VKind::Unit => "set",
        VKind::Max => "map-max",
        VKind::SetU => "map-setunion",
    }
}
fn kind_of_name(s: &str) -> Option<VKind> {
    [VKind::Unit, VKind::Max, VKind::SetU].into_iter().find(|k| kind_name(*k) == s)
}

trait Val: Clone + Default + 'static + Merge<Self> + LatticeFrom<Self> + IsBot + PartialOrd + PartialEq {
    const KIND: VKind;
    fn of(code: u8) -> Self;
    fn code(&self) -> Option<u8>;
}
impl Val for Max<u8> {
    const KIND: VKind = VKind::Max;
    fn of(code: u8) -> Self {
        Max::new(code)
    }
    fn code(&self) -> Option<u8> {
        let c = *self.as_reveal_ref();
        (c < 4).then_some(c)
    }
}
impl Val for SetUnionHashSet<u8> {
    const KIND: VKind = VKind::SetU;
    fn of(code: u8) -> Self {
        SetUnionHashSet::new((0..2u8).filter(|b| code >> b & 1 == 1).collect())
    }
    fn code(&self) -> Option<u8> {
        let mut c = 0;
        for &e in self.as_reveal_ref().iter() {
            if e > 1 {
                return None;
            }
            c |= 1 << e;
        }
        Some(c)
    }
}

// ---------------------------------------------------------------------------------------------
// Replica states (inputs), observations, model

/// One replica state over the index domain. `vals[i]` is the value code of live item `i` (1 for sets).
#[derive(Clone, Copy, Debug, PartialEq, Eq, Hash, PartialOrd, Ord)]
struct St {
    live: u8,
    tombs: u8,
    vals: [u8; MAXD],
}
impl St {
    /// The documented invariant: no item both in `set`/`map` and in `tombstones`.
    fn valid(&self) -> bool {
        self.live & self.tombs == 0
    }
    fn json(&self) -> Value {
        json!({
            "live": bits(self.live).map(|i| json!([i, self.vals[i]])).collect::<Vec<_>>(),
            "tombs": bits(self.tombs).collect::<Vec<_>>(),
        })
    }
    fn from_json(v: &Value) -> St {
        let mut st = St { live: 0, tombs: 0, vals: [0; MAXD] };
        for e in v["live"].as_array().expect("live") {
            let i = e[0].as_u64().unwrap() as usize;
            st.live |= 1 << i;
            st.vals[i] = e[1].as_u64().unwrap() as u8;
        }
        for e in v["tombs"].as_array().expect("tombs") {
            st.tombs |= 1 << e.as_u64().unwrap();
        }
        st
    }
    /// Items that are deleted in this replica: tombstoned and not live.
    fn dead(&self) -> u8 {
        self.tombs & !self.live
    }
}

/// What `as_reveal_ref()` shows, in index space (raw: bottom-valued map entries included).
#[derive(Clone, Debug, PartialEq, Eq, Hash)]
struct Obs {
    live: BTreeMap<usize, u8>,
    tombs: BTreeSet<usize>,
}
impl Obs {
    /// Live contents with bottom-valued entries dropped (the docs/tests treat them as invisible).
    fn norm_live(&self) -> BTreeMap<usize, u8> {
        self.live.iter().filter(|(_, v)| **v != 0).map(|(k, v)| (*k, *v)).collect()
    }
    fn json(&self) -> Value {
        json!({"live": self.live.iter().map(|(k, v)| json!([k, v])).collect::<Vec<_>>(), "tombs": self.tombs})
    }
}

/// Abstract lattice element (normalised).
#[derive(Clone, Debug, PartialEq, Eq)]
struct M {
    live: BTreeMap<usize, u8>,
    tombs: BTreeSet<usize>,
}

/// The model of "all replicas in `idx` merged": live = ⋃live − ⋃tombs (values joined), tombs = ⋃tombs.
fn model_of(kind: VKind, states: &[St], idx: &BTreeSet<usize>) -> M {
    let mut tombs = BTreeSet::new();
    let mut live: BTreeMap<usize, u8> = BTreeMap::new();
    for &r in idx {
        tombs.extend(bits(states[r].tombs));
        for i in bits(states[r].live) {
            let e = live.entry(i).or_insert(0);
            *e = vjoin(kind, *e, states[r].vals[i]);
        }
    }
    live.retain(|k, v| *v != 0 && !tombs.contains(k));
    M { live, tombs }
}

fn model_le(kind: VKind, a: &St, b: &St) -> bool {
    // a ≤ b  ⇔  a ⊔ b = b   (Merge docs: merge returning false means `other` came before `self`)
    let sts = [*a, *b];
    model_of(kind, &sts, &[0, 1].into()) == model_of(kind, &sts, &[1].into())
}

// ---------------------------------------------------------------------------------------------
// Implementations under test

trait Imp: Sized {
    fn name() -> String;
    fn is_fst() -> bool;
    fn build(st: &St) -> Self;
    fn merge_same(&mut self, other: Self) -> bool;
    /// Merge a freshly built `other` in a different representation (`Merge<Other>` is generic):
    /// alt 1 = Vec-backed, alt 2 = singleton/empty "delta" types when the state fits, else Vec.
    fn merge_alt(&mut self, st: &St, alt: u8) -> bool;
    fn observe(&self) -> Result<Obs, String>;
}

struct SetF<I, T>(SetUnionWithTombstones<HashSet<I>, T>);
impl<I: Item, T: Tomb<I>> Imp for SetF<I, T> {
    fn name() -> String {
        format!("set/{}-{}", T::TNAME, I::INAME)
    }
    fn is_fst() -> bool {
        T::IS_FST
    }
    fn build(st: &St) -> Self {
        SetF(SetUnionWithTombstones::new(items::<I>(st.live).collect(), T::make(st.tombs)))
    }
    fn merge_same(&mut self, other: Self) -> bool {
        self.0.merge(other.0)
    }
    fn merge_alt(&mut self, st: &St, alt: u8) -> bool {
        let live: Vec<I> = items::<I>(st.live).collect();
        let tombs: Vec<I> = items::<I>(st.tombs).collect();
        if alt == 2 && live.is_empty() && tombs.len() == 1 {
            return self.0.merge(SetUnionWithTombstones::new(EmptySet::<I>::default(), SingletonSet(tombs[0].clone())));
        }
        if alt == 2 && tombs.is_empty() && live.len() == 1 {
            return self.0.merge(SetUnionWithTombstones::new(SingletonSet(live[0].clone()), EmptySet::<I>::default()));
        }
        self.0.merge(SetUnionWithTombstones::new(live, tombs))
    }
    fn observe(&self) -> Result<Obs, String> {
        let (s, t) = self.0.as_reveal_ref();
        let mut live = BTreeMap::new();
        for it in s.iter() {
            match it.index() {
                Some(i) => {
                    live.insert(i, 1u8);
                }
                None => return Err(format!("live set holds {it:?}, which was never inserted")),
            }
        }
        Ok(Obs { live, tombs: obs_tombs::<I, T>(t)? })
    }
}

struct MapF<I, T, V>(MapUnionWithTombstones<HashMap<I, V>, T>);
impl<I: Item, T: Tomb<I>, V: Val> Imp for MapF<I, T, V> {
    fn name() -> String {
        format!("{}/{}-{}", kind_name(V::KIND), T::TNAME, I::INAME)
    }
    fn is_fst() -> bool {
        T::IS_FST
    }
    fn build(st: &St) -> Self {
        MapF(MapUnionWithTombstones::new(
            bits(st.live).map(|i| (I::of(i), V::of(st.vals[i]))).collect(),
            T::make(st.tombs),
        ))
    }
    fn merge_same(&mut self, other: Self) -> bool {
        self.0.merge(other.0)
    }
    fn merge_alt(&mut self, st: &St, alt: u8) -> bool {
        let live: Vec<(I, V)> = bits(st.live).map(|i| (I::of(i), V::of(st.vals[i]))).collect();
        let tombs: Vec<I> = items::<I>(st.tombs).collect();
        if alt == 2 && live.is_empty() && tombs.len() == 1 {
            return self.0.merge(MapUnionWithTombstones::new(EmptyMap::<I, V>::default(), SingletonSet(tombs[0].clone())));
        }
        if alt == 2 && tombs.is_empty() && live.len() == 1 {
            let (k, v) = live[0].clone();
            return self.0.merge(MapUnionWithTombstones::new(SingletonMap(k, v), EmptySet::<I>::default()));
        }
        self.0.merge(MapUnionWithTombstones::new(live, tombs))
    }
    fn observe(&self) -> Result<Obs, String> {
        let (m, t) = self.0.as_reveal_ref();
        let mut live = BTreeMap::new();
        for (k, v) in m.iter() {
            let Some(i) = k.index() else {
                return Err(format!("map holds key {k:?}, which was never inserted"));
            };
            let Some(c) = v.code() else {
                return Err(format!("map value at {k:?} holds data that was never inserted"));
            };
            if v.is_bot() != (c == 0) {
                return Err(format!("is_bot() of the value at {k:?} contradicts its contents"));
            }
            live.insert(i, c);
        }
        Ok(Obs { live, tombs: obs_tombs::<I, T>(t)? })
    }
}

// ---------------------------------------------------------------------------------------------
// Plans and traces

/// One merge: `slot[dst].merge(slot[src])`; `alt` picks the representation of a never-merged `src`.
#[derive(Clone, Copy, Debug, PartialEq, Eq, Hash)]
struct Op {
    dst: usize,
    src: usize,
    alt: u8,
}
type Plan = Vec<Op>;

fn seq_plan(perm: &[usize], alts: &[u8]) -> Plan {
    (1..perm.len()).map(|k| Op { dst: perm[0], src: perm[k], alt: alts[(k - 1) % alts.len()] }).collect()
}
/// Pairwise-then-combine: (p0⊔p1), (p2⊔p3), …, then fold the partial results.
fn tree_plan(perm: &[usize], alts: &[u8]) -> Plan {
    let mut ops = vec![];
    let mut heads = vec![];
    let mut k = 0;
    for c in perm.chunks(2) {
        if c.len() == 2 {
            ops.push(Op { dst: c[0], src: c[1], alt: alts[k % alts.len()] });
            k += 1;
        }
        heads.push(c[0]);
    }
    for h in heads.iter().skip(1) {
        ops.push(Op { dst: heads[0], src: *h, alt: 0 });
    }
    ops
}
fn plan_json(p: &Plan) -> Value {
    json!(p.iter().map(|o| json!([o.dst, o.src, o.alt])).collect::<Vec<_>>())
}

#[derive(Clone, Debug)]
enum StepOut {
    Ok { flag: bool, obs: Obs },
    /// The read-back itself was self-inconsistent / held foreign data.
    BadObs(String),
    Panic(String),
}

/// Run one plan on the real implementation `F`. Returns the initial observation of every slot that
/// gets built as a destination, then one `StepOut` per op (stops at the first non-Ok).
fn run_plan<F: Imp>(states: &[St], plan: &Plan) -> (Vec<(usize, Result<Obs, String>)>, Vec<StepOut>) {
    let mut slots: Vec<Option<F>> = states.iter().map(|_| None).collect();
    let mut consumed = vec![false; states.len()];
    let mut init = vec![];
    let mut out = vec![];
    for op in plan {
        assert!(op.dst != op.src && !consumed[op.dst] && !consumed[op.src], "malformed plan");
        if slots[op.dst].is_none() {
            match catch(|| {
                let f = F::build(&states[op.dst]);
                let o = f.observe();
                (f, o)
            }) {
                Ok((f, o)) => {
                    init.push((op.dst, o));
                    slots[op.dst] = Some(f);
                }
                Err(p) => {
                    out.push(StepOut::Panic(format!("constructing replica {}: {p}", op.dst)));
                    return (init, out);
                }
            }
        }
        consumed[op.src] = true;
        let src_built = slots[op.src].take();
        let dst = slots[op.dst].as_mut().unwrap();
        let r = catch(|| {
            let flag = match src_built {
                Some(s) => dst.merge_same(s),
                None if op.alt == 0 => dst.merge_same(F::build(&states[op.src])),
                None => dst.merge_alt(&states[op.src], op.alt),
            };
            (flag, dst.observe())
        });
        match r {
            Ok((flag, Ok(obs))) => out.push(StepOut::Ok { flag, obs }),
            Ok((_, Err(e))) => {
                out.push(StepOut::BadObs(e));
                return (init, out);
            }
            Err(p) => {
                out.push(StepOut::Panic(p));
                return (init, out);
            }
        }
    }
    (init, out)
}

type Runner = fn(&[St], &Plan) -> (Vec<(usize, Result<Obs, String>)>, Vec<StepOut>);

fn impls(kind: VKind) -> Vec<(String, Runner, bool)> {
    fn e<F: Imp>() -> (String, Runner, bool) {
        (F::name(), run_plan::<F>, F::is_fst())
    }
    match kind {
        VKind::Unit => vec![
            e::<SetF<u64, HashSet<u64>>>(),
            e::<SetF<String, HashSet<String>>>(),
            e::<SetF<u64, RoaringTombstoneSet>>(),
            e::<SetF<String, FstTombstoneSet<String>>>(),
        ],
        VKind::Max => vec![
            e::<MapF<u64, HashSet<u64>, Max<u8>>>(),
            e::<MapF<String, HashSet<String>, Max<u8>>>(),
            e::<MapF<u64, RoaringTombstoneSet, Max<u8>>>(),
            e::<MapF<String, FstTombstoneSet<String>, Max<u8>>>(),
        ],
        VKind::SetU => vec![
            e::<MapF<u64, HashSet<u64>, SetUnionHashSet<u8>>>(),
            e::<MapF<String, HashSet<String>, SetUnionHashSet<u8>>>(),
            e::<MapF<u64, RoaringTombstoneSet, SetUnionHashSet<u8>>>(),
            e::<MapF<String, FstTombstoneSet<String>, SetUnionHashSet<u8>>>(),
        ],
    }
}

// ---------------------------------------------------------------------------------------------
// The oracle for one group = (kind, states, plans); every plan merges *all* replicas.

struct Group<'a> {
    kind: VKind,
    fam: &'a str,
    states: &'a [St],
    plans: &'a [Plan],
    /// The FST backends run plan `i` iff `fst_every > 0 && i % fst_every == 0`.
    fst_every: usize,
}

fn case_json(g: &Group, plans: &[&Plan]) -> Value {
    json!({
        "engine": ENGINE, "mode": "history", "family": g.fam, "kind": kind_name(g.kind),
        "states": g.states.iter().map(|s| s.json()).collect::<Vec<_>>(),
        "plans": plans.iter().map(|p| plan_json(p)).collect::<Vec<_>>(),
    })
}

/// Is deletion actually at work: some item is deleted in one replica and live in another?
fn deletion_matters(states: &[St]) -> bool {
    let dead: u8 = states.iter().fold(0, |a, s| a | s.dead());
    states.iter().any(|s| s.live & dead != 0)
}

fn check_group(rep: &mut Reporter, g: &Group) {
    let kind = g.kind;
    let all_valid = g.states.iter().all(|s| s.valid());
    let nontriv = deletion_matters(g.states);
    let imps = impls(kind);
    // per plan: the reference trace of the first backend, for the cross-backend clause
    let mut reference: Vec<Option<(String, Vec<(bool, BTreeMap<usize, u8>, BTreeSet<usize>)>)>> = vec![None; g.plans.len()];
    for (iname, runner, is_fst) in &imps {
        let mut first_final: Option<(usize, BTreeMap<usize, u8>, BTreeSet<usize>)> = None;
        for (pi, plan) in g.plans.iter().enumerate() {
            if *is_fst && (g.fst_every == 0 || pi % g.fst_every != 0) {
                continue;
            }
            let case = || case_json(g, &[plan]);
            let (init, steps) = runner(g.states, plan);
            rep.count(&format!("plans:{iname}"));
            // freshly constructed replicas must show exactly what was put in
            let mut ok = true;
            for (slot, o) in &init {
                rep.eval();
                let st = &g.states[*slot];
                let want = Obs { live: bits(st.live).map(|i| (i, st.vals[i])).collect(), tombs: bits(st.tombs).collect() };
                match o {
                    Err(e) => {
                        rep.violation(&format!("C05|{iname}|constructed-replica-reads-back-inconsistent"), &format!("replica {slot}: {e}"), case());
                        ok = false;
                    }
                    Ok(o) if *o != want => {
                        rep.violation(
                            &format!("C05|{iname}|constructed-replica-differs-from-input"),
                            &format!("replica {slot} built from {} reads back as {}", st.json(), o.json()),
                            case(),
                        );
                        ok = false;
                    }
                    Ok(_) => {}
                }
            }
            if !ok {
                continue;
            }
            // lineage bookkeeping per slot
            let mut incl: Vec<BTreeSet<usize>> = (0..g.states.len()).map(|i| [i].into()).collect();
            let mut dead: Vec<u8> = g.states.iter().map(|s| s.dead()).collect();
            let mut trace = vec![];
            let mut complete = true;
            for (k, (op, so)) in plan.iter().zip(steps.iter()).enumerate() {
                rep.eval();
                let (flag, obs) = match so {
                    StepOut::Panic(p) => {
                        rep.violation(&format!("C05|{iname}|panic"), &format!("step {k} ({}<-{}): {p}", op.dst, op.src), case());
                        complete = false;
                        break;
                    }
                    StepOut::BadObs(e) => {
                        rep.violation(&format!("C05|{iname}|state-reads-back-inconsistent"), &format!("after step {k} ({}<-{}): {e}", op.dst, op.src), case());
                        complete = false;
                        break;
                    }
                    StepOut::Ok { flag, obs } => (*flag, obs),
                };
                let before = model_of(kind, g.states, &incl[op.dst]);
                let gone = dead[op.dst] | dead[op.src];
                let src_incl = incl[op.src].clone();
                incl[op.dst].extend(src_incl);
                let here = format!("after step {k} ({}<-{}, replicas merged so far {:?})", op.dst, op.src, incl[op.dst]);
                // (1) nothing deleted in any prefix of either lineage is live again — required of every history
                if let Some(x) = obs.live.keys().find(|x| gone >> **x & 1 == 1) {
                    rep.violation(
                        &format!("C05|{iname}|deleted-item-live-again"),
                        &format!("{here}: item {x} was tombstoned and gone earlier, now live; state {}", obs.json()),
                        case(),
                    );
                    complete = false;
                    break;
                }
                dead[op.dst] = gone | obs.tombs.iter().filter(|x| !obs.live.contains_key(x)).fold(0u8, |a, x| a | 1 << x);
                if all_valid {
                    let want = model_of(kind, g.states, &incl[op.dst]);
                    // (2) invariant
                    if let Some(x) = obs.live.keys().find(|x| obs.tombs.contains(x)) {
                        rep.violation(&format!("C05|{iname}|item-both-live-and-tombstoned"), &format!("{here}: item {x}; state {}", obs.json()), case());
                        complete = false;
                        break;
                    }
                    // (3) tombstones = union
                    if obs.tombs != want.tombs {
                        rep.violation(
                            &format!("C05|{iname}|tombstones-differ-from-union"),
                            &format!("{here}: tombstones {:?}, union of inputs {:?}", obs.tombs, want.tombs),
                            case(),
                        );
                        complete = false;
                        break;
                    }
                    // (4) live = ⋃live − ⋃tombs
                    let nl = obs.norm_live();
                    if nl != want.live {
                        rep.violation(
                            &format!("C05|{iname}|live-differs-from-union-minus-tombstones"),
                            &format!("{here}: live {:?}, model {:?}", nl, want.live),
                            case(),
                        );
                        complete = false;
                        break;
                    }
                    // (5) changed flag == model state changed
                    let changed = want != before;
                    rep.count(if flag { "flag_true" } else { "flag_false" });
                    if flag != changed {
                        rep.violation(
                            &format!("C05|{iname}|changed-flag-wrong|returned-{flag}"),
                            &format!("{here}: merge returned {flag}, model state {}", if changed { "changed" } else { "did not change" }),
                            case(),
                        );
                    }
                    trace.push((flag, nl, obs.tombs.clone()));
                }
            }
            if !complete || !all_valid {
                continue;
            }
            // (6) all orders give the same final result
            if let Some((_, fl, ft)) = trace.last().map(|(f, l, t)| (f, l.clone(), t.clone())) {
                rep.eval();
                match &first_final {
                    None => first_final = Some((pi, fl, ft)),
                    Some((p0, l0, t0)) => {
                        if *l0 != fl || *t0 != ft {
                            rep.violation(
                                &format!("C05|{iname}|result-depends-on-merge-order"),
                                &format!("plan A ends in live {l0:?} tombs {t0:?}; plan B in live {fl:?} tombs {ft:?}"),
                                case_json(g, &[&g.plans[*p0], plan]),
                            );
                        }
                    }
                }
            }
            // (7) backends interchangeable
            rep.eval();
            match &reference[pi] {
                None => reference[pi] = Some((iname.clone(), trace)),
                Some((rname, rtrace)) => {
                    if *rtrace != trace {
                        rep.violation(
                            &format!("C05|{}|backends-disagree|{rname} vs {iname}", kind_name(kind)),
                            &format!("(flag, live, tombs) per step: {rname}: {rtrace:?}; {iname}: {trace:?}"),
                            case(),
                        );
                    }
                }
            }
        }
    }
    rep.count(if all_valid { "groups_valid_inputs" } else { "groups_invalid_inputs" });
    if nontriv {
        rep.count(if all_valid { "groups_valid_with_effective_deletion" } else { "groups_invalid_with_effective_deletion" });
        if all_valid {
            // only histories on which every clause is judged count as non-trivial
            let mut canon: Vec<St> = g.states.to_vec();
            canon.sort();
            rep.nontrivial(hash_of(&(kind, canon)));
            rep.sample(|| json!({"kind": kind_name(kind), "family": g.fam, "states": g.states.iter().map(|s| s.json()).collect::<Vec<_>>(), "plans": g.plans.len()}));
        }
    }
}

// ---------------------------------------------------------------------------------------------
// partial_cmp / == of the HashSet-backed types (the Roaring and FST backends implement neither
// `cc_traits::Iter` nor `Get`, so the crate gives them no PartialOrd/PartialEq).

trait CmpImp: laws::Law {
    fn cmp(a: &Self, b: &Self) -> (Option<Ordering>, bool);
}
impl<I: Item> CmpImp for SetF<I, HashSet<I>> {
    fn cmp(a: &Self, b: &Self) -> (Option<Ordering>, bool) {
        (a.0.partial_cmp(&b.0), a.0 == b.0)
    }
}
impl<I: Item, V: Val> CmpImp for MapF<I, HashSet<I>, V> {
    fn cmp(a: &Self, b: &Self) -> (Option<Ordering>, bool) {
        (a.0.partial_cmp(&b.0), a.0 == b.0)
    }
}

fn ord_name(o: Option<Ordering>) -> &'static str {
    match o {
        None => "None",
        Some(Ordering::Less) => "Less",
        Some(Ordering::Equal) => "Equal",
        Some(Ordering::Greater) => "Greater",
    }
}

fn check_cmp_one<F: CmpImp>(rep: &mut Reporter, pid: &str, kind: VKind, a: &St, b: &St) {
    debug_assert!(a.valid() && b.valid());
    let iname = if pid == "C05" { F::name() } else { <F as laws::Law>::tyname() };
    let case = || json!({"engine": ENGINE, "mode": "cmp", "prop": pid, "kind": kind_name(kind), "a": a.json(), "b": b.json()});
    let want = match (model_le(kind, a, b), model_le(kind, b, a)) {
        (true, true) => Some(Ordering::Equal),
        (true, false) => Some(Ordering::Less),
        (false, true) => Some(Ordering::Greater),
        (false, false) => None,
    };
    rep.eval();
    match catch(|| F::cmp(&F::build(a), &F::build(b))) {
        Err(p) => rep.violation(&format!("{pid}|{iname}|partial_cmp-or-eq-panics"), &p, case()),
        Ok((got, eq)) => {
            rep.count(&format!("cmp_{}", ord_name(want)));
            if got != want {
                rep.violation(
                    &format!("{pid}|{iname}|partial_cmp-wrong|{}-for-{}", ord_name(got), ord_name(want)),
                    &format!("partial_cmp gives {}, merge-induced order is {}", ord_name(got), ord_name(want)),
                    case(),
                );
            }
            if eq != (want == Some(Ordering::Equal)) {
                rep.violation(&format!("{pid}|{iname}|eq-wrong|returned-{eq}"), &format!("== gives {eq}, model order is {}", ord_name(want)), case());
            }
        }
    }
}

fn check_cmp(rep: &mut Reporter, pid: &str, kind: VKind, a: &St, b: &St) {
    match kind {
        VKind::Unit => {
            check_cmp_one::<SetF<u64, HashSet<u64>>>(rep, pid, kind, a, b);
            check_cmp_one::<SetF<String, HashSet<String>>>(rep, pid, kind, a, b);
        }
        VKind::Max => {
            check_cmp_one::<MapF<u64, HashSet<u64>, Max<u8>>>(rep, pid, kind, a, b);
            check_cmp_one::<MapF<String, HashSet<String>, Max<u8>>>(rep, pid, kind, a, b);
        }
        VKind::SetU => {
            check_cmp_one::<MapF<u64, HashSet<u64>, SetUnionHashSet<u8>>>(rep, pid, kind, a, b);
            check_cmp_one::<MapF<String, HashSet<String>, SetUnionHashSet<u8>>>(rep, pid, kind, a, b);
        }
    }
    if a != b {
        rep.nontrivial(hash_of(&("cmp", kind, a, b)));
    }
}

// ---------------------------------------------------------------------------------------------
// State enumeration / generation

/// Set states over items 0..n: per item 2 bits (0 absent, 1 live, 2 tombstoned, 3 both). 4^n states.
fn set_state(n: usize, code: usize) -> St {
    let mut st = St { live: 0, tombs: 0, vals: [0; MAXD] };
    for i in 0..n {
        let s = code >> (2 * i) & 3;
        if s & 1 != 0 {
            st.live |= 1 << i;
            st.vals[i] = 1;
        }
        if s & 2 != 0 {
            st.tombs |= 1 << i;
        }
    }
    st
}
/// Map states over keys 0..n with value codes 0..nv: per key 2+2nv choices
/// (absent, tombstoned, live(v), live(v)+tombstoned).
fn map_state(n: usize, nv: usize, mut code: usize) -> St {
    let per = 2 + 2 * nv;
    let mut st = St { live: 0, tombs: 0, vals: [0; MAXD] };
    for i in 0..n {
        let s = code % per;
        code /= per;
        match s {
            0 => {}
            1 => st.tombs |= 1 << i,
            s => {
                let s = s - 2;
                st.live |= 1 << i;
                st.vals[i] = (s % nv) as u8;
                if s >= nv {
                    st.tombs |= 1 << i;
                }
            }
        }
    }
    st
}

fn random_state(rng: &mut Rng, kind: VKind, n: usize, allow_invalid: bool) -> St {
    let mut st = St { live: 0, tombs: 0, vals: [0; MAXD] };
    let (p_live, p_tomb) = (20 + rng.below(40), 10 + rng.below(30));
    for i in 0..n {
        let r = rng.below(100);
        let live = r < p_live;
        let tomb = if live { allow_invalid && rng.chance(1, 4) } else { r < p_live + p_tomb };
        if live {
            st.live |= 1 << i;
            st.vals[i] = match kind {
                VKind::Unit => 1,
                _ => rng.below(4) as u8,
            };
        }
        if tomb {
            st.tombs |= 1 << i;
        }
    }
    st
}

fn permutations(n: usize) -> Vec<Vec<usize>> {
    fn go(cur: &mut Vec<usize>, used: &mut Vec<bool>, n: usize, out: &mut Vec<Vec<usize>>) {
        if cur.len() == n {
            out.push(cur.clone());
            return;
        }
        for i in 0..n {
            if !used[i] {
                used[i] = true;
                cur.push(i);
                go(cur, used, n, out);
                cur.pop();
                used[i] = false;
            }
        }
    }
    let mut out = vec![];
    go(&mut vec![], &mut vec![false; n], n, &mut out);
    out
}

/// Every permutation of the multiset that yields a distinct sequence of states.
fn distinct_perms(states: &[St], perms: &[Vec<usize>]) -> Vec<Vec<usize>> {
    let mut seen = HashSet::new();
    perms.iter().filter(|p| seen.insert(p.iter().map(|&i| states[i]).collect::<Vec<_>>())).cloned().collect()
}

/// All multisets of size `k` over `universe`, each with every distinct ordering (sequential fold) and
/// the given other-representation choices.
fn exhaustive(rep: &mut Reporter, kind: VKind, fam: &str, universe: &[St], k: usize, alt_sets: &[&[u8]], fst_every: usize) -> u64 {
    let perms = permutations(k);
    let mut idx = vec![0usize; k];
    let mut groups = 0u64;
    loop {
        let states: Vec<St> = idx.iter().map(|&i| universe[i]).collect();
        let mut plans = vec![];
        for p in distinct_perms(&states, &perms) {
            for a in alt_sets {
                plans.push(seq_plan(&p, a));
            }
        }
        check_group(rep, &Group { kind, fam, states: &states, plans: &plans, fst_every });
        groups += 1;
        // next non-decreasing index vector
        let mut j = k;
        while j > 0 && idx[j - 1] == universe.len() - 1 {
            j -= 1;
        }
        if j == 0 {
            return groups;
        }
        let v = idx[j - 1] + 1;
        for x in idx.iter_mut().skip(j - 1) {
            *x = v;
        }
    }
}

// ---------------------------------------------------------------------------------------------

fn replay(rep: &mut Reporter, case: &Value) {
    let kind = kind_of_name(case["kind"].as_str().unwrap_or("")).expect("kind");
    match case["mode"].as_str().unwrap_or("") {
        "history" => {
            let states: Vec<St> = case["states"].as_array().expect("states").iter().map(St::from_json).collect();
            let plans: Vec<Plan> = case["plans"]
                .as_array()
                .expect("plans")
                .iter()
                .map(|p| {
                    p.as_array()
                        .unwrap()
                        .iter()
                        .map(|o| Op { dst: o[0].as_u64().unwrap() as usize, src: o[1].as_u64().unwrap() as usize, alt: o[2].as_u64().unwrap() as u8 })
                        .collect()
                })
                .collect();
            check_group(rep, &Group { kind, fam: case["family"].as_str().unwrap_or("replay"), states: &states, plans: &plans, fst_every: 1 });
        }
        "cmp" => check_cmp(rep, case["prop"].as_str().unwrap_or("C05"), kind, &St::from_json(&case["a"]), &St::from_json(&case["b"])),
        m => panic!("unknown replay mode {m}"),
    }
}

fn main() {
    let args = Args::parse();
    if args.prop == "NONE" {
        return;
    }
    if ["C01", "C02", "C03"].contains(&args.prop.as_str()) {
        // the tombstone lattices' share of the crate-wide lattice laws
        return laws::run(&args);
    }
    assert_eq!(args.prop, "C05", "mon_tomb serves C05 (and the tombstone share of C01-C03)");
    let mut rep = Reporter::new("C05", args.seed);
    if let Some(case) = args.replay_case() {
        replay(&mut rep, &case);
        rep.finish("replay", false);
        return;
    }
    let mut rng = args.rng();
    let tier = args.tier;
    let kinds = [VKind::Unit, VKind::Max, VKind::SetU];
    let same: &[u8] = &[0];
    let vec_alt: &[u8] = &[1];
    let delta_alt: &[u8] = &[2];

    // (A) exhaustive — sets: all 64 states over 3 items
    let set_states: Vec<St> = (0..64).map(|c| set_state(3, c)).collect();
    let mut exh: BTreeMap<String, u64> = BTreeMap::new();
    if tier != Tier::Miri {
        exh.insert("set: multisets of 2 of 64 states".into(), exhaustive(&mut rep, VKind::Unit, "set-exh2", &set_states, 2, &[same, vec_alt, delta_alt], 1));
        let valid27: Vec<St> = set_states.iter().copied().filter(|s| s.valid()).collect();
        if tier == Tier::Quick {
            exh.insert("set: multisets of 3 of the 27 valid states".into(), exhaustive(&mut rep, VKind::Unit, "set-exh3", &valid27, 3, &[same], 2));
        } else {
            exh.insert("set: multisets of 3 of 64 states".into(), exhaustive(&mut rep, VKind::Unit, "set-exh3", &set_states, 3, &[same, delta_alt], 2));
        }
        for kind in [VKind::Max, VKind::SetU] {
            let kn = kind_name(kind);
            let alts: &[&[u8]] = if tier == Tier::Quick { &[same, delta_alt] } else { &[same, vec_alt, delta_alt] };
            // 2 keys x value codes {0(bottom),1,2}: 8^2 = 64 states — all backends
            let ms64: Vec<St> = (0..64).map(|c| map_state(2, 3, c)).collect();
            exh.insert(format!("{kn}: multisets of 2 of 64 states (2 keys)"), exhaustive(&mut rep, kind, "map-exh2", &ms64, 2, alts, 1));
            // 3 keys x value codes {0,1,2}: 8^3 = 512 states — HashSet and Roaring backends only (FST rebuild cost)
            let ms512: Vec<St> = (0..512).map(|c| map_state(3, 3, c)).collect();
            exh.insert(format!("{kn}: multisets of 2 of 512 states (3 keys, no FST)"), exhaustive(&mut rep, kind, "map-exh2", &ms512, 2, alts, 0));
            if tier == Tier::Thorough {
                exh.insert(format!("{kn}: multisets of 3 of 64 states (2 keys)"), exhaustive(&mut rep, kind, "map-exh3", &ms64, 3, &[same], 2));
                // 2 keys x all four value codes: 10^2 = 100 states, triples, no FST
                let ms100: Vec<St> = (0..100).map(|c| map_state(2, 4, c)).collect();
                exh.insert(format!("{kn}: multisets of 3 of 100 states (2 keys x 4 codes, no FST)"), exhaustive(&mut rep, kind, "map-exh3", &ms100, 3, &[same], 0));
            }
        }
    } else {
        let few: Vec<St> = [1usize, 2, 6, 9, 24, 33].iter().map(|&c| set_state(3, c)).collect();
        exh.insert("set: multisets of 2 of 6 states".into(), exhaustive(&mut rep, VKind::Unit, "set-exh2", &few, 2, &[same, delta_alt], 1));
    }
    rep.extra("exhaustive_groups", json!(exh));

    // (B) random histories: R replicas, domain of 3..=8 items; sequential folds in many orders + tree-shaped merges
    let replicas = args.budget(4, 5, 3);
    let n_hist = args.budget(5_000, 50_000, 6);
    let all_perms = permutations(replicas);
    for h in 0..n_hist {
        let kind = kinds[h % 3];
        let n = match tier {
            Tier::Thorough => 6 + rng.below(3),
            _ => 3 + rng.below(6),
        };
        let invalid = h % 5 == 4;
        let mut states: Vec<St> = (0..replicas).map(|_| random_state(&mut rng, kind, n, invalid)).collect();
        if rng.chance(1, 4) {
            // a duplicated replica (re-delivery)
            let (a, b) = (rng.below(replicas), rng.below(replicas));
            states[a] = states[b];
        }
        let alts: Vec<u8> = (0..replicas).map(|_| rng.below(3) as u8).collect();
        let mut perms = distinct_perms(&states, &all_perms);
        let cap = args.budget(24, 20, 3);
        if perms.len() > cap {
            rng.shuffle(&mut perms);
            perms.truncate(cap);
        }
        // plan 0 and the last plan are tree-shaped; the FST backends run 4 of the plans (incl. plan 0)
        let mut plans: Vec<Plan> = vec![tree_plan(rng.choose(&perms), &alts)];
        plans.extend(perms.iter().map(|p| seq_plan(p, &alts)));
        plans.push(tree_plan(rng.choose(&perms), &alts));
        let fst_every = plans.len().div_ceil(4);
        check_group(&mut rep, &Group { kind, fam: if invalid { "random-invalid-inputs" } else { "random" }, states: &states, plans: &plans, fst_every });
    }

    // (C) order and equality of the HashSet-backed types against the merge-induced order
    if tier != Tier::Miri {
        let valid_sets: Vec<St> = set_states.iter().copied().filter(|s| s.valid()).collect();
        for a in &valid_sets {
            for b in &valid_sets {
                check_cmp(&mut rep, "C05", VKind::Unit, a, b);
            }
        }
        for kind in [VKind::Max, VKind::SetU] {
            let ms: Vec<St> = (0..512).map(|c| map_state(3, 3, c)).filter(|s| s.valid()).collect();
            for a in &ms {
                for b in &ms {
                    check_cmp(&mut rep, "C05", kind, a, b);
                }
            }
        }
    }
    for h in 0..args.budget(3_000, 60_000, 5) {
        let kind = kinds[h % 3];
        let n = 3 + rng.below(6);
        let a = random_state(&mut rng, kind, n, false);
        let mut b = random_state(&mut rng, kind, n, false);
        if rng.chance(1, 2) {
            // make comparable pairs common: b := a plus a few extra facts
            b = a;
            for _ in 0..rng.below(3) {
                let i = rng.below(n);
                if rng.chance(1, 2) {
                    b.tombs |= 1 << i;
                    b.live &= !(1 << i);
                    b.vals[i] = 0;
                } else if b.tombs >> i & 1 == 0 {
                    b.live |= 1 << i;
                    b.vals[i] = match kind {
                        VKind::Unit => 1,
                        VKind::Max => b.vals[i].max(rng.below(4) as u8),
                        VKind::SetU => b.vals[i] | rng.below(4) as u8,
                    };
                }
            }
        }
        if rng.chance(1, 2) { check_cmp(&mut rep, "C05", kind, &a, &b) } else { check_cmp(&mut rep, "C05", kind, &b, &a) }
    }

    // minimum observation
    let miri = tier == Tier::Miri;
    for kind in kinds {
        for (iname, _, _) in impls(kind) {
            let c = rep.counter(&format!("plans:{iname}"));
            rep.require(c >= if miri { 1 } else { 1_000 }, &format!("fewer than 1000 merge plans run on {iname}"));
        }
    }
    rep.require(miri || rep.counter("groups_valid_with_effective_deletion") >= 1_000, "fewer than 1000 valid-input histories where a tombstone deletes another replica's live item");
    rep.require(miri || rep.counter("groups_invalid_with_effective_deletion") >= 200, "fewer than 200 invalid-input histories with an effective deletion");
    rep.require(miri || (rep.counter("flag_true") >= 1_000 && rep.counter("flag_false") >= 1_000), "changed flag not seen both ways 1000 times");
    for o in ["None", "Less", "Equal", "Greater"] {
        rep.require(miri || rep.counter(&format!("cmp_{o}")) >= 100, &format!("fewer than 100 comparisons whose model answer is {o}"));
    }
    rep.finish(
        "Replica states (live,tombs) over an index domain mapped to u64 items (Roaring, HashSet) and strings (FST, HashSet); set variant and map variants with Max<u8> / SetUnion<HashSet<u8>> values incl. bottom values. Exhaustive: every multiset of 2 (quick: also 3 of the valid states; thorough: 3 of all) of all 64 set states over 3 items, every multiset of 2 of all 512 map states over 3 keys x 3 value codes (thorough: + 3 of 100 states over 2 keys x 4 codes), each in every distinct order, with same-type / Vec-backed / singleton-delta `other` operands; random 4- (thorough 5-) replica histories over 3..8 items in up to 24 (20) orders plus tree-shaped merge plans, one fifth with invariant-violating inputs (only the no-resurrection clause is required of those). After every merge as_reveal_ref() is read back (iteration, len and contains must agree) and compared with live=U live - U tombs, tombs=U tombs, disjointness, changed flag, order-independence and cross-backend equality; partial_cmp/== of the HashSet-backed types are compared with the merge-induced order on all pairs of valid states. Non-trivial history = distinct multiset of invariant-respecting states in which some item is deleted (tombstoned, not live) in one replica and live in another (histories with invariant-violating inputs are counted separately); non-trivial comparison = distinct ordered pair of different states.",
        true,
    );
}
