//! C27 — "A running dataflow never misses an external wake-up".
//!
//! Code under test: `dfir_rs::scheduled::context::{WakeState, Context::waker, Dfir::{new, run_tick,
//! run_available, run}}`. The real runner is built with `Dfir::new` around a harness tick closure that
//! counts tick starts; it is polled by a hand-written executor whose only wake-up channel is the
//! `Waker` it passes to `poll` (a flag). Nothing here depends on wall-clock time.
//!
//! (a) deterministic window sweep (single thread): a wake is fired *exactly* at a named program point
//!     (verification hook H3), inside the tick closure, between polls, between API calls or while the
//!     runner is idle; all single windows and all unordered pairs of windows are enumerated for every
//!     runner variant. Idle wakes are additionally explored with an executor that reacts *inside* the
//!     `Waker::wake` call (the interleaving "runner thread runs while the waking thread is still inside
//!     `wake_by_ref`").
//! (b) cross-thread stress: 1–2 real threads fire `Context::waker()` at random moments while the
//!     runner thread runs `Dfir::run()`.
//! (c) the same program under Miri (`--tier miri`, many seeds): tiny budgets.
//!
//! Oracle (all parts): let `c` be the number of ticks started when a wake is *invoked*
//! (`tick_starts` read immediately before calling the waker). When the runner has come to rest
//! (its future is `Pending` and the executor's woken flag is clear — and, cross-thread, every waker
//! thread has finished), `tick_starts > c` must hold: at least one tick started after the wake.
//! For `run_available()` used alone the documented contract is judged: a wake fired before the final
//! flag check of the call must be followed by a tick before the call returns; a wake after that check
//! (`run_available:after_swap`) may be left to the next call, which must tick. For a driver that loops
//! `while df.run_tick().await {}` (how the simulator drives async DFIRs; `run_tick` documents that its
//! result "checks ... external events") a wake fired before `run_tick` returned `false` must have been
//! followed by a tick.

use std::cell::RefCell;
use std::collections::{BTreeMap, BTreeSet};
use std::future::Future;
use std::pin::Pin;
use std::rc::Rc;
use std::sync::{Arc, Mutex};
use std::sync::atomic::Ordering::{Acquire, Relaxed, Release, SeqCst};
use std::sync::atomic::{AtomicBool, AtomicU32, AtomicU64, AtomicUsize};
use std::task::{Context as TaskCx, Poll, Wake, Waker};

use dfir_rs::scheduled::context::{Context, Dfir, WakeState, verif};
use dfir_rs::scheduled::metrics::DfirMetrics;
use vcommon::{Args, Reporter, Rng, Tier, Value, catch, hash_of, json};

// ---------------------------------------------------------------------------------------------
// Program points, windows, variants

const POINTS: [&str; 10] = [
    "run_available:before_store",
    "run_available:after_store",
    "run_tick:before_swap",
    "run_tick:after_swap",
    "run_tick:after_tick",
    "run_available:before_swap",
    "run_available:after_swap",
    "run:after_run_available",
    "run:before_register",
    "run:after_register",
];
const P_RA_AFTER_SWAP: u8 = 6;
const PHASES: [&str; 3] = ["tick:start", "tick:resumed", "tick:end"];

/// Labels used by the cross-thread part for "where was the runner when the wake was fired".
const L_TICK: u32 = 10;
const L_IDLE: u32 = 11;
const L_BETWEEN: u32 = 12;
const L_POLL_ENTRY: u32 = 13;
const L_NAMES: [&str; 4] = ["tick:running", "exec:idle", "exec:between-polls", "exec:poll-entry"];

fn point_index(name: &str) -> Option<u8> {
    POINTS.iter().position(|p| *p == name).map(|i| i as u8)
}

/// A window in which a wake is fired.
#[derive(Clone, Copy, PartialEq, Eq, Hash, Debug, PartialOrd, Ord)]
enum Win {
    /// k-th occurrence (0-based) of a named program point of the runner.
    Point(u8, u8),
    /// Inside the tick closure of tick #idx: phase 0 = at start (after the tick was counted),
    /// 1 = after the tick resumed from a suspension, 2 = just before the tick returns.
    Tick(u8, u8),
    /// `run()` only: the k-th time the runner is at rest (Pending, executor not woken).
    Idle(u8),
    /// `run_available` / `run_tick`-loop drivers: after the k-th call returned, before the next.
    Between(u8),
    /// Between two polls while the executor is already woken (future suspended mid-way), k-th time.
    MidYield(u8),
}

impl Win {
    fn label(&self) -> &'static str {
        match *self {
            Win::Point(p, _) => POINTS[p as usize],
            Win::Tick(ph, _) => PHASES[ph as usize],
            Win::Idle(_) => "idle",
            Win::Between(_) => "between-calls",
            Win::MidYield(_) => "mid-yield",
        }
    }
    fn occ(&self) -> u8 {
        match *self {
            Win::Point(_, k) | Win::Tick(_, k) | Win::Idle(k) | Win::Between(k) | Win::MidYield(k) => k,
        }
    }
    fn to_json(&self) -> Value {
        json!({"w": self.label(), "occ": self.occ()})
    }
    fn from_json(v: &Value) -> Option<Win> {
        let w = v.get("w")?.as_str()?;
        let k = v.get("occ")?.as_u64()? as u8;
        if let Some(p) = point_index(w) {
            return Some(Win::Point(p, k));
        }
        if let Some(ph) = PHASES.iter().position(|p| *p == w) {
            return Some(Win::Tick(ph as u8, k));
        }
        match w {
            "idle" => Some(Win::Idle(k)),
            "between-calls" => Some(Win::Between(k)),
            "mid-yield" => Some(Win::MidYield(k)),
            _ => None,
        }
    }
}

#[derive(Clone, Copy, PartialEq, Eq, Hash, Debug)]
enum Mode {
    /// `df.run()` polled until at rest.
    Run,
    /// `df.run_available()` called repeatedly (each call driven to completion).
    RaSeq,
    /// `while df.run_tick().await {}` repeated.
    TickLoop,
}

impl Mode {
    fn name(&self) -> &'static str {
        match self {
            Mode::Run => "run",
            Mode::RaSeq => "run_available",
            Mode::TickLoop => "run_tick-loop",
        }
    }
    fn site(&self) -> &'static str {
        match self {
            Mode::Run => "Dfir::run",
            Mode::RaSeq => "Dfir::run_available",
            Mode::TickLoop => "Dfir::run_tick loop",
        }
    }
    fn from_name(s: &str) -> Option<Mode> {
        [Mode::Run, Mode::RaSeq, Mode::TickLoop].into_iter().find(|m| m.name() == s)
    }
}

#[derive(Clone, Copy, PartialEq, Eq, Hash, Debug)]
struct Variant {
    mode: Mode,
    /// The tick closure suspends once (self-waking `Pending`) in the middle of every tick.
    yielding: bool,
    /// `run()` only: the executor polls the runner from inside `Waker::wake` (see module doc).
    inline: bool,
    /// The tick closure reports "had work" (`true`) for its first `work_ticks` ticks.
    work_ticks: u8,
}

impl Variant {
    fn to_json(&self) -> Value {
        json!({"mode": self.mode.name(), "yielding": self.yielding, "inline_exec": self.inline,
               "work_ticks": self.work_ticks})
    }
    fn name(&self) -> String {
        format!(
            "{}{}{}{}",
            self.mode.name(),
            if self.yielding { "+yielding-tick" } else { "" },
            if self.inline { "+inline-exec" } else { "" },
            if self.work_ticks > 0 { "+work" } else { "" }
        )
    }
}

fn all_variants() -> Vec<Variant> {
    let mut v = vec![];
    for yielding in [false, true] {
        for work_ticks in [0u8, 1] {
            for inline in [false, true] {
                v.push(Variant { mode: Mode::Run, yielding, inline, work_ticks });
            }
            v.push(Variant { mode: Mode::RaSeq, yielding, inline: false, work_ticks });
            v.push(Variant { mode: Mode::TickLoop, yielding, inline: false, work_ticks });
        }
    }
    v
}

fn windows_of(v: &Variant, max_occ: u8) -> Vec<Win> {
    let mut w = vec![];
    let pts: Vec<u8> = match v.mode {
        Mode::Run => (0..10).collect(),
        Mode::RaSeq => (0..7).collect(),
        Mode::TickLoop => vec![2, 3, 4],
    };
    for p in pts {
        for k in 0..=max_occ {
            w.push(Win::Point(p, k));
        }
    }
    for ph in 0..3u8 {
        if ph == 1 && !v.yielding {
            continue;
        }
        for k in 0..=max_occ {
            w.push(Win::Tick(ph, k));
        }
    }
    for k in 0..=max_occ {
        match v.mode {
            Mode::Run => w.push(Win::Idle(k)),
            _ => w.push(Win::Between(k)),
        }
    }
    if v.mode != Mode::TickLoop || v.yielding {
        for k in 0..=max_occ {
            w.push(Win::MidYield(k));
        }
    }
    w
}

// ---------------------------------------------------------------------------------------------
// Shared counters, executor waker, runner slot

struct Shared {
    tick_starts: AtomicU64,
    tick_ends: AtomicU64,
    /// Cross-thread part only: last program point the runner passed.
    cur: AtomicU32,
    /// Cross-thread part only: wakes of the current round that have not been fired yet.
    wakes_pending: AtomicU64,
}

impl Shared {
    fn new() -> Arc<Shared> {
        Arc::new(Shared {
            tick_starts: AtomicU64::new(0),
            tick_ends: AtomicU64::new(0),
            cur: AtomicU32::new(L_IDLE),
            wakes_pending: AtomicU64::new(0),
        })
    }
}

type BoxFut = Pin<Box<dyn Future<Output = ()>>>;

thread_local! {
    /// The runner future of the current case (lives on the runner thread).
    static RUNNER: RefCell<Option<BoxFut>> = const { RefCell::new(None) };
}

/// The executor's waker: a flag (+ unpark for the cross-thread part).
struct ExecWake {
    woken: AtomicBool,
    thread: std::thread::Thread,
    /// Deterministic part only: react to a wake by polling the runner right inside `wake`.
    inline: AtomicBool,
    polls: AtomicU64,
    times_woken: AtomicU64,
    finished: AtomicBool,
}

impl ExecWake {
    fn new(inline: bool) -> Arc<ExecWake> {
        Arc::new(ExecWake {
            woken: AtomicBool::new(false),
            thread: std::thread::current(),
            inline: AtomicBool::new(inline),
            polls: AtomicU64::new(0),
            times_woken: AtomicU64::new(0),
            finished: AtomicBool::new(false),
        })
    }
}

const INLINE_POLL_CAP: u64 = 4096;

impl Wake for ExecWake {
    fn wake(self: Arc<Self>) {
        self.wake_by_ref();
    }
    fn wake_by_ref(self: &Arc<Self>) {
        self.woken.store(true, SeqCst);
        self.times_woken.fetch_add(1, Relaxed);
        if self.inline.load(Relaxed) {
            // Executor that reacts immediately: run the runner until it is at rest again, unless it is
            // being polled right now (wake fired from inside a poll), in which case the flag stays set.
            loop {
                if self.polls.load(Relaxed) > INLINE_POLL_CAP {
                    break;
                }
                self.woken.store(false, SeqCst);
                match poll_runner(self) {
                    None => {
                        self.woken.store(true, SeqCst);
                        break;
                    }
                    Some(Poll::Ready(())) => {
                        self.finished.store(true, SeqCst);
                        break;
                    }
                    Some(Poll::Pending) => {
                        if !self.woken.load(SeqCst) {
                            break;
                        }
                    }
                }
            }
        }
        self.thread.unpark();
    }
}

/// Poll the runner future once; `None` if there is none or it is being polled already.
fn poll_runner(ew: &Arc<ExecWake>) -> Option<Poll<()>> {
    RUNNER.with(|r| {
        let mut g = r.try_borrow_mut().ok()?;
        let fut = g.as_mut()?;
        ew.polls.fetch_add(1, Relaxed);
        let waker = Waker::from(ew.clone());
        let mut cx = TaskCx::from_waker(&waker);
        Some(fut.as_mut().poll(&mut cx))
    })
}

fn clear_runner() {
    verif::set_point_hook(None);
    // Take the future out before dropping it so that a drop never runs under the slot's borrow.
    let old = RUNNER.with(|r| r.try_borrow_mut().ok().and_then(|mut g| g.take()));
    drop(old);
}

/// `Pending` once with an immediate self-wake (what a cooperative yield does).
struct YieldOnce(bool);
impl Future for YieldOnce {
    type Output = ();
    fn poll(mut self: Pin<&mut Self>, cx: &mut TaskCx<'_>) -> Poll<()> {
        if self.0 {
            Poll::Ready(())
        } else {
            self.0 = true;
            cx.waker().wake_by_ref();
            Poll::Pending
        }
    }
}

/// Cross-thread part: the runner lingers at its current program point until a waker thread has
/// fired (or is about to fire) one more wake, so that wakes land *inside* the windows even when the
/// machine is so loaded that the threads hardly ever run in parallel. Bounded by an iteration count;
/// returns at once when no wake is outstanding.
fn linger_for_a_wake(sh: &Shared) {
    let w0 = sh.wakes_pending.load(SeqCst);
    if w0 == 0 {
        return;
    }
    let limit = if cfg!(miri) { 6 } else { 4000 };
    for i in 0..limit {
        if sh.wakes_pending.load(Relaxed) != w0 {
            return;
        }
        if cfg!(miri) || i % 64 == 63 {
            std::thread::yield_now();
        } else {
            std::hint::spin_loop();
        }
    }
}

fn spin(n: u32) {
    if cfg!(miri) {
        for _ in 0..n.min(2) {
            std::thread::yield_now();
        }
    } else {
        for _ in 0..n {
            std::hint::spin_loop();
        }
    }
}

// ---------------------------------------------------------------------------------------------
// Deterministic window sweep

struct WakeRec {
    win: Win,
    planned: bool,
    c_before: u64,
    judged: bool,
    deferred: bool,
}

struct Det {
    plan: Vec<(Win, bool)>,
    occ: [u32; 10],
    wakes: Vec<WakeRec>,
    waker: Option<Waker>,
    /// Set by the driver future when one API call returned.
    boundary: bool,
    stop: bool,
    loop_cap_hit: bool,
    trace: Vec<(&'static str, u32)>,
}

impl Det {
    fn take_planned(&mut self, win: Win) -> usize {
        let mut n = 0;
        for (w, fired) in self.plan.iter_mut() {
            if *w == win && !*fired {
                *fired = true;
                n += 1;
            }
        }
        n
    }
    fn unfired(&self) -> usize {
        self.plan.iter().filter(|(_, f)| !*f).count()
    }
    fn unjudged(&self) -> usize {
        self.wakes.iter().filter(|w| !w.judged).count()
    }
    fn note(&mut self, what: &'static str, n: u32) {
        if self.trace.len() < 400 {
            self.trace.push((what, n));
        }
    }
}

type DetRef = Rc<RefCell<Det>>;

/// Record a wake that is about to be invoked (reads the tick counter first).
fn record_wake(det: &DetRef, sh: &Shared, win: Win, planned: bool) {
    let c = sh.tick_starts.load(SeqCst);
    let mut d = det.borrow_mut();
    d.note("WAKE-at", 0);
    d.note(win.label(), win.occ() as u32);
    d.wakes.push(WakeRec { win, planned, c_before: c, judged: false, deferred: false });
}

/// Fire `n` wakes from outside the tick closure through a clone of `Context::waker()`.
fn fire_outside(det: &DetRef, sh: &Shared, win: Win, planned: bool, n: usize) {
    for i in 0..n {
        record_wake(det, sh, win, planned);
        let waker = det.borrow().waker.clone().expect("waker");
        if i % 2 == 0 {
            waker.wake_by_ref();
        } else {
            waker.wake();
        }
    }
}

fn fire_in_tick(det: &DetRef, sh: &Shared, phase: u8, idx: u64, ctx: &Context) {
    if idx > 200 {
        return;
    }
    let win = Win::Tick(phase, idx as u8);
    let n = det.borrow_mut().take_planned(win);
    for _ in 0..n {
        record_wake(det, sh, win, true);
        match phase {
            0 => ctx.waker().wake_by_ref(),
            1 => ctx.waker().wake(),
            _ => ctx.schedule_subgraph(true),
        }
    }
}

/// Suspends the driver once *without* waking the executor and tells the harness that an API call
/// has returned; the harness resumes the driver explicitly.
struct Boundary {
    det: DetRef,
    armed: bool,
}
impl Future for Boundary {
    type Output = ();
    fn poll(mut self: Pin<&mut Self>, _cx: &mut TaskCx<'_>) -> Poll<()> {
        if self.armed {
            Poll::Ready(())
        } else {
            self.armed = true;
            self.det.borrow_mut().boundary = true;
            Poll::Pending
        }
    }
}

/// Build the real `Dfir` around the harness tick closure and wrap the chosen driver into a future.
fn make_det_runner(v: Variant, det: &DetRef, sh: &Arc<Shared>) -> BoxFut {
    let wake_state = Arc::new(WakeState::default());
    let ctx = Context::new(wake_state, Rc::new(DfirMetrics::default()));
    det.borrow_mut().waker = Some(ctx.waker());

    let (d, s) = (det.clone(), sh.clone());
    let tick = async move |ctx: &mut Context| -> bool {
        let idx = s.tick_starts.fetch_add(1, SeqCst);
        d.borrow_mut().note("tick-start", idx as u32);
        fire_in_tick(&d, &s, 0, idx, ctx);
        if v.yielding {
            YieldOnce(false).await;
            fire_in_tick(&d, &s, 1, idx, ctx);
        }
        fire_in_tick(&d, &s, 2, idx, ctx);
        s.tick_ends.fetch_add(1, SeqCst);
        ctx.__end_tick();
        idx < v.work_ticks as u64
    };
    let mut df = Dfir::new(tick, ctx, None, None);
    let d = det.clone();
    match v.mode {
        Mode::Run => Box::pin(async move {
            match df.run().await {}
        }),
        Mode::RaSeq => Box::pin(async move {
            loop {
                df.run_available().await;
                Boundary { det: d.clone(), armed: false }.await;
                if d.borrow().stop {
                    break;
                }
            }
        }),
        Mode::TickLoop => Box::pin(async move {
            loop {
                let mut n = 0u32;
                while df.run_tick().await {
                    n += 1;
                    if n > 64 {
                        d.borrow_mut().loop_cap_hit = true;
                        break;
                    }
                }
                Boundary { det: d.clone(), armed: false }.await;
                if d.borrow().stop {
                    break;
                }
            }
        }),
    }
}

#[derive(Default)]
struct CaseOutcome {
    /// (signature, what) of violations found.
    violations: Vec<(String, String)>,
    /// windows in which wakes were actually fired (planned ones)
    fired: Vec<Win>,
    all_planned_fired: bool,
    judged: u64,
    deferred: u64,
    driver_wakes: u64,
    ticks: u64,
    polls: u64,
    harness_problem: Option<String>,
}

const MAX_RESTS: u32 = 7; // quiescent moments in which the harness may still fire a wake (run mode)
const MAX_CALLS: u32 = 6; // API calls per case (run_available / run_tick-loop drivers)
const POLL_CAP: u64 = 600; // a correct run needs < 100 polls for <= 3 planned + 7 driver wakes

fn trace_string(d: &Det) -> String {
    let mut s = String::new();
    for (w, n) in d.trace.iter() {
        if !s.is_empty() {
            s.push(' ');
        }
        s.push_str(w);
        s.push('#');
        s.push_str(&n.to_string());
    }
    s
}

/// Judge every wake not judged yet. `at_rest` describes the moment for the message.
fn judge(v: &Variant, det: &DetRef, sh: &Shared, out: &mut CaseOutcome, moment: &str) {
    let now = sh.tick_starts.load(SeqCst);
    let mut d = det.borrow_mut();
    let mut trace: Option<String> = None;
    for i in 0..d.wakes.len() {
        if !d.wakes[i].judged && now <= d.wakes[i].c_before && trace.is_none() {
            trace = Some(trace_string(&d));
        }
        let w = &mut d.wakes[i];
        if w.judged {
            continue;
        }
        if now > w.c_before {
            w.judged = true;
            out.judged += 1;
            continue;
        }
        // run_available() alone: a wake after its last flag check may be left to the next call.
        if v.mode == Mode::RaSeq && w.win.label() == POINTS[P_RA_AFTER_SWAP as usize] && !w.deferred {
            w.deferred = true;
            out.deferred += 1;
            continue;
        }
        w.judged = true;
        out.judged += 1;
        let class = if w.win.label() == "idle" && v.inline { "idle(inline-exec)" } else { w.win.label() };
        let sig = format!("C27|{}|no tick after wake|{}", v.mode.site(), class);
        let what = format!(
            "wake fired at {}#{} when {} tick(s) had started; {} with still {} tick(s) started: the wake-up was missed. variant={} trace: {}",
            w.win.label(), w.win.occ(), w.c_before, moment, now, v.name(), trace.as_deref().unwrap_or("")
        );
        out.violations.push((sig, what));
    }
}

fn run_det_case(v: Variant, plan: &[Win]) -> CaseOutcome {
    let mut out = CaseOutcome::default();
    let sh = Shared::new();
    let det: DetRef = Rc::new(RefCell::new(Det {
        plan: plan.iter().map(|w| (*w, false)).collect(),
        occ: [0; 10],
        wakes: vec![],
        waker: None,
        boundary: false,
        stop: false,
        loop_cap_hit: false,
        trace: vec![],
    }));
    let ew = ExecWake::new(false);
    clear_runner();

    let res = catch(|| {
        let fut = make_det_runner(v, &det, &sh);
        RUNNER.with(|r| *r.borrow_mut() = Some(fut));
        {
            let (d, s) = (det.clone(), sh.clone());
            verif::set_point_hook(Some(Box::new(move |name: &'static str| {
                let Some(p) = point_index(name) else { return };
                let (k, n) = {
                    let mut dd = d.borrow_mut();
                    let k = dd.occ[p as usize];
                    dd.occ[p as usize] += 1;
                    dd.note(name, k);
                    let n = if k <= 200 { dd.take_planned(Win::Point(p, k as u8)) } else { 0 };
                    (k, n)
                };
                if n > 0 {
                    fire_outside(&d, &s, Win::Point(p, k as u8), true, n);
                }
            })));
        }
        // The inline-reacting executor only makes a difference for wakes fired while the runner is
        // not being polled; it is switched on after construction so that `ExecWake::new` is uniform.
        ew.inline.store(v.inline, Relaxed);

        let (mut rests, mut calls, mut midyields) = (0u32, 0u32, 0u32);
        'outer: loop {
            if ew.polls.load(Relaxed) > POLL_CAP {
                out.harness_problem = Some(format!("poll cap reached ({})", v.name()));
                break;
            }
            ew.woken.store(false, SeqCst);
            match poll_runner(&ew) {
                None => {
                    out.harness_problem = Some("runner slot busy/empty".into());
                    break;
                }
                Some(Poll::Ready(())) => break,
                Some(Poll::Pending) => {}
            }
            // After a poll that returned Pending.
            loop {
                if ew.finished.load(SeqCst) {
                    break 'outer;
                }
                let boundary = std::mem::take(&mut det.borrow_mut().boundary);
                if boundary {
                    // One API call has returned.
                    det.borrow_mut().note("call-returned", calls);
                    let moment = match v.mode {
                        Mode::RaSeq => "run_available() returned",
                        _ => "run_tick() returned false (driver stopped)",
                    };
                    judge(&v, &det, &sh, &mut out, moment);
                    let k = calls;
                    calls += 1;
                    let n = if k <= 200 { det.borrow_mut().take_planned(Win::Between(k as u8)) } else { 0 };
                    if n > 0 {
                        fire_outside(&det, &sh, Win::Between(k as u8), true, n);
                    }
                    let (unfired, unjudged) = {
                        let d = det.borrow();
                        (d.unfired(), d.unjudged())
                    };
                    let more = (unfired > 0 && calls < MAX_CALLS) || (unjudged > 0 && calls < MAX_CALLS + 2);
                    if !more {
                        det.borrow_mut().stop = true;
                    }
                    continue 'outer;
                }
                if ew.woken.load(SeqCst) {
                    // Suspended mid-way with the executor already woken.
                    let k = midyields;
                    midyields += 1;
                    let n = if k <= 200 { det.borrow_mut().take_planned(Win::MidYield(k as u8)) } else { 0 };
                    if n > 0 {
                        fire_outside(&det, &sh, Win::MidYield(k as u8), true, n);
                    }
                    continue 'outer;
                }
                // At rest: Pending and nobody has woken the executor.
                if v.mode != Mode::Run {
                    out.harness_problem =
                        Some(format!("driver {} suspended without a pending wake-up", v.name()));
                    break 'outer;
                }
                det.borrow_mut().note("at-rest", rests);
                judge(&v, &det, &sh, &mut out, "runner at rest (future Pending, executor not woken)");
                let k = rests;
                rests += 1;
                let n = det.borrow_mut().take_planned(Win::Idle(k.min(255) as u8));
                if n > 0 {
                    fire_outside(&det, &sh, Win::Idle(k as u8), true, n);
                } else if det.borrow().unfired() > 0 && rests < MAX_RESTS {
                    // Driver wake: keeps the runner going so that later occurrences are reached. It is an
                    // ordinary idle wake and is judged like every other one.
                    out.driver_wakes += 1;
                    fire_outside(&det, &sh, Win::Idle(k as u8), false, 1);
                } else {
                    break 'outer;
                }
                if ew.woken.load(SeqCst) {
                    continue 'outer;
                }
                // Not woken by the wake(s) just fired (or already handled inline): still at rest.
            }
        }
        if det.borrow().loop_cap_hit {
            out.harness_problem = Some("run_tick() returned true 64 times in a row".into());
        }
    });
    ew.inline.store(false, Relaxed);
    clear_runner();

    if let Err(msg) = res {
        let sig = format!("C27|{}|panic", v.mode.site());
        out.violations.push((sig, format!("runner panicked: {msg} (variant {})", v.name())));
    }
    {
        let d = det.borrow();
        out.fired = d.wakes.iter().filter(|w| w.planned).map(|w| w.win).collect();
        out.all_planned_fired = d.unfired() == 0;
        if out.harness_problem.is_none() && out.violations.is_empty() && d.unjudged() > 0 {
            out.harness_problem = Some(format!("{} wake(s) left unjudged ({})", d.unjudged(), v.name()));
        }
    }
    det.borrow_mut().waker = None;
    out.ticks = sh.tick_starts.load(SeqCst);
    out.polls = ew.polls.load(Relaxed);
    out
}

fn det_case_json(v: &Variant, plan: &[Win]) -> Value {
    json!({"engine": "mon_wake", "family": "det", "variant": v.to_json(),
           "plan": plan.iter().map(|w| w.to_json()).collect::<Vec<_>>()})
}

struct DetStats {
    /// (variant name, window label, occ, n_wakes) -> wakes fired
    hits: BTreeMap<(String, &'static str, u8, usize), u64>,
    ticks: u64,
    polls: u64,
    cases: u64,
    cases_all_fired: u64,
    harness_problems: Vec<String>,
}

fn do_det_case(rep: &mut Reporter, st: &mut DetStats, v: Variant, plan: &[Win]) {
    let out = run_det_case(v, plan);
    st.cases += 1;
    st.ticks += out.ticks;
    st.polls += out.polls;
    rep.evals(out.judged);
    rep.count_n("det:wakes_judged", out.judged);
    rep.count_n("det:driver_idle_wakes", out.driver_wakes);
    rep.count_n("det:ra_late_wake_left_to_next_call", out.deferred);
    for w in out.fired.iter() {
        *st.hits.entry((v.name(), w.label(), w.occ(), plan.len())).or_insert(0) += 1;
    }
    if let Some(p) = out.harness_problem.as_ref() {
        rep.count("det:harness_problem");
        if st.harness_problems.len() < 5 {
            st.harness_problems.push(p.clone());
        }
    }
    if out.all_planned_fired {
        st.cases_all_fired += 1;
        rep.nontrivial(hash_of(&(v, plan)));
        rep.sample(|| {
            json!({"variant": v.name(), "plan": plan.iter().map(|w| w.to_json()).collect::<Vec<_>>(),
                   "ticks": out.ticks, "polls": out.polls, "wakes_judged": out.judged})
        });
    } else {
        rep.count("det:case_with_unreached_window");
    }
    for (sig, what) in out.violations.iter() {
        report_violation(rep, sig, what, det_case_json(&v, plan));
    }
}

fn det_sweep(args: &Args, rep: &mut Reporter) -> DetStats {
    let mut st = DetStats { hits: BTreeMap::new(), ticks: 0, polls: 0, cases: 0, cases_all_fired: 0, harness_problems: vec![] };
    let mut rng = args.rng().fork(0xD37);
    let miri = args.tier == Tier::Miri;
    let mut case_index = 0usize;
    let mut pair_index = 0usize;
    for v in all_variants() {
        let ws = windows_of(&v, 3);
        // singles (under Miri this single-threaded part is the same for every Miri seed: a thin slice
        // of it is enough to have the interpreter look at every code path of the harness and runner)
        for w in ws.iter() {
            case_index += 1;
            if miri && !(case_index % 47 == args.seed as usize % 47 && args.in_shard(case_index / 47)) {
                continue;
            }
            do_det_case(rep, &mut st, v, &[*w]);
        }
        // pairs (unordered, including twice the same window)
        if !miri {
            for i in 0..ws.len() {
                for j in i..ws.len() {
                    do_det_case(rep, &mut st, v, &[ws[i], ws[j]]);
                }
            }
        } else {
            let (a, b) = (*rng.choose(&ws), *rng.choose(&ws));
            pair_index += 1;
            if pair_index % 2 == 0 && args.in_shard(pair_index / 2) {
                do_det_case(rep, &mut st, v, &[a, b]);
            }
        }
    }
    // random triples with later occurrences (sampled)
    let triples = args.budget(6_000, 300_000, 0);
    let variants = all_variants();
    for _ in 0..triples {
        let v = *rng.choose(&variants);
        let ws = windows_of(&v, 5);
        let plan = [*rng.choose(&ws), *rng.choose(&ws), *rng.choose(&ws)];
        do_det_case(rep, &mut st, v, &plan);
    }
    st
}

// ---------------------------------------------------------------------------------------------
// Cross-thread stress

struct StressStats {
    wakes: u64,
    rounds: u64,
    epochs: u64,
    ticks: u64,
    polls: u64,
    at: [u64; 14],
    woken_by_runner_side: u64,
    max_polls_in_round: u64,
    hang_guard: bool,
    /// the part was cut short because violations (or a hang) had already been reported
    stopped_early: bool,
}

impl StressStats {
    fn new() -> StressStats {
        StressStats {
            wakes: 0,
            rounds: 0,
            epochs: 0,
            ticks: 0,
            polls: 0,
            at: [0; 14],
            woken_by_runner_side: 0,
            max_polls_in_round: 0,
            hang_guard: false,
            stopped_early: false,
        }
    }
}

fn at_name(i: usize) -> &'static str {
    if i < 10 { POINTS[i] } else { L_NAMES[i - 10] }
}

/// What one waker thread does in one round.
struct Job {
    round: u64,
    seed: u64,
    wakes: usize,
    /// upper bound of the random delay (spin iterations) before each wake
    delay: u32,
    waker: Waker,
    sh: Arc<Shared>,
}

struct Slot {
    job: Mutex<Option<Job>>,
    result: Mutex<Option<Vec<(u32, u64)>>>,
}

/// Two persistent waker threads (spawned once; a round hands each of them a `Job`).
struct Pool {
    slots: Vec<Arc<Slot>>,
    handles: Vec<std::thread::JoinHandle<()>>,
    /// start signal: the round number the workers may run
    go: Arc<AtomicU64>,
    done: Arc<AtomicUsize>,
    stop: Arc<AtomicBool>,
}

impl Pool {
    fn new(n: usize) -> Pool {
        let go = Arc::new(AtomicU64::new(0));
        let done = Arc::new(AtomicUsize::new(0));
        let stop = Arc::new(AtomicBool::new(false));
        let main_thread = std::thread::current();
        let mut slots = vec![];
        let mut handles = vec![];
        for _ in 0..n {
            let slot = Arc::new(Slot { job: Mutex::new(None), result: Mutex::new(None) });
            slots.push(slot.clone());
            let (go, done, stop, main_thread) = (go.clone(), done.clone(), stop.clone(), main_thread.clone());
            handles.push(std::thread::spawn(move || {
                loop {
                    let job = loop {
                        if let Some(j) = slot.job.lock().unwrap().take() {
                            break j;
                        }
                        if stop.load(SeqCst) {
                            return;
                        }
                        std::thread::park();
                    };
                    let mut n = 0u32;
                    while go.load(Acquire) != job.round {
                        if stop.load(SeqCst) {
                            return;
                        }
                        n += 1;
                        if cfg!(miri) || n % 256 == 0 {
                            std::thread::yield_now();
                        } else {
                            std::hint::spin_loop();
                        }
                    }
                    let mut r = Rng::new(job.seed);
                    let mut recs = Vec::with_capacity(job.wakes);
                    for i in 0..job.wakes {
                        if job.delay > 0 {
                            spin(r.below(job.delay as usize) as u32);
                        }
                        let at = job.sh.cur.load(Relaxed);
                        // "after the wake" is defined by this read: ticks counted later started later
                        let c = job.sh.tick_starts.load(SeqCst);
                        // a lingering runner is released either just before or just after the wake
                        let release_first = r.chance(1, 3);
                        if release_first {
                            job.sh.wakes_pending.fetch_sub(1, SeqCst);
                        }
                        if i % 2 == 0 {
                            job.waker.wake_by_ref();
                        } else {
                            job.waker.clone().wake();
                        }
                        if !release_first {
                            job.sh.wakes_pending.fetch_sub(1, SeqCst);
                        }
                        recs.push((at, c));
                    }
                    drop(job);
                    *slot.result.lock().unwrap() = Some(recs);
                    done.fetch_add(1, SeqCst);
                    main_thread.unpark();
                }
            }));
        }
        Pool { slots, handles, go, done, stop }
    }
    fn shutdown(self) {
        self.stop.store(true, SeqCst);
        for h in self.handles.iter() {
            h.thread().unpark();
        }
        for h in self.handles {
            let _ = h.join();
        }
    }
}

/// One epoch = a fresh `Dfir` on this thread + a few rounds; in every round 1–2 threads fire wakes
/// at random moments and the runner is then driven to rest. Returns violations (sig, what).
fn stress_epoch(
    epoch_seed: u64,
    tiny: bool,
    pool: &Pool,
    round_no: &mut u64,
    st: &mut StressStats,
    rep: &mut Reporter,
) -> Vec<(String, String)> {
    let mut violations = vec![];
    let mut rng = Rng::new(epoch_seed);
    let sh = Shared::new();
    let ew = ExecWake::new(false);
    clear_runner();

    let wake_state = Arc::new(WakeState::default());
    let ctx = Context::new(wake_state, Rc::new(DfirMetrics::default()));
    let waker = ctx.waker();
    let s = sh.clone();
    let mut trng = rng.fork(1);
    let tick = async move |ctx: &mut Context| -> bool {
        s.tick_starts.fetch_add(1, SeqCst);
        s.cur.store(L_TICK, Relaxed);
        let r = trng.next_u64();
        if r % 4 == 0 {
            YieldOnce(false).await;
        }
        if r % 8 < 3 {
            spin(((r >> 8) % 48) as u32);
        } else if r % 8 == 3 {
            linger_for_a_wake(&s);
        }
        s.tick_ends.fetch_add(1, SeqCst);
        ctx.__end_tick();
        false
    };
    let mut df = Dfir::new(tick, ctx, None, None);
    let fut: BoxFut = Box::pin(async move {
        match df.run().await {}
    });
    RUNNER.with(|r| *r.borrow_mut() = Some(fut));
    {
        let s = sh.clone();
        let mut hrng = rng.fork(2);
        verif::set_point_hook(Some(Box::new(move |name: &'static str| {
            if let Some(p) = point_index(name) {
                s.cur.store(p as u32, Relaxed);
            }
            // widen the (nanosecond) windows a little, at random
            let r = hrng.next_u64();
            if r % 4 == 0 {
                spin(((r >> 8) % 40) as u32);
            } else if r % 4 == 1 {
                linger_for_a_wake(&s);
            }
        })));
    }

    let rounds = if tiny { 2 } else { 1 + rng.below(8) };
    // A fresh Dfir is raced from its very first poll in the first round; afterwards the runner is idle
    // (waker registered) when a round starts.
    let mut polled_once = false;
    for round in 0..rounds {
        let nthreads = 1 + rng.below(pool.slots.len().min(2));
        let wmax = if tiny {
            3
        } else if rng.chance(1, 8) {
            32
        } else {
            4
        };
        *round_no += 1;
        let use_park = cfg!(miri) || rng.chance(1, 3);
        let mut total_wakes = 0usize;
        pool.done.store(0, SeqCst);
        for t in 0..nthreads {
            let delay = [0u32, 8, 64, 400][rng.below(4)];
            let wakes = 1 + rng.below(wmax);
            total_wakes += wakes;
            let job = Job {
                round: *round_no,
                seed: rng.fork(100 + t as u64).next_u64(),
                wakes,
                delay,
                waker: waker.clone(),
                sh: sh.clone(),
            };
            *pool.slots[t].job.lock().unwrap() = Some(job);
            pool.handles[t].thread().unpark();
        }
        // Hang guard only. The number of polls is *not* bounded by the number of wakes: while a waker
        // thread sits (possibly descheduled) inside `AtomicWaker::wake`, `register` answers by waking the
        // caller, so a correct runner busy-polls until that thread moves on.
        let polls_at_start = ew.polls.load(Relaxed);
        let poll_cap = polls_at_start + 50_000_000 + 40 * total_wakes as u64;
        let mut capped = false;
        sh.wakes_pending.store(total_wakes as u64, SeqCst);
        pool.go.store(*round_no, Release);

        // Runner thread: hand-written executor. Polls only when its waker was invoked (and once at the
        // very beginning); finishes when every waker thread is done and it is at rest.
        let mut waits = 0u32;
        loop {
            let must_poll = !polled_once || ew.woken.swap(false, SeqCst);
            if must_poll {
                polled_once = true;
                if ew.polls.load(Relaxed) > poll_cap {
                    capped = true;
                    break;
                }
                sh.cur.store(L_POLL_ENTRY, Relaxed);
                match poll_runner(&ew) {
                    Some(Poll::Pending) => {}
                    _ => {
                        capped = true;
                        break;
                    }
                }
                sh.cur.store(L_BETWEEN, Relaxed);
                continue;
            }
            sh.cur.store(L_IDLE, Relaxed);
            if pool.done.load(SeqCst) == nthreads {
                // Every wake (and its executor notification, if any) has completed.
                if ew.woken.load(SeqCst) {
                    continue;
                }
                break;
            }
            if use_park {
                std::thread::park();
            } else {
                waits += 1;
                if waits % 512 == 0 {
                    std::thread::yield_now();
                } else {
                    std::hint::spin_loop();
                }
            }
        }
        // collect (the workers may still be finishing if the hang guard fired)
        while pool.done.load(SeqCst) != nthreads {
            std::thread::yield_now();
        }
        let recs: Vec<Vec<(u32, u64)>> =
            (0..nthreads).map(|t| pool.slots[t].result.lock().unwrap().take().expect("worker result")).collect();

        st.rounds += 1;
        st.max_polls_in_round = st.max_polls_in_round.max(ew.polls.load(Relaxed) - polls_at_start);
        if capped {
            rep.count("stress:hang_guard_or_unexpected_ready");
            st.hang_guard = true;
            break;
        }
        let now = sh.tick_starts.load(SeqCst);
        let mut seen: BTreeSet<u32> = BTreeSet::new();
        for (t, r) in recs.iter().enumerate() {
            st.wakes += r.len() as u64;
            for (at, _) in r.iter() {
                st.at[*at as usize] += 1;
                seen.insert(*at);
            }
            let (at, c) = *r.last().expect("w >= 1");
            rep.eval();
            if now <= c {
                violations.push((
                    "C27|Dfir::run|no tick after wake|cross-thread".to_string(),
                    format!(
                        "thread {t} fired its last wake of the round when {c} tick(s) had started (runner last seen at {}); all waker threads finished and the runner is at rest with still {now} tick(s) started (round {round}, {} thread(s), executor {})",
                        at_name(at as usize), nthreads, if use_park { "parks" } else { "spins" }
                    ),
                ));
            }
        }
        if seen.iter().any(|a| *a != L_IDLE) {
            rep.nontrivial(hash_of(&("stress", nthreads, &seen)));
        }
        if st.rounds % 997 == 1 {
            rep.sample(|| {
                json!({"family": "stress", "threads": nthreads, "wakes": total_wakes, "ticks_so_far": now,
                       "runner_seen_at": seen.iter().map(|a| at_name(*a as usize)).collect::<Vec<_>>() })
            });
        }
    }
    st.epochs += 1;
    st.ticks += sh.tick_starts.load(SeqCst);
    st.polls += ew.polls.load(Relaxed);
    st.woken_by_runner_side += ew.times_woken.load(Relaxed);
    clear_runner();
    drop(waker);
    violations
}

fn stress(args: &Args, rep: &mut Reporter) -> StressStats {
    let mut st = StressStats::new();
    let budget = args.budget(100_000, 3_000_000, 80) as u64;
    let tiny = args.tier == Tier::Miri;
    let mut rng = args.rng().fork(0x57E55 + args.shard.0 as u64);
    let mut reported = 0;
    let pool = Pool::new(2);
    let mut round_no = 0u64;
    while st.wakes < budget {
        let epoch_seed = rng.next_u64();
        let res = catch(|| stress_epoch(epoch_seed, tiny, &pool, &mut round_no, &mut st, rep));
        let case = json!({"engine": "mon_wake", "family": "stress", "epoch_seed": epoch_seed.to_string(), "tiny": tiny});
        match res {
            Ok(vs) => {
                for (sig, what) in vs {
                    reported += 1;
                    report_violation(rep, &sig, &what, case.clone());
                }
            }
            Err(msg) => {
                clear_runner();
                report_violation(rep, "C27|Dfir::run|panic|cross-thread", &format!("panic: {msg}"), case);
                st.stopped_early = true;
                break; // the pool may be mid-round
            }
        }
        if reported > 50 || rep.counter("stress:hang_guard_or_unexpected_ready") > 0 {
            st.stopped_early = true;
            break;
        }
    }
    pool.shutdown();
    st
}

// ---------------------------------------------------------------------------------------------

/// Under `-Zmiri-many-seeds` several executions of this program share one stdout; `println!` of a
/// `serde_json::Value` streams the text in many small writes, which the line buffer cuts every 1 KiB, so
/// the JSON lines of concurrent executions get spliced into each other. In the Miri tier every protocol
/// line is therefore formatted first and handed to stdout with a single `write`.
static SINGLE_WRITE: AtomicBool = AtomicBool::new(false);
static OWN_VIOLATIONS: AtomicU64 = AtomicU64::new(0);

fn write_line(v: &Value) {
    use std::io::Write;
    let mut s = v.to_string();
    s.push('\n');
    let mut o = std::io::stdout().lock();
    let _ = o.write_all(s.as_bytes());
    let _ = o.flush();
}

fn report_violation(rep: &mut Reporter, sig: &str, what: &str, case: Value) {
    if SINGLE_WRITE.load(Relaxed) {
        if OWN_VIOLATIONS.fetch_add(1, Relaxed) < 6 {
            write_line(&json!({"t": "violation", "prop": "C27", "sig": sig, "what": what, "case": case}));
        }
    } else {
        rep.violation(sig, what, case);
    }
}

fn replay(rep: &mut Reporter, case: &Value) {
    match case.get("family").and_then(|f| f.as_str()) {
        Some("det") => {
            let vj = &case["variant"];
            let v = Variant {
                mode: Mode::from_name(vj["mode"].as_str().unwrap_or("run")).expect("mode"),
                yielding: vj["yielding"].as_bool().unwrap_or(false),
                inline: vj["inline_exec"].as_bool().unwrap_or(false),
                work_ticks: vj["work_ticks"].as_u64().unwrap_or(0) as u8,
            };
            let plan: Vec<Win> = case["plan"]
                .as_array()
                .expect("plan")
                .iter()
                .map(|w| Win::from_json(w).expect("window"))
                .collect();
            let mut st = DetStats { hits: BTreeMap::new(), ticks: 0, polls: 0, cases: 0, cases_all_fired: 0, harness_problems: vec![] };
            do_det_case(rep, &mut st, v, &plan);
        }
        Some("stress") => {
            // thread schedules are not reproducible: repeat the epoch
            let seed: u64 = case["epoch_seed"].as_str().and_then(|s| s.parse().ok()).expect("epoch_seed");
            let tiny = case["tiny"].as_bool().unwrap_or(false);
            let mut st = StressStats::new();
            let reps = if cfg!(miri) { 1 } else { 20_000 };
            let pool = Pool::new(2);
            let mut round_no = 0u64;
            for _ in 0..reps {
                let vs = stress_epoch(seed, tiny, &pool, &mut round_no, &mut st, rep);
                if !vs.is_empty() {
                    for (sig, what) in vs {
                        report_violation(rep, &sig, &what, case.clone());
                    }
                    break;
                }
            }
            pool.shutdown();
        }
        _ => {
            eprintln!("mon_wake: cannot replay this descriptor (mode {:?})", case.get("mode"));
            std::process::exit(3);
        }
    }
}

fn main() {
    let args = Args::parse();
    if args.prop == "NONE" {
        return;
    }
    if args.prop != "C27" {
        eprintln!("mon_wake serves C27 only");
        std::process::exit(3);
    }
    let mut rep = Reporter::new("C27", args.seed);
    if let Some(case) = args.replay_case() {
        replay(&mut rep, &case);
        rep.finish("replay", false);
        return;
    }
    let miri = args.tier == Tier::Miri;
    SINGLE_WRITE.store(miri, Relaxed);

    let t0 = std::time::Instant::now();
    let det = det_sweep(&args, &mut rep);
    let t1 = std::time::Instant::now();
    let stress = stress(&args, &mut rep);
    // diagnostics only (never part of a verdict)
    eprintln!("mon_wake: det sweep {:?}, cross-thread part {:?}", t1 - t0, t1.elapsed());

    // evidence
    let mut extra: BTreeMap<String, Value> = BTreeMap::new();
    let mut min_fail: Vec<String> = vec![];
    let mut require = |ok: bool, why: &str| {
        if !ok {
            min_fail.push(why.to_string());
        }
    };
    let mut windows_hit: BTreeSet<(&'static str, u8, usize)> = BTreeSet::new();
    let mut per_window: BTreeMap<String, u64> = BTreeMap::new();
    for ((_, label, occ, n), cnt) in det.hits.iter() {
        windows_hit.insert((label, *occ, *n));
        *per_window.entry(format!("{label}#{occ}|n={n}")).or_insert(0) += cnt;
    }
    let per_variant_windows: BTreeMap<String, usize> = {
        let mut m: BTreeMap<String, BTreeSet<(&'static str, u8, usize)>> = BTreeMap::new();
        for ((v, label, occ, n), _) in det.hits.iter() {
            m.entry(v.clone()).or_default().insert((label, *occ, *n));
        }
        m.into_iter().map(|(k, s)| (k, s.len())).collect()
    };
    extra.insert("det_cases".into(), json!(det.cases));
    extra.insert("det_cases_all_windows_reached".into(), json!(det.cases_all_fired));
    extra.insert("det_ticks_observed".into(), json!(det.ticks));
    extra.insert("det_polls".into(), json!(det.polls));
    extra.insert("det_distinct_windows_hit(point,occurrence,n_wakes)".into(), json!(windows_hit.len()));
    extra.insert("det_distinct_windows_hit_per_variant".into(), json!(per_variant_windows));
    extra.insert("det_wakes_fired_per_window".into(), json!(per_window));
    let stress_at: BTreeMap<&'static str, u64> =
        (0..14).filter(|i| stress.at[*i] > 0).map(|i| (at_name(i), stress.at[i])).collect();
    extra.insert(
        "stress".into(),
        json!({"wakes": stress.wakes, "rounds": stress.rounds, "fresh_dataflows": stress.epochs,
               "ticks_observed": stress.ticks, "polls": stress.polls,
               "executor_notifications": stress.woken_by_runner_side,
               "max_polls_in_one_round": stress.max_polls_in_round,
               "runner_last_seen_at_when_wake_fired": stress_at}),
    );

    // minimum observation
    if !miri {
        // every named program point, occurrences 0..=3, hit with single and double wakes under run()
        for (pi, p) in POINTS.iter().enumerate() {
            for occ in 0..=3u8 {
                for n in [1usize, 2] {
                    let ok = det.hits.iter().any(|((v, l, o, nn), c)| {
                        v.starts_with("run") && !v.starts_with("run_") && l == p && *o == occ && *nn == n && *c > 0
                    });
                    require(ok, &format!("window {p}#{occ} (n={n}) never hit under run() [{pi}]"));
                }
            }
        }
        for label in ["tick:start", "tick:resumed", "tick:end", "idle", "between-calls", "mid-yield"] {
            let ok = det.hits.iter().any(|((_, l, _, _), c)| *l == label && *c > 0);
            require(ok, &format!("window class {label} never hit"));
        }
        require(det.cases_all_fired >= 10_000, "fewer than 10000 deterministic cases reached all their windows");
        require(
            stress.stopped_early || stress.wakes >= args.budget(100_000, 3_000_000, 0) as u64,
            "stress: wake budget not reached",
        );
        let non_idle: u64 = (0..14).filter(|i| *i != L_IDLE as usize).map(|i| stress.at[i]).sum();
        require(non_idle >= 300, "stress: fewer than 300 wakes landed while the runner was not idle");
        let distinct_at = (0..14).filter(|i| stress.at[*i] > 0).count();
        require(distinct_at >= 8, "stress: wakes landed in fewer than 8 distinct runner positions");
    } else {
        require(det.cases >= 1, "miri: no deterministic case run");
        require(stress.wakes >= 1, "miri: no cross-thread wake");
    }
    for p in det.harness_problems.iter() {
        require(false, p);
    }
    require(!stress.hang_guard, "stress: hang guard fired / run() returned");

    if miri {
        // one pre-formatted line, one write (see SINGLE_WRITE); same fields as Reporter::finish
        extra.remove("det_wakes_fired_per_window");
        extra.remove("det_distinct_windows_hit_per_variant");
        write_line(&json!({
            "t": "summary", "prop": "C27", "evaluations": rep.evaluations,
            "distinct_nontrivial": rep.distinct_count(),
            "rule": "Miri slice: a thin sample of the deterministic window cases (identical for every Miri seed) plus \
                     cross-thread rounds (1-2 threads x 1-3 wakes against run(), fresh dataflow every 2 rounds) whose \
                     thread schedule and weak-memory behaviour depend on the Miri seed; same oracle as the native tier.",
            "samples": [], "exhaustive": false, "min_obs_ok": min_fail.is_empty(), "min_obs_reason": min_fail,
            "extra": extra, "violations": OWN_VIOLATIONS.load(Relaxed)
        }));
        return;
    }
    for (k, v) in extra {
        rep.extra(&k, v);
    }
    for r in min_fail.iter() {
        rep.require(false, r);
    }
    rep.finish(
        "Real Dfir (Dfir::new around a tick-counting harness closure) polled by a hand-written executor. \
         Deterministic part: for each of 16 runner variants (run() / repeated run_available() / `while run_tick()` \
         driver x tick that returns at once or suspends once x executor that reacts after or inside Waker::wake x \
         tick reporting work or not) every single window and every unordered pair of windows is enumerated, a window \
         being (program point of the runner [10 hook points] | inside tick start/resumed/end | runner at rest | \
         between calls | suspended mid-way) x occurrence 0..=3; plus random triples with occurrences <= 5. \
         Cross-thread part: 1-2 threads fire Context::waker() 1-32 times each at random delays against run() on a \
         spinning or parking executor (the runner lingers at random program points until the next wake lands), \
         fresh dataflow every 1-8 rounds. Every wake records tick_starts just before \
         it is invoked; judged when the runner is at rest (future Pending, executor flag clear, wakers done): \
         tick_starts must have grown. A deterministic case is non-trivial (counted by distinct (variant, plan)) \
         if all its planned windows were actually reached and a wake fired there; a stress round is non-trivial \
         (counted by distinct (threads, set of runner positions seen by the wakes)) if a wake landed while the \
         runner was not idle.",
        true,
    );
}
