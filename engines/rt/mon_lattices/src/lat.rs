//! Bridge between raw terms and the crate's concrete types: `build` constructs a value through the
//! public constructors, `reveal` reads it back through the public accessors / public fields (never
//! through the crate's comparison, iteration-of-lattice or merge code).

use std::cell::Cell;
use std::collections::{BTreeMap, BTreeSet, HashMap, HashSet};
use std::fmt::Debug;

use lattices::collections::{
    ArrayMap, ArraySet, EmptyMap, EmptySet, OptionMap, OptionSet, SingletonMap, SingletonSet, VecMap, VecSet,
};
use lattices::map_union::MapUnion;
use lattices::set_union::SetUnion;
use lattices::union_find::UnionFind;
use lattices::{Conflict, DomPair, Lattice, Max, Min, Pair, Point, VecUnion, WithBot, WithTop};

use crate::model::{NumKind, R, Sh};

pub trait Lat: Sized + Clone + 'static {
    /// Reads mutate the representation (union-find path compression through `Cell`): checks rebuild
    /// such values from their raw term before every use so that a case is self-contained.
    const INTERIOR: bool = false;
    fn name() -> String;
    /// root type constructor, used as the site in signatures
    fn ctor() -> &'static str;
    fn shape() -> Sh;
    /// `None` if this representation cannot hold the term (e.g. a singleton set for two elements).
    fn build(r: &R) -> Option<Self>;
    fn reveal(&self) -> R;
}

// ---------------------------------------------------------------------------------------------
// set containers

pub trait SetC: Sized + Clone + 'static {
    fn cname() -> String;
    fn from_elems(e: &[u8]) -> Option<Self>;
    fn elems(&self) -> Vec<u8>;
}

impl SetC for HashSet<u8> {
    fn cname() -> String {
        "HashSet".into()
    }
    fn from_elems(e: &[u8]) -> Option<Self> {
        Some(e.iter().copied().collect())
    }
    fn elems(&self) -> Vec<u8> {
        let mut v: Vec<u8> = self.iter().copied().collect();
        v.sort();
        v
    }
}
impl SetC for BTreeSet<u8> {
    fn cname() -> String {
        "BTreeSet".into()
    }
    fn from_elems(e: &[u8]) -> Option<Self> {
        Some(e.iter().copied().collect())
    }
    fn elems(&self) -> Vec<u8> {
        self.iter().copied().collect()
    }
}
impl SetC for Vec<u8> {
    fn cname() -> String {
        "Vec".into()
    }
    fn from_elems(e: &[u8]) -> Option<Self> {
        Some(e.to_vec())
    }
    fn elems(&self) -> Vec<u8> {
        self.clone()
    }
}
impl SetC for VecSet<u8> {
    fn cname() -> String {
        "VecSet".into()
    }
    fn from_elems(e: &[u8]) -> Option<Self> {
        Some(VecSet(e.to_vec()))
    }
    fn elems(&self) -> Vec<u8> {
        self.0.clone()
    }
}
impl<const N: usize> SetC for ArraySet<u8, N> {
    fn cname() -> String {
        format!("ArraySet{N}")
    }
    fn from_elems(e: &[u8]) -> Option<Self> {
        <[u8; N]>::try_from(e).ok().map(ArraySet)
    }
    fn elems(&self) -> Vec<u8> {
        self.0.to_vec()
    }
}
impl SetC for SingletonSet<u8> {
    fn cname() -> String {
        "SingletonSet".into()
    }
    fn from_elems(e: &[u8]) -> Option<Self> {
        if e.len() == 1 { Some(SingletonSet(e[0])) } else { None }
    }
    fn elems(&self) -> Vec<u8> {
        vec![self.0]
    }
}
impl SetC for OptionSet<u8> {
    fn cname() -> String {
        "OptionSet".into()
    }
    fn from_elems(e: &[u8]) -> Option<Self> {
        match e.len() {
            0 => Some(OptionSet(None)),
            1 => Some(OptionSet(Some(e[0]))),
            _ => None,
        }
    }
    fn elems(&self) -> Vec<u8> {
        self.0.into_iter().collect()
    }
}
impl SetC for EmptySet<u8> {
    fn cname() -> String {
        "EmptySet".into()
    }
    fn from_elems(e: &[u8]) -> Option<Self> {
        if e.is_empty() { Some(EmptySet::default()) } else { None }
    }
    fn elems(&self) -> Vec<u8> {
        vec![]
    }
}

// ---------------------------------------------------------------------------------------------
// map containers (key = u8)

pub trait MapC: Sized + Clone + 'static {
    type V;
    fn cname() -> String;
    fn from_entries(e: Vec<(u8, Self::V)>) -> Option<Self>;
    fn entries(&self) -> Vec<(u8, &Self::V)>;
}

impl<V: Clone + 'static> MapC for HashMap<u8, V> {
    type V = V;
    fn cname() -> String {
        "HashMap".into()
    }
    fn from_entries(e: Vec<(u8, V)>) -> Option<Self> {
        let n = e.len();
        let m: Self = e.into_iter().collect();
        // a term listing a key twice (multi-edge union-find delta) cannot be held by a real map
        (m.len() == n).then_some(m)
    }
    fn entries(&self) -> Vec<(u8, &V)> {
        let mut v: Vec<(u8, &V)> = self.iter().map(|(k, v)| (*k, v)).collect();
        v.sort_by_key(|(k, _)| *k);
        v
    }
}
impl<V: Clone + 'static> MapC for BTreeMap<u8, V> {
    type V = V;
    fn cname() -> String {
        "BTreeMap".into()
    }
    fn from_entries(e: Vec<(u8, V)>) -> Option<Self> {
        let n = e.len();
        let m: Self = e.into_iter().collect();
        // a term listing a key twice (multi-edge union-find delta) cannot be held by a real map
        (m.len() == n).then_some(m)
    }
    fn entries(&self) -> Vec<(u8, &V)> {
        self.iter().map(|(k, v)| (*k, v)).collect()
    }
}
impl<V: Clone + 'static> MapC for VecMap<u8, V> {
    type V = V;
    fn cname() -> String {
        "VecMap".into()
    }
    fn from_entries(e: Vec<(u8, V)>) -> Option<Self> {
        let (k, v): (Vec<u8>, Vec<V>) = e.into_iter().unzip();
        Some(VecMap::new(k, v))
    }
    fn entries(&self) -> Vec<(u8, &V)> {
        self.keys.iter().copied().zip(self.vals.iter()).collect()
    }
}
impl<V: Clone + 'static, const N: usize> MapC for ArrayMap<u8, V, N> {
    type V = V;
    fn cname() -> String {
        format!("ArrayMap{N}")
    }
    fn from_entries(e: Vec<(u8, V)>) -> Option<Self> {
        <[(u8, V); N]>::try_from(e).ok().map(ArrayMap::from)
    }
    fn entries(&self) -> Vec<(u8, &V)> {
        self.keys.iter().copied().zip(self.vals.iter()).collect()
    }
}
impl<V: Clone + 'static> MapC for SingletonMap<u8, V> {
    type V = V;
    fn cname() -> String {
        "SingletonMap".into()
    }
    fn from_entries(mut e: Vec<(u8, V)>) -> Option<Self> {
        if e.len() == 1 {
            let (k, v) = e.pop().unwrap();
            Some(SingletonMap(k, v))
        } else {
            None
        }
    }
    fn entries(&self) -> Vec<(u8, &V)> {
        vec![(self.0, &self.1)]
    }
}
impl<V: Clone + 'static> MapC for OptionMap<u8, V> {
    type V = V;
    fn cname() -> String {
        "OptionMap".into()
    }
    fn from_entries(mut e: Vec<(u8, V)>) -> Option<Self> {
        match e.len() {
            0 => Some(OptionMap(None)),
            1 => Some(OptionMap(e.pop())),
            _ => None,
        }
    }
    fn entries(&self) -> Vec<(u8, &V)> {
        self.0.iter().map(|(k, v)| (*k, v)).collect()
    }
}
impl<V: Clone + 'static> MapC for EmptyMap<u8, V> {
    type V = V;
    fn cname() -> String {
        "EmptyMap".into()
    }
    fn from_entries(e: Vec<(u8, V)>) -> Option<Self> {
        if e.is_empty() { Some(EmptyMap(std::marker::PhantomData, std::marker::PhantomData)) } else { None }
    }
    fn entries(&self) -> Vec<(u8, &V)> {
        vec![]
    }
}

// ---------------------------------------------------------------------------------------------
// scalars for Max / Min

pub trait Sc: Copy + Ord + Debug + 'static {
    const KIND: NumKind;
    fn to_i(self) -> i128;
    fn from_i(v: i128) -> Option<Self>;
}
impl Sc for u8 {
    const KIND: NumKind = NumKind::U8;
    fn to_i(self) -> i128 {
        self as i128
    }
    fn from_i(v: i128) -> Option<Self> {
        u8::try_from(v).ok()
    }
}
impl Sc for i8 {
    const KIND: NumKind = NumKind::I8;
    fn to_i(self) -> i128 {
        self as i128
    }
    fn from_i(v: i128) -> Option<Self> {
        i8::try_from(v).ok()
    }
}
impl Sc for u64 {
    const KIND: NumKind = NumKind::U64;
    fn to_i(self) -> i128 {
        self as i128
    }
    fn from_i(v: i128) -> Option<Self> {
        u64::try_from(v).ok()
    }
}
impl Sc for bool {
    const KIND: NumKind = NumKind::Bool;
    fn to_i(self) -> i128 {
        self as i128
    }
    fn from_i(v: i128) -> Option<Self> {
        match v {
            0 => Some(false),
            1 => Some(true),
            _ => None,
        }
    }
}
impl Sc for char {
    const KIND: NumKind = NumKind::Char;
    fn to_i(self) -> i128 {
        self as u32 as i128
    }
    fn from_i(v: i128) -> Option<Self> {
        u32::try_from(v).ok().and_then(char::from_u32)
    }
}

// ---------------------------------------------------------------------------------------------
// lattice types

impl Lat for () {
    fn name() -> String {
        "()".into()
    }
    fn ctor() -> &'static str {
        "()"
    }
    fn shape() -> Sh {
        Sh::Unit
    }
    fn build(r: &R) -> Option<Self> {
        matches!(r, R::Unit).then_some(())
    }
    fn reveal(&self) -> R {
        R::Unit
    }
}

impl<S: SetC> Lat for SetUnion<S> {
    fn name() -> String {
        format!("SetUnion<{}>", S::cname())
    }
    fn ctor() -> &'static str {
        "SetUnion"
    }
    fn shape() -> Sh {
        Sh::Set
    }
    fn build(r: &R) -> Option<Self> {
        match r {
            R::Set(e) => S::from_elems(e).map(SetUnion::new),
            _ => None,
        }
    }
    fn reveal(&self) -> R {
        R::Set(self.as_reveal_ref().elems())
    }
}

impl<Mp> Lat for MapUnion<Mp>
where
    Mp: MapC,
    Mp::V: Lat,
{
    fn name() -> String {
        format!("MapUnion<{}<{}>>", Mp::cname(), <Mp::V as Lat>::name())
    }
    fn ctor() -> &'static str {
        "MapUnion"
    }
    fn shape() -> Sh {
        Sh::Map(Box::new(<Mp::V as Lat>::shape()))
    }
    fn build(r: &R) -> Option<Self> {
        match r {
            R::Map(es) => {
                let mut out = vec![];
                for (k, v) in es {
                    out.push((*k, <Mp::V as Lat>::build(v)?));
                }
                Mp::from_entries(out).map(MapUnion::new)
            }
            _ => None,
        }
    }
    fn reveal(&self) -> R {
        R::Map(self.as_reveal_ref().entries().into_iter().map(|(k, v)| (k, v.reveal())).collect())
    }
}

impl<T: Sc> Lat for Max<T> {
    fn name() -> String {
        format!("Max<{}>", T::KIND.name())
    }
    fn ctor() -> &'static str {
        "Max"
    }
    fn shape() -> Sh {
        Sh::Num { kind: T::KIND, min: false }
    }
    fn build(r: &R) -> Option<Self> {
        match r {
            R::Num { v, kind, min: false } if *kind == T::KIND => T::from_i(*v).map(Max::new),
            _ => None,
        }
    }
    fn reveal(&self) -> R {
        R::Num { v: self.as_reveal_ref().to_i(), kind: T::KIND, min: false }
    }
}

impl<T: Sc> Lat for Min<T> {
    fn name() -> String {
        format!("Min<{}>", T::KIND.name())
    }
    fn ctor() -> &'static str {
        "Min"
    }
    fn shape() -> Sh {
        Sh::Num { kind: T::KIND, min: true }
    }
    fn build(r: &R) -> Option<Self> {
        match r {
            R::Num { v, kind, min: true } if *kind == T::KIND => T::from_i(*v).map(Min::new),
            _ => None,
        }
    }
    fn reveal(&self) -> R {
        R::Num { v: self.as_reveal_ref().to_i(), kind: T::KIND, min: true }
    }
}

impl<L: Lat> Lat for WithBot<L> {
    const INTERIOR: bool = L::INTERIOR;
    fn name() -> String {
        format!("WithBot<{}>", L::name())
    }
    fn ctor() -> &'static str {
        "WithBot"
    }
    fn shape() -> Sh {
        Sh::WithBot(Box::new(L::shape()))
    }
    fn build(r: &R) -> Option<Self> {
        match r {
            R::WithBot(None) => Some(WithBot::new(None)),
            R::WithBot(Some(x)) => L::build(x).map(|x| WithBot::new(Some(x))),
            _ => None,
        }
    }
    fn reveal(&self) -> R {
        R::WithBot(self.as_reveal_ref().map(|x| Box::new(x.reveal())))
    }
}

impl<L: Lat> Lat for WithTop<L> {
    const INTERIOR: bool = L::INTERIOR;
    fn name() -> String {
        format!("WithTop<{}>", L::name())
    }
    fn ctor() -> &'static str {
        "WithTop"
    }
    fn shape() -> Sh {
        Sh::WithTop(Box::new(L::shape()))
    }
    fn build(r: &R) -> Option<Self> {
        match r {
            R::WithTop(None) => Some(WithTop::new(None)),
            R::WithTop(Some(x)) => L::build(x).map(|x| WithTop::new(Some(x))),
            _ => None,
        }
    }
    fn reveal(&self) -> R {
        R::WithTop(self.as_reveal_ref().map(|x| Box::new(x.reveal())))
    }
}

impl<A: Lat, B: Lat> Lat for Pair<A, B> {
    const INTERIOR: bool = A::INTERIOR || B::INTERIOR;
    fn name() -> String {
        format!("Pair<{},{}>", A::name(), B::name())
    }
    fn ctor() -> &'static str {
        "Pair"
    }
    fn shape() -> Sh {
        Sh::Tuple(vec![A::shape(), B::shape()])
    }
    fn build(r: &R) -> Option<Self> {
        match r {
            R::Tuple(xs) if xs.len() == 2 => Some(Pair::new(A::build(&xs[0])?, B::build(&xs[1])?)),
            _ => None,
        }
    }
    fn reveal(&self) -> R {
        R::Tuple(vec![self.a.reveal(), self.b.reveal()])
    }
}

impl<K: Lat, V: Lat> Lat for DomPair<K, V> {
    const INTERIOR: bool = K::INTERIOR || V::INTERIOR;
    fn name() -> String {
        format!("DomPair<{},{}>", K::name(), V::name())
    }
    fn ctor() -> &'static str {
        "DomPair"
    }
    fn shape() -> Sh {
        Sh::Dom(Box::new(K::shape()), Box::new(V::shape()))
    }
    fn build(r: &R) -> Option<Self> {
        match r {
            R::Dom(k, v) => Some(DomPair::new(K::build(k)?, V::build(v)?)),
            _ => None,
        }
    }
    fn reveal(&self) -> R {
        let (k, v) = self.as_reveal_ref();
        R::Dom(Box::new(k.reveal()), Box::new(v.reveal()))
    }
}

impl<L: Lat> Lat for VecUnion<L> {
    const INTERIOR: bool = L::INTERIOR;
    fn name() -> String {
        format!("VecUnion<{}>", L::name())
    }
    fn ctor() -> &'static str {
        "VecUnion"
    }
    fn shape() -> Sh {
        Sh::Vec(Box::new(L::shape()))
    }
    fn build(r: &R) -> Option<Self> {
        match r {
            R::Vec(xs) => {
                let mut out = vec![];
                for x in xs {
                    out.push(L::build(x)?);
                }
                Some(VecUnion::new(out))
            }
            _ => None,
        }
    }
    fn reveal(&self) -> R {
        R::Vec(self.as_reveal_ref().iter().map(Lat::reveal).collect())
    }
}

impl<Mp> Lat for UnionFind<Mp>
where
    Mp: MapC<V = Cell<u8>>,
{
    const INTERIOR: bool = true;
    fn name() -> String {
        format!("UnionFind<{}>", Mp::cname())
    }
    fn ctor() -> &'static str {
        "UnionFind"
    }
    fn shape() -> Sh {
        Sh::Uf
    }
    fn build(r: &R) -> Option<Self> {
        match r {
            R::Uf(pm) => Mp::from_entries(pm.iter().map(|&(k, p)| (k, Cell::new(p))).collect()).map(UnionFind::new),
            _ => None,
        }
    }
    fn reveal(&self) -> R {
        R::Uf(self.as_reveal_ref().entries().into_iter().map(|(k, p)| (k, p.get())).collect())
    }
}

impl Lat for Conflict<u8> {
    fn name() -> String {
        "Conflict<u8>".into()
    }
    fn ctor() -> &'static str {
        "Conflict"
    }
    fn shape() -> Sh {
        Sh::Conflict
    }
    fn build(r: &R) -> Option<Self> {
        match r {
            R::Conflict(x) => Some(Conflict::new(*x)),
            _ => None,
        }
    }
    fn reveal(&self) -> R {
        R::Conflict(self.as_reveal_ref().copied())
    }
}

impl Lat for Point<u8, ()> {
    fn name() -> String {
        "Point<u8>".into()
    }
    fn ctor() -> &'static str {
        "Point"
    }
    fn shape() -> Sh {
        Sh::Point
    }
    fn build(r: &R) -> Option<Self> {
        match r {
            R::Point(x) => Some(Point::new(*x)),
            _ => None,
        }
    }
    fn reveal(&self) -> R {
        R::Point(self.val)
    }
}

// ---------------------------------------------------------------------------------------------
// #[derive(Lattice)] structs defined in the harness

/// Generic, two named fields (the macro README's own example shape).
#[derive(Clone, Lattice)]
pub struct D2<KeySet, Epoch> {
    pub keys: SetUnion<KeySet>,
    pub epoch: Max<Epoch>,
}

/// Concrete, three named fields.
#[derive(Clone, Default, Lattice)]
pub struct D3 {
    pub x: Max<u8>,
    pub y: SetUnion<HashSet<u8>>,
    pub z: WithBot<Max<bool>>,
}

/// Generic tuple struct, three unnamed fields.
#[derive(Clone, Lattice)]
pub struct T3<A, B, C>(pub A, pub B, pub C);

impl<S: SetC, T: Sc> Lat for D2<S, T> {
    fn name() -> String {
        format!("D2<{},{}>", S::cname(), T::KIND.name())
    }
    fn ctor() -> &'static str {
        "D2(derive)"
    }
    fn shape() -> Sh {
        Sh::Tuple(vec![Sh::Set, Sh::Num { kind: T::KIND, min: false }])
    }
    fn build(r: &R) -> Option<Self> {
        match r {
            R::Tuple(xs) if xs.len() == 2 => Some(D2 { keys: Lat::build(&xs[0])?, epoch: Lat::build(&xs[1])? }),
            _ => None,
        }
    }
    fn reveal(&self) -> R {
        R::Tuple(vec![self.keys.reveal(), self.epoch.reveal()])
    }
}

impl Lat for D3 {
    fn name() -> String {
        "D3".into()
    }
    fn ctor() -> &'static str {
        "D3(derive)"
    }
    fn shape() -> Sh {
        Sh::Tuple(vec![<Max<u8>>::shape(), Sh::Set, <WithBot<Max<bool>>>::shape()])
    }
    fn build(r: &R) -> Option<Self> {
        match r {
            R::Tuple(xs) if xs.len() == 3 => Some(D3 { x: Lat::build(&xs[0])?, y: Lat::build(&xs[1])?, z: Lat::build(&xs[2])? }),
            _ => None,
        }
    }
    fn reveal(&self) -> R {
        R::Tuple(vec![self.x.reveal(), self.y.reveal(), self.z.reveal()])
    }
}

impl<A: Lat, B: Lat, C: Lat> Lat for T3<A, B, C> {
    const INTERIOR: bool = A::INTERIOR || B::INTERIOR || C::INTERIOR;
    fn name() -> String {
        format!("T3<{},{},{}>", A::name(), B::name(), C::name())
    }
    fn ctor() -> &'static str {
        "T3(derive)"
    }
    fn shape() -> Sh {
        Sh::Tuple(vec![A::shape(), B::shape(), C::shape()])
    }
    fn build(r: &R) -> Option<Self> {
        match r {
            R::Tuple(xs) if xs.len() == 3 => Some(T3(A::build(&xs[0])?, B::build(&xs[1])?, C::build(&xs[2])?)),
            _ => None,
        }
    }
    fn reveal(&self) -> R {
        R::Tuple(vec![self.0.reveal(), self.1.reveal(), self.2.reveal()])
    }
}
