//! Thin generic *observers*: the only code instantiated per concrete type / pair of types. Each one
//! builds fresh values from raw terms, calls the crate, and returns plain data (raw terms, flags,
//! orderings, panics as `Err`). All judging is non-generic and lives in `checks.rs`.

use std::cmp::Ordering;

use lattices::{Atomize, IsBot, IsTop, Merge, NaiveLatticeOrd};
use vcommon::catch;

use crate::lat::Lat;
use crate::model::R;

pub type P<T> = Result<T, String>;

/// (left side revealed, right side revealed, crate's `left == right`)
pub fn obs_c01<T>(law: &str, rs: &[&R]) -> P<(R, R, P<bool>)>
where
    T: Lat + Merge<T> + PartialEq,
{
    let b = |i: usize| T::build(rs[i]).expect("c01 build");
    let (l, r) = catch(|| match law {
        "idempotent" => (Merge::merge_owned(b(0), b(0)), b(0)),
        "commutative" => (Merge::merge_owned(b(0), b(1)), Merge::merge_owned(b(1), b(0))),
        "associative" => (
            Merge::merge_owned(Merge::merge_owned(b(0), b(1)), b(2)),
            Merge::merge_owned(b(0), Merge::merge_owned(b(1), b(2))),
        ),
        _ => unreachable!(),
    })?;
    let (rl, rr) = (l.reveal(), r.reveal());
    Ok((rl, rr, catch(|| l == r)))
}

/// ((x+o1)+o2, (x+o2)+o1, ((x+o1)+o2)+o1) revealed
pub fn obs_c01h<T, O>(rx: &R, r1: &R, r2: &R) -> P<(R, R, R)>
where
    T: Lat + Merge<O>,
    O: Lat,
{
    let b = |r: &R| O::build(r).expect("c01h build");
    let x = || T::build(rx).expect("c01h build x");
    catch(|| {
        let x12 = Merge::merge_owned(Merge::merge_owned(x(), b(r1)), b(r2));
        let x21 = Merge::merge_owned(Merge::merge_owned(x(), b(r2)), b(r1));
        let x121 = Merge::merge_owned(Merge::merge_owned(Merge::merge_owned(x(), b(r1)), b(r2)), b(r1));
        (x12.reveal(), x21.reveal(), x121.reveal())
    })
}

/// (returned flag, receiver revealed after the merge)
pub fn obs_c02<T, O>(ra: &R, rb: &R) -> P<(bool, R)>
where
    T: Lat + Merge<O>,
    O: Lat,
{
    catch(|| {
        let mut a = T::build(ra).expect("c02 build a");
        let b = O::build(rb).expect("c02 build b");
        let flag = a.merge(b);
        (flag, a.reveal())
    })
}

pub struct CmpObs {
    pub pc: P<Option<Ordering>>,
    pub eq: P<bool>,
    /// (<=, <, >=, >, !=)
    pub ops: P<(bool, bool, bool, bool, bool)>,
}

pub fn obs_c03<T, O>(ra: &R, rb: &R) -> CmpObs
where
    T: Lat + PartialOrd<O> + PartialEq<O>,
    O: Lat,
{
    let mk = || (T::build(ra).expect("c03 build a"), O::build(rb).expect("c03 build b"));
    CmpObs {
        pc: catch(|| {
            let (a, b) = mk();
            a.partial_cmp(&b)
        }),
        eq: catch(|| {
            let (a, b) = mk();
            a == b
        }),
        ops: catch(|| {
            if T::INTERIOR || O::INTERIOR {
                let le = {
                    let (a, b) = mk();
                    a <= b
                };
                let lt = {
                    let (a, b) = mk();
                    a < b
                };
                let ge = {
                    let (a, b) = mk();
                    a >= b
                };
                let gt = {
                    let (a, b) = mk();
                    a > b
                };
                let (a, b) = mk();
                (le, lt, ge, gt, a != b)
            } else {
                let (a, b) = mk();
                (a <= b, a < b, a >= b, a > b, a != b)
            }
        }),
    }
}

/// (naive_cmp, partial_cmp)
pub fn obs_c03n<T, O>(ra: &R, rb: &R) -> P<(Option<Ordering>, Option<Ordering>)>
where
    T: Lat + Merge<O> + PartialOrd<O>,
    O: Lat + Merge<T>,
{
    catch(|| {
        let a = T::build(ra).unwrap();
        let b = O::build(rb).unwrap();
        let n = a.naive_cmp(&b);
        let (a, b) = if T::INTERIOR || O::INTERIOR { (T::build(ra).unwrap(), O::build(rb).unwrap()) } else { (a, b) };
        (n, a.partial_cmp(&b))
    })
}

/// (is_bot, is_top)
pub fn obs_c03u<T>(rx: &R) -> (P<bool>, P<bool>)
where
    T: Lat + IsBot + IsTop,
{
    (catch(|| T::build(rx).unwrap().is_bot()), catch(|| T::build(rx).unwrap().is_top()))
}

/// (Default::default().is_bot(), default revealed)
pub fn obs_c03d<T>() -> P<(bool, R)>
where
    T: Lat + IsBot + Default,
{
    catch(|| {
        let d = T::default();
        (d.is_bot(), d.reveal())
    })
}

/// (x.is_bot(), [(atom.is_bot(), atom revealed)], Default merged with all atoms revealed)
pub fn obs_c06<T>(rx: &R) -> P<(bool, Vec<(bool, R)>, R)>
where
    T: Lat + Atomize + Default + IsBot,
    T::Atom: Lat,
{
    catch(|| {
        let x = T::build(rx).unwrap();
        let is_bot = x.is_bot();
        let atoms: Vec<T::Atom> = x.atomize().collect();
        let infos: Vec<(bool, R)> = atoms.iter().map(|a| (a.is_bot(), a.reveal())).collect();
        let mut re = T::default();
        for a in atoms {
            re.merge(a);
        }
        (is_bot, infos, re.reveal())
    })
}
