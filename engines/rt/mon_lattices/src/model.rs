//! Independent model of the lattices shipped by the `lattices` crate.
//!
//! * `R`  — *raw term*: what a value literally contains (un-normalised syntax tree; this is what the
//!          generator emits, what every representation is built from, and what `reveal` reads back
//!          through the public accessors).
//! * `Sh` — shape (type structure) of a family; all representations of one family share a shape.
//! * `M`  — *model value*: the documented abstract lattice element (`norm(R)`), with its own join,
//!          order, bottom and greatest-element predicates. Nothing in here calls the crate.

use std::collections::{BTreeMap, BTreeSet};

use vcommon::{Value, json};

#[derive(Clone, Copy, Debug, PartialEq, Eq, Hash, PartialOrd, Ord)]
pub enum NumKind {
    U8,
    I8,
    Bool,
    Char,
    U64,
}

impl NumKind {
    pub fn lo(self) -> i128 {
        match self {
            NumKind::U8 | NumKind::Bool | NumKind::Char | NumKind::U64 => 0,
            NumKind::I8 => i8::MIN as i128,
        }
    }
    pub fn hi(self) -> i128 {
        match self {
            NumKind::U8 => u8::MAX as i128,
            NumKind::I8 => i8::MAX as i128,
            NumKind::Bool => 1,
            NumKind::Char => char::MAX as u32 as i128,
            NumKind::U64 => u64::MAX as i128,
        }
    }
    pub fn name(self) -> &'static str {
        match self {
            NumKind::U8 => "u8",
            NumKind::I8 => "i8",
            NumKind::Bool => "bool",
            NumKind::Char => "char",
            NumKind::U64 => "u64",
        }
    }
    pub fn parse(s: &str) -> NumKind {
        match s {
            "u8" => NumKind::U8,
            "i8" => NumKind::I8,
            "bool" => NumKind::Bool,
            "char" => NumKind::Char,
            "u64" => NumKind::U64,
            _ => panic!("bad num kind {s}"),
        }
    }
    pub fn valid(self, v: i128) -> bool {
        v >= self.lo() && v <= self.hi() && (self != NumKind::Char || char::from_u32(v as u32).is_some())
    }
}

/// Shape of a lattice family.
#[derive(Clone, Debug, PartialEq, Eq, Hash, PartialOrd, Ord)]
pub enum Sh {
    Unit,
    Set,
    Map(Box<Sh>),
    /// `Max<T>` (`min == false`) or `Min<T>` (`min == true`).
    Num { kind: NumKind, min: bool },
    WithBot(Box<Sh>),
    WithTop(Box<Sh>),
    /// `Pair` and `#[derive(Lattice)]` structs: component-wise product.
    Tuple(Vec<Sh>),
    Dom(Box<Sh>, Box<Sh>),
    Vec(Box<Sh>),
    Uf,
    Conflict,
    Point,
}

/// Raw term.
#[derive(Clone, Debug, PartialEq, Eq, Hash, PartialOrd, Ord)]
pub enum R {
    Unit,
    /// distinct elements, in representation order
    Set(Vec<u8>),
    /// distinct keys, in representation order; values may be bottom
    Map(Vec<(u8, R)>),
    Num { v: i128, kind: NumKind, min: bool },
    WithBot(Option<Box<R>>),
    WithTop(Option<Box<R>>),
    Tuple(Vec<R>),
    Dom(Box<R>, Box<R>),
    Vec(Vec<R>),
    /// union-find parent map `(item, parent)`. Items are distinct in every value that is queried
    /// or used as a receiver; *merge-in deltas* held by Vec-/array-backed representations may list
    /// an item several times (Merge reads the map as a list of union edges).
    Uf(Vec<(u8, u8)>),
    Conflict(Option<u8>),
    Point(u8),
}

/// Model value (normal form: structural equality == lattice equality).
#[derive(Clone, Debug, PartialEq, Eq, Hash, PartialOrd, Ord)]
pub enum M {
    Unit,
    Set(BTreeSet<u8>),
    /// no bottom-valued entries
    Map(BTreeMap<u8, M>),
    /// position in a bounded chain (already oriented: larger `pos` is later in the lattice order)
    Chain { pos: i128, bot: i128, top: i128 },
    /// `None` = the adjoined bottom; `Some(x)` has `x` non-bottom
    WithBot(Option<Box<M>>),
    /// `None` = the adjoined (new) top; `Some(top_inner)` is a different, smaller element
    WithTop(Option<Box<M>>),
    Tuple(Vec<M>),
    Dom(Box<M>, Box<M>),
    Vec(Vec<M>),
    /// partition given by its non-singleton blocks
    Part(BTreeSet<BTreeSet<u8>>),
    /// `None` = conflict (top)
    Conflict(Option<u8>),
    Point(u8),
}

// ---------------------------------------------------------------------------------------------
// partitions

/// Connected components (non-singleton blocks) of an undirected edge list, by plain BFS.
pub fn components(edges: &[(u8, u8)]) -> BTreeSet<BTreeSet<u8>> {
    let mut nodes: BTreeSet<u8> = BTreeSet::new();
    for &(a, b) in edges {
        nodes.insert(a);
        nodes.insert(b);
    }
    let mut seen: BTreeSet<u8> = BTreeSet::new();
    let mut out = BTreeSet::new();
    for &s in &nodes {
        if seen.contains(&s) {
            continue;
        }
        let mut block = BTreeSet::new();
        let mut queue = vec![s];
        seen.insert(s);
        while let Some(u) = queue.pop() {
            block.insert(u);
            for &(a, b) in edges {
                let v = if a == u {
                    b
                } else if b == u {
                    a
                } else {
                    continue;
                };
                if seen.insert(v) {
                    queue.push(v);
                }
            }
        }
        if block.len() > 1 {
            out.insert(block);
        }
    }
    out
}

pub fn part_edges(p: &BTreeSet<BTreeSet<u8>>) -> Vec<(u8, u8)> {
    let mut e = vec![];
    for b in p {
        let first = *b.iter().next().unwrap();
        for &x in b {
            if x != first {
                e.push((first, x));
            }
        }
    }
    e
}

pub fn part_same(p: &BTreeSet<BTreeSet<u8>>, a: u8, b: u8) -> bool {
    a == b || p.iter().any(|blk| blk.contains(&a) && blk.contains(&b))
}

/// True if the functional graph of a parent map has a cycle of length >= 2 with a tail leading into
/// it ("rho shape"), the input class on which `find` is suspected not to terminate.
pub fn uf_has_rho(pm: &[(u8, u8)]) -> bool {
    let map: BTreeMap<u8, u8> = pm.iter().copied().collect();
    // nodes on cycles of length >= 2
    let mut on_cycle: BTreeSet<u8> = BTreeSet::new();
    for &(s, _) in pm {
        let mut cur = s;
        let mut steps = 0;
        loop {
            match map.get(&cur) {
                Some(&p) if p != cur => cur = p,
                _ => break,
            }
            steps += 1;
            if cur == s {
                on_cycle.insert(s);
                break;
            }
            if steps > pm.len() + 1 {
                break;
            }
        }
    }
    // a node not on a cycle whose walk reaches a cycle node
    for &(s, _) in pm {
        if on_cycle.contains(&s) {
            continue;
        }
        let mut cur = s;
        for _ in 0..=pm.len() + 1 {
            match map.get(&cur) {
                Some(&p) if p != cur => cur = p,
                _ => break,
            }
            if on_cycle.contains(&cur) {
                return true;
            }
        }
    }
    false
}

// ---------------------------------------------------------------------------------------------
// normalisation

pub fn norm(r: &R) -> M {
    match r {
        R::Unit => M::Unit,
        R::Set(v) => M::Set(v.iter().copied().collect()),
        R::Map(es) => {
            let mut m = BTreeMap::new();
            for (k, v) in es {
                let mv = norm(v);
                if !mv.is_bot() {
                    let dup = m.insert(*k, mv);
                    assert!(dup.is_none(), "generator emitted duplicate map key");
                }
            }
            M::Map(m)
        }
        R::Num { v, kind, min } => {
            if *min {
                M::Chain { pos: -*v, bot: -kind.hi(), top: -kind.lo() }
            } else {
                M::Chain { pos: *v, bot: kind.lo(), top: kind.hi() }
            }
        }
        R::WithBot(None) => M::WithBot(None),
        R::WithBot(Some(x)) => {
            let m = norm(x);
            if m.is_bot() { M::WithBot(None) } else { M::WithBot(Some(Box::new(m))) }
        }
        R::WithTop(None) => M::WithTop(None),
        R::WithTop(Some(x)) => M::WithTop(Some(Box::new(norm(x)))),
        R::Tuple(xs) => M::Tuple(xs.iter().map(norm).collect()),
        R::Dom(k, v) => M::Dom(Box::new(norm(k)), Box::new(norm(v))),
        R::Vec(xs) => M::Vec(xs.iter().map(norm).collect()),
        R::Uf(pm) => M::Part(components(pm)),
        R::Conflict(x) => M::Conflict(*x),
        R::Point(x) => M::Point(*x),
    }
}

#[derive(Clone, Copy, Debug, PartialEq, Eq)]
pub enum Cmp {
    Less,
    Equal,
    Greater,
    Incomparable,
}

impl Cmp {
    pub fn as_ordering(self) -> Option<std::cmp::Ordering> {
        match self {
            Cmp::Less => Some(std::cmp::Ordering::Less),
            Cmp::Equal => Some(std::cmp::Ordering::Equal),
            Cmp::Greater => Some(std::cmp::Ordering::Greater),
            Cmp::Incomparable => None,
        }
    }
}

impl M {
    pub fn is_bot(&self) -> bool {
        match self {
            M::Unit => true,
            M::Set(s) => s.is_empty(),
            M::Map(m) => m.is_empty(),
            M::Chain { pos, bot, .. } => pos == bot,
            M::WithBot(x) => x.is_none(),
            M::WithTop(x) => x.as_ref().is_some_and(|x| x.is_bot()),
            M::Tuple(xs) => xs.iter().all(M::is_bot),
            M::Dom(k, v) => k.is_bot() && v.is_bot(),
            M::Vec(xs) => xs.is_empty(),
            M::Part(p) => p.is_empty(),
            // a flat lattice {Some(x)} + conflict has no least element
            M::Conflict(_) => false,
            // one-point lattice
            M::Point(_) => true,
        }
    }

    /// Is this the greatest element of its (abstract, unbounded-domain) lattice?
    pub fn is_greatest(&self) -> bool {
        match self {
            M::Unit => true,
            M::Set(_) | M::Map(_) | M::Vec(_) | M::Part(_) => false,
            M::Chain { pos, top, .. } => pos == top,
            M::WithBot(x) => x.as_ref().is_some_and(|x| x.is_greatest()),
            M::WithTop(x) => x.is_none(),
            M::Tuple(xs) => xs.iter().all(M::is_greatest),
            M::Dom(k, v) => k.is_greatest() && v.is_greatest(),
            M::Conflict(x) => x.is_none(),
            M::Point(_) => true,
        }
    }

    /// `is_greatest` under the reading in which `WithTop(Some(top_inner))` is identified with the
    /// adjoined top (NOT the documented lattice; used only to classify a disagreement).
    pub fn is_greatest_collapsing_withtop(&self) -> bool {
        match self {
            M::WithTop(x) => x.as_ref().is_none_or(|x| x.is_greatest_collapsing_withtop()),
            M::WithBot(x) => x.as_ref().is_some_and(|x| x.is_greatest_collapsing_withtop()),
            M::Tuple(xs) => xs.iter().all(M::is_greatest_collapsing_withtop),
            M::Dom(k, v) => k.is_greatest_collapsing_withtop() && v.is_greatest_collapsing_withtop(),
            other => other.is_greatest(),
        }
    }

    pub fn leq(&self, o: &M) -> bool {
        match (self, o) {
            (M::Unit, M::Unit) => true,
            (M::Set(a), M::Set(b)) => a.is_subset(b),
            (M::Map(a), M::Map(b)) => a.iter().all(|(k, va)| b.get(k).is_some_and(|vb| va.leq(vb))),
            (M::Chain { pos: a, .. }, M::Chain { pos: b, .. }) => a <= b,
            (M::WithBot(None), M::WithBot(_)) => true,
            (M::WithBot(Some(_)), M::WithBot(None)) => false,
            (M::WithBot(Some(a)), M::WithBot(Some(b))) => a.leq(b),
            (M::WithTop(_), M::WithTop(None)) => true,
            (M::WithTop(None), M::WithTop(Some(_))) => false,
            (M::WithTop(Some(a)), M::WithTop(Some(b))) => a.leq(b),
            (M::Tuple(a), M::Tuple(b)) => a.len() == b.len() && a.iter().zip(b).all(|(x, y)| x.leq(y)),
            (M::Dom(ka, va), M::Dom(kb, vb)) => match ka.cmp_m(kb) {
                Cmp::Less => true,
                Cmp::Equal => va.leq(vb),
                _ => false,
            },
            (M::Vec(a), M::Vec(b)) => a.len() <= b.len() && a.iter().zip(b).all(|(x, y)| x.leq(y)),
            (M::Part(a), M::Part(b)) => a.iter().all(|ba| b.iter().any(|bb| ba.is_subset(bb))),
            (M::Conflict(a), M::Conflict(b)) => b.is_none() || a == b,
            (M::Point(a), M::Point(b)) => a == b,
            _ => panic!("model leq on different shapes: {self:?} vs {o:?}"),
        }
    }

    pub fn cmp_m(&self, o: &M) -> Cmp {
        match (self.leq(o), o.leq(self)) {
            (true, true) => Cmp::Equal,
            (true, false) => Cmp::Less,
            (false, true) => Cmp::Greater,
            (false, false) => Cmp::Incomparable,
        }
    }

    /// The documented merge. `None` = undefined (`Point` of unequal values: the crate documents a
    /// panic).
    pub fn join(&self, o: &M) -> Option<M> {
        Some(match (self, o) {
            (M::Unit, M::Unit) => M::Unit,
            (M::Set(a), M::Set(b)) => M::Set(a.union(b).copied().collect()),
            (M::Map(a), M::Map(b)) => {
                let mut out = a.clone();
                for (k, vb) in b {
                    let nv = match out.get(k) {
                        Some(va) => va.join(vb)?,
                        None => vb.clone(),
                    };
                    out.insert(*k, nv);
                }
                M::Map(out)
            }
            (M::Chain { pos: a, bot, top }, M::Chain { pos: b, .. }) => M::Chain { pos: *a.max(b), bot: *bot, top: *top },
            (M::WithBot(None), x @ M::WithBot(_)) => x.clone(),
            (x @ M::WithBot(_), M::WithBot(None)) => x.clone(),
            (M::WithBot(Some(a)), M::WithBot(Some(b))) => M::WithBot(Some(Box::new(a.join(b)?))),
            (M::WithTop(None), M::WithTop(_)) | (M::WithTop(_), M::WithTop(None)) => M::WithTop(None),
            (M::WithTop(Some(a)), M::WithTop(Some(b))) => M::WithTop(Some(Box::new(a.join(b)?))),
            (M::Tuple(a), M::Tuple(b)) => {
                let mut out = vec![];
                for (x, y) in a.iter().zip(b) {
                    out.push(x.join(y)?);
                }
                M::Tuple(out)
            }
            // DomPair docs: a dominating key selects its pair; equal or incomparable keys merge both.
            (M::Dom(ka, va), M::Dom(kb, vb)) => match ka.cmp_m(kb) {
                Cmp::Less => o.clone(),
                Cmp::Greater => self.clone(),
                Cmp::Equal | Cmp::Incomparable => M::Dom(Box::new(ka.join(kb)?), Box::new(va.join(vb)?)),
            },
            (M::Vec(a), M::Vec(b)) => {
                let mut out = vec![];
                for i in 0..a.len().max(b.len()) {
                    out.push(match (a.get(i), b.get(i)) {
                        (Some(x), Some(y)) => x.join(y)?,
                        (Some(x), None) | (None, Some(x)) => x.clone(),
                        (None, None) => unreachable!(),
                    });
                }
                M::Vec(out)
            }
            (M::Part(a), M::Part(b)) => {
                let mut e = part_edges(a);
                e.extend(part_edges(b));
                M::Part(components(&e))
            }
            (M::Conflict(a), M::Conflict(b)) => M::Conflict(if a == b { *a } else { None }),
            (M::Point(a), M::Point(b)) => {
                if a == b {
                    M::Point(*a)
                } else {
                    return None;
                }
            }
            _ => panic!("model join on different shapes: {self:?} vs {o:?}"),
        })
    }
}

// ---------------------------------------------------------------------------------------------
// classification of raw inputs (used in signatures)

/// Does the raw term contain `WithTop(Some(x))` with `x` the greatest element of the inner lattice?
pub fn has_withtop_some_top(r: &R) -> bool {
    match r {
        R::WithTop(Some(x)) => norm(x).is_greatest() || has_withtop_some_top(x),
        R::WithTop(None) | R::WithBot(None) => false,
        R::WithBot(Some(x)) => has_withtop_some_top(x),
        R::Tuple(xs) | R::Vec(xs) => xs.iter().any(has_withtop_some_top),
        R::Dom(k, v) => has_withtop_some_top(k) || has_withtop_some_top(v),
        R::Map(es) => es.iter().any(|(_, v)| has_withtop_some_top(v)),
        _ => false,
    }
}

/// Does the raw term contain a representation of bottom that is not the canonical one
/// (bottom-valued map entry, `WithBot(Some(bottom))`)?
pub fn has_hidden_bottom(r: &R) -> bool {
    match r {
        R::Map(es) => es.iter().any(|(_, v)| norm(v).is_bot() || has_hidden_bottom(v)),
        R::WithBot(Some(x)) => norm(x).is_bot() || has_hidden_bottom(x),
        R::WithTop(Some(x)) => has_hidden_bottom(x),
        R::Tuple(xs) | R::Vec(xs) => xs.iter().any(has_hidden_bottom),
        R::Dom(k, v) => has_hidden_bottom(k) || has_hidden_bottom(v),
        _ => false,
    }
}

// ---------------------------------------------------------------------------------------------
// JSON

pub fn r_json(r: &R) -> Value {
    match r {
        R::Unit => json!("unit"),
        R::Set(v) => json!({"set": v}),
        R::Map(es) => json!({"map": es.iter().map(|(k, v)| json!([k, r_json(v)])).collect::<Vec<_>>()}),
        R::Num { v, kind, min } => json!({"num": v.to_string(), "kind": kind.name(), "min": min}),
        R::WithBot(x) => json!({"wb": x.as_ref().map(|x| r_json(x))}),
        R::WithTop(x) => json!({"wt": x.as_ref().map(|x| r_json(x))}),
        R::Tuple(xs) => json!({"tup": xs.iter().map(r_json).collect::<Vec<_>>()}),
        R::Dom(k, v) => json!({"dom": [r_json(k), r_json(v)]}),
        R::Vec(xs) => json!({"vec": xs.iter().map(r_json).collect::<Vec<_>>()}),
        R::Uf(pm) => json!({"uf": pm}),
        R::Conflict(x) => json!({"conf": x}),
        R::Point(x) => json!({"point": x}),
    }
}

pub fn r_parse(v: &Value) -> R {
    if v.as_str() == Some("unit") {
        return R::Unit;
    }
    let o = v.as_object().expect("raw term object");
    let u8of = |x: &Value| x.as_u64().expect("u8") as u8;
    if let Some(s) = o.get("set") {
        R::Set(s.as_array().unwrap().iter().map(u8of).collect())
    } else if let Some(m) = o.get("map") {
        R::Map(m.as_array().unwrap().iter().map(|e| (u8of(&e[0]), r_parse(&e[1]))).collect())
    } else if let Some(n) = o.get("num") {
        R::Num {
            v: n.as_str().unwrap().parse().unwrap(),
            kind: NumKind::parse(o["kind"].as_str().unwrap()),
            min: o["min"].as_bool().unwrap(),
        }
    } else if let Some(x) = o.get("wb") {
        R::WithBot(if x.is_null() { None } else { Some(Box::new(r_parse(x))) })
    } else if let Some(x) = o.get("wt") {
        R::WithTop(if x.is_null() { None } else { Some(Box::new(r_parse(x))) })
    } else if let Some(x) = o.get("tup") {
        R::Tuple(x.as_array().unwrap().iter().map(r_parse).collect())
    } else if let Some(x) = o.get("dom") {
        R::Dom(Box::new(r_parse(&x[0])), Box::new(r_parse(&x[1])))
    } else if let Some(x) = o.get("vec") {
        R::Vec(x.as_array().unwrap().iter().map(r_parse).collect())
    } else if let Some(x) = o.get("uf") {
        R::Uf(x.as_array().unwrap().iter().map(|e| (u8of(&e[0]), u8of(&e[1]))).collect())
    } else if let Some(x) = o.get("conf") {
        R::Conflict(if x.is_null() { None } else { Some(u8of(x)) })
    } else if let Some(x) = o.get("point") {
        R::Point(u8of(x))
    } else {
        panic!("bad raw term json {v}")
    }
}
