//! Generic oracle checks for C01, C02, C03, C06 (C04 lives in `hist.rs` / `uf.rs`). Every check has
//! a `*_case` function that judges one explicit case; the universe drivers and `--replay` both go
//! through it.

use std::cmp::Ordering;
use std::collections::HashMap;
use std::rc::Rc;

use vcommon::{Args, Reporter, Rng, Tier, Value, catch, hash_of, json};

use crate::lat::Lat;
use crate::obs::{CmpObs, P};
use crate::model::{Cmp, M, R, Sh, has_hidden_bottom, has_withtop_some_top, norm, r_json, r_parse};
use crate::universe::{Universe, universe};

pub struct Ctx {
    pub rep: Reporter,
    pub args: Args,
    cache: HashMap<(Sh, usize), Rc<Universe>>,
    pub families_exhaustive: u64,
    pub families_sampled: u64,
}

impl Ctx {
    pub fn new(prop: &str, args: Args) -> Ctx {
        Ctx { rep: Reporter::new(prop, args.seed), args, cache: HashMap::new(), families_exhaustive: 0, families_sampled: 0 }
    }
    /// The universe of a shape is a function of (seed, shape, n) only, so every representation of a
    /// family sees the same raw terms.
    pub fn uni(&mut self, sh: &Sh, n: usize) -> Rc<Universe> {
        if let Some(u) = self.cache.get(&(sh.clone(), n)) {
            return u.clone();
        }
        let mut rng = Rng::new(self.args.seed).fork(hash_of(&(sh, n)));
        let u = Rc::new(universe(sh, n, &mut rng));
        if u.exhaustive {
            self.families_exhaustive += 1;
        } else {
            self.families_sampled += 1;
        }
        self.cache.insert((sh.clone(), n), u.clone());
        u
    }
    pub fn rng_for(&self, salt: &str) -> Rng {
        Rng::new(self.args.seed).fork(hash_of(salt))
    }
    pub fn miri(&self) -> bool {
        self.args.tier == Tier::Miri
    }
}

/// Does a type name mention a representation whose bottom is a degenerate size (zero-length array,
/// always-empty container, `None`)?
fn degenerate_repr(name: &str) -> bool {
    ["ArraySet0", "ArrayMap0", "EmptySet", "EmptyMap", "OptionSet", "OptionMap"].iter().any(|m| name.contains(m))
}

fn class_of(rs: &[&R]) -> &'static str {
    if rs.iter().any(|r| has_hidden_bottom(r)) { "hidden-bottom" } else { "plain" }
}

fn ord_name(o: Option<Ordering>) -> &'static str {
    match o {
        Some(Ordering::Less) => "Less",
        Some(Ordering::Equal) => "Equal",
        Some(Ordering::Greater) => "Greater",
        None => "None",
    }
}

fn get_r(v: &Value, k: &str) -> R {
    r_parse(v.get(k).unwrap_or_else(|| panic!("replay case lacks '{k}'")))
}

// =============================================================================================
// table entries (non-generic; the generic part is a function pointer into obs.rs)

#[derive(Clone)]
pub struct Ty {
    pub name: String,
    pub ctor: &'static str,
    pub shape: Sh,
    pub can: fn(&R) -> bool,
}

pub fn ty<T: Lat>() -> Ty {
    Ty { name: T::name(), ctor: T::ctor(), shape: T::shape(), can: crate::hist::can_build::<T> }
}

pub enum Obs {
    C01 { law: fn(&str, &[&R]) -> P<(R, R, P<bool>)>, strict: bool },
    C01h(fn(&R, &R, &R) -> P<(R, R, R)>),
    C02(fn(&R, &R) -> P<(bool, R)>),
    C03(fn(&R, &R) -> CmpObs),
    C03n(fn(&R, &R) -> P<(Option<Ordering>, Option<Ordering>)>),
    C03t(fn(&R, &R) -> CmpObs),
    C03u(fn(&R) -> (P<bool>, P<bool>)),
    C03d(fn() -> P<(bool, R)>),
    C06(fn(&R) -> P<(bool, Vec<(bool, R)>, R)>),
}

pub struct Entry {
    pub prop: &'static str,
    pub check: &'static str,
    pub t: Ty,
    pub o: Option<Ty>,
    pub obs: Obs,
}

impl Entry {
    pub fn family(&self) -> String {
        match &self.o {
            Some(o) => format!("{}|{}", self.t.name, o.name),
            None => self.t.name.clone(),
        }
    }
    pub fn run(&self, cx: &mut Ctx, inp: Option<&Value>) {
        match &self.obs {
            Obs::C01 { law, strict } => c01(cx, self, *law, *strict, inp),
            Obs::C01h(f) => c01h(cx, self, *f, inp),
            Obs::C02(f) => c02(cx, self, *f, inp),
            Obs::C03(f) => c03(cx, self, *f, inp),
            Obs::C03n(f) => c03n(cx, self, *f, inp),
            Obs::C03t(f) => c03t(cx, self, *f, inp),
            Obs::C03u(f) => c03u(cx, self, *f, inp),
            Obs::C03d(f) => c03d(cx, self, *f),
            Obs::C06(f) => c06(cx, self, *f, inp),
        }
    }
    fn other(&self) -> &Ty {
        self.o.as_ref().unwrap_or(&self.t)
    }
    fn hetero(&self) -> &'static str {
        if self.other().name == self.t.name { "same-repr" } else { "cross-repr" }
    }
    fn case(&self, fields: Value) -> Value {
        let mut v = json!({"engine":"mon_lattices","check":self.check,"family":self.family()});
        for (k, x) in fields.as_object().unwrap() {
            v[k] = x.clone();
        }
        v
    }
    fn vals_t(&self, u: &Universe) -> Vec<R> {
        u.vals.iter().filter(|r| (self.t.can)(r)).cloned().collect()
    }
    fn vals_o(&self, u: &Universe) -> Vec<R> {
        u.vals.iter().filter(|r| (self.other().can)(r)).cloned().collect()
    }
}

// =============================================================================================
// C01

type LawFn = fn(&str, &[&R]) -> P<(R, R, P<bool>)>;

fn c01_law(cx: &mut Ctx, e: &Entry, f: LawFn, law: &'static str, rs: &[&R], strict: bool) -> bool {
    let site = format!("{}::merge", e.t.ctor);
    let name = &e.t.name;
    let case = || e.case(json!({"law": law, "inputs": rs.iter().map(|r| r_json(r)).collect::<Vec<_>>()}));
    cx.rep.eval();
    let class = class_of(rs);
    match f(law, rs) {
        Err(p) => {
            if strict {
                cx.rep.violation(&format!("C01|{site}|panic|{law}|{class}"), &format!("{name}: merge panicked: {p}"), case());
            }
            false
        }
        Ok((l, rr, eq)) => {
            let mut ok = true;
            if norm(&l) != norm(&rr) {
                ok = false;
                if strict {
                    cx.rep.violation(
                        &format!("C01|{site}|not-{law}(model)|{class}"),
                        &format!("{name}: the two sides reveal different lattice values: {l:?} vs {rr:?}"),
                        case(),
                    );
                }
            }
            match eq {
                Ok(true) => {}
                Ok(false) => {
                    ok = false;
                    if strict {
                        cx.rep.violation(
                            &format!("C01|{site}|not-{law}(crate-eq)|{class}"),
                            &format!("{name}: the crate's == says the two sides differ: {l:?} vs {rr:?}"),
                            case(),
                        );
                    }
                }
                Err(p) => {
                    ok = false;
                    if strict {
                        cx.rep.violation(&format!("C01|{}::eq|panic|{class}", e.t.ctor), &format!("{name}: == panicked: {p}"), case());
                    }
                }
            }
            ok
        }
    }
}

fn c01(cx: &mut Ctx, e: &Entry, f: LawFn, strict: bool, inp: Option<&Value>) {
    if let Some(v) = inp {
        let rs: Vec<R> = v["inputs"].as_array().unwrap().iter().map(r_parse).collect();
        let refs: Vec<&R> = rs.iter().collect();
        let law: &'static str = match v["law"].as_str().unwrap() {
            "idempotent" => "idempotent",
            "commutative" => "commutative",
            _ => "associative",
        };
        let ok = c01_law(cx, e, f, law, &refs, true);
        eprintln!("replay c01 {} {law}: {}", e.t.name, if ok { "held" } else { "FAILED" });
        return;
    }
    let n = cx.args.budget(36, 80, 5);
    let u = cx.uni(&e.t.shape, n);
    let vals = e.vals_t(&u);
    let models: Vec<M> = vals.iter().map(norm).collect();
    let fam = e.t.name.clone();
    let mut fails = 0u64;
    for x in &vals {
        if !c01_law(cx, e, f, "idempotent", &[x], strict) {
            fails += 1;
        }
    }
    for x in &vals {
        for y in &vals {
            if !c01_law(cx, e, f, "commutative", &[x, y], strict) {
                fails += 1;
            }
        }
    }
    for i in 0..vals.len() {
        for j in 0..vals.len() {
            for k in 0..vals.len() {
                let (x, y, z) = (&vals[i], &vals[j], &vals[k]);
                if !c01_law(cx, e, f, "associative", &[x, y, z], strict) {
                    fails += 1;
                }
                let (mi, mj, mk) = (&models[i], &models[j], &models[k]);
                if mi != mj && mj != mk && mi != mk && !mi.is_bot() && !mj.is_bot() && !mk.is_bot() {
                    cx.rep.nontrivial(hash_of(&("c01", &fam, x, y, z)));
                    cx.rep.sample(|| json!({"family": fam, "x": r_json(x), "y": r_json(y), "z": r_json(z), "law": "associative", "held": true}));
                }
            }
        }
    }
    // extra random triples over a larger list (values beyond the cube above)
    let big = cx.uni(&e.t.shape, cx.args.budget(200, 400, 6));
    let bvals = e.vals_t(&big);
    let mut rng = cx.rng_for(&format!("c01/{fam}"));
    for _ in 0..cx.args.budget(4000, 100_000, 10) {
        let (x, y, z) = (rng.choose(&bvals), rng.choose(&bvals), rng.choose(&bvals));
        if !c01_law(cx, e, f, "associative", &[x, y, z], strict) {
            fails += 1;
        }
        if !c01_law(cx, e, f, "commutative", &[x, y], strict) {
            fails += 1;
        }
        let (mi, mj, mk) = (norm(x), norm(y), norm(z));
        if mi != mj && mj != mk && mi != mk && !mi.is_bot() && !mj.is_bot() && !mk.is_bot() {
            cx.rep.nontrivial(hash_of(&("c01", &fam, x, y, z)));
        }
    }
    cx.rep.count(&format!("c01_family:{fam}"));
    cx.rep.count("c01_families");
    if !strict {
        cx.rep.count_n(&format!("recorded_only_law_failures:{fam}"), fails);
    }
}

fn c01h_case(cx: &mut Ctx, e: &Entry, f: fn(&R, &R, &R) -> P<(R, R, R)>, rx: &R, r1: &R, r2: &R) {
    let site = format!("{}::merge", e.t.ctor);
    let fam = e.family();
    let case = || e.case(json!({"x": r_json(rx), "o1": r_json(r1), "o2": r_json(r2)}));
    cx.rep.eval();
    let class = class_of(&[rx, r1, r2]);
    match f(rx, r1, r2) {
        Err(p) => cx.rep.violation(&format!("C01|{site}|panic|hetero|{class}"), &format!("{fam}: {p}"), case()),
        Ok((a, b, c)) => {
            let (ma, mb, mc) = (norm(&a), norm(&b), norm(&c));
            if ma != mb {
                cx.rep.violation(
                    &format!("C01|{site}|order-dependent(model)|hetero|{class}"),
                    &format!("{fam}: (x+o1)+o2 = {a:?} but (x+o2)+o1 = {b:?}"),
                    case(),
                );
            }
            if ma != mc {
                cx.rep.violation(
                    &format!("C01|{site}|not-idempotent(model)|hetero|{class}"),
                    &format!("{fam}: merging o1 again changed the value: {a:?} -> {c:?}"),
                    case(),
                );
            }
        }
    }
}

fn c01h(cx: &mut Ctx, e: &Entry, f: fn(&R, &R, &R) -> P<(R, R, R)>, inp: Option<&Value>) {
    if let Some(v) = inp {
        c01h_case(cx, e, f, &get_r(v, "x"), &get_r(v, "o1"), &get_r(v, "o2"));
        return;
    }
    let u = cx.uni(&e.t.shape, cx.args.budget(200, 400, 6));
    let xs = e.vals_t(&u);
    let os = e.vals_o(&u);
    if os.is_empty() {
        cx.rep.count("c01h_no_buildable_other");
        return;
    }
    let fam = e.family();
    let mut rng = cx.rng_for(&format!("c01h/{fam}"));
    for _ in 0..cx.args.budget(1500, 30_000, 5) {
        let (x, o1, o2) = (rng.choose(&xs), rng.choose(&os), rng.choose(&os));
        c01h_case(cx, e, f, x, o1, o2);
        let (mx, m1, m2) = (norm(x), norm(o1), norm(o2));
        if m1 != m2 && !m1.is_bot() && !m2.is_bot() && mx != m1 && mx != m2 {
            cx.rep.nontrivial(hash_of(&("c01h", &fam, x, o1, o2)));
        }
    }
    cx.rep.count("c01h_pairs_of_representations");
}

/// `Point`: merging equal values returns false and keeps the value; merging unequal values must
/// panic, never silently succeed. (C01 + C02 + C03 parts for the one-point lattice.)
pub fn point_check(cx: &mut Ctx, prop: &str, inp: Option<&Value>) {
    use lattices::{IsBot, IsTop, Merge, Point};
    type Pt = Point<u8, ()>;
    let vals: Vec<u8> = match inp {
        Some(v) => vec![v["a"].as_u64().unwrap() as u8, v["b"].as_u64().unwrap() as u8],
        None => (0..6).collect(),
    };
    let pairs: Vec<(u8, u8)> = match inp {
        Some(_) => vec![(vals[0], vals[1])],
        None => vals.iter().flat_map(|&a| vals.iter().map(move |&b| (a, b))).collect(),
    };
    for (a, b) in pairs {
        let case = || json!({"engine":"mon_lattices","check":"point","family":"Point<u8>","a":a,"b":b});
        cx.rep.eval();
        let r = catch(|| {
            let mut x = Pt::new(a);
            let f = x.merge(Pt::new(b));
            (f, x.val)
        });
        match (a == b, r) {
            (true, Ok((f, v))) => {
                if f {
                    cx.rep.violation(&format!("{prop}|Point::merge|flag-true-on-equal"), "merging equal points returned true", case());
                }
                if v != a {
                    cx.rep.violation(&format!("{prop}|Point::merge|value-changed-on-equal"), &format!("value became {v}"), case());
                }
            }
            (true, Err(p)) => cx.rep.violation(&format!("{prop}|Point::merge|panic-on-equal"), &p, case()),
            (false, Ok((f, v))) => cx.rep.violation(
                &format!("{prop}|Point::merge|no-panic-on-unequal"),
                &format!("merging unequal points silently succeeded (flag {f}, value {v})"),
                case(),
            ),
            (false, Err(_)) => {
                cx.rep.count("point_unequal_merge_panicked_as_documented");
                cx.rep.nontrivial(hash_of(&("point", a, b)));
            }
        }
        if prop == "C03" {
            cx.rep.eval();
            match catch(|| Pt::new(a) == Pt::new(b)) {
                Ok(x) if x == (a == b) => {}
                Ok(x) => cx.rep.violation("C03|Point::eq|wrong-answer", &format!("{a} == {b} gave {x}"), case()),
                Err(p) => cx.rep.violation("C03|Point::eq|panic", &p, case()),
            }
            if a == b {
                match catch(|| Pt::new(a).partial_cmp(&Pt::new(b))) {
                    Ok(Some(Ordering::Equal)) => {}
                    Ok(o) => cx.rep.violation("C03|Point::partial_cmp|wrong-answer-on-equal", ord_name(o), case()),
                    Err(p) => cx.rep.violation("C03|Point::partial_cmp|panic-on-equal", &p, case()),
                }
                let p = Pt::new(a);
                if !(p.is_bot() && p.is_top()) {
                    cx.rep.violation("C03|Point::is_bot/is_top|one-point-lattice-not-both", "", case());
                }
            }
        }
    }
    cx.rep.count("point_checked");
}

// =============================================================================================
// C02

fn c02_case(cx: &mut Ctx, e: &Entry, f: fn(&R, &R) -> P<(bool, R)>, ra: &R, rb: &R) {
    let site = format!("{}::merge", e.t.ctor);
    let fam = e.family();
    let case = || e.case(json!({"a": r_json(ra), "b": r_json(rb)}));
    let before = norm(ra);
    let mb = norm(rb);
    let expected = before.join(&mb);
    cx.rep.eval();
    let class = class_of(&[ra, rb]);
    let hetero = e.hetero();
    match (f(ra, rb), expected) {
        (Err(_), None) => cx.rep.count("c02_undefined_join_panicked_as_documented"),
        (Ok(_), None) => cx.rep.violation(&format!("C02|{site}|no-panic-on-undefined-join"), &format!("{fam}: merge of unequal points returned"), case()),
        (Err(p), Some(_)) => cx.rep.violation(&format!("C02|{site}|panic|{hetero}|{class}"), &format!("{fam}: {p}"), case()),
        (Ok((flag, ar)), Some(exp)) => {
            let after = norm(&ar);
            if after != exp {
                cx.rep.violation(
                    &format!("C02|{site}|wrong-result|{hetero}|{class}"),
                    &format!("{fam}: after merge the receiver reveals {ar:?}; model join is {exp:?}"),
                    case(),
                );
            }
            let changed = after != before;
            if flag != changed {
                let kind = if flag { "flag-true-but-unchanged" } else { "flag-false-but-changed" };
                cx.rep.violation(
                    &format!("C02|{site}|{kind}|{hetero}|{class}"),
                    &format!("{fam}: merge returned {flag}; before {before:?}, after {after:?}"),
                    case(),
                );
            }
            if !flag && !mb.leq(&before) {
                cx.rep.violation(
                    &format!("C02|{site}|flag-false-but-other-not-below|{hetero}|{class}"),
                    &format!("{fam}: merge returned false although other {mb:?} is not <= receiver {before:?}"),
                    case(),
                );
            }
            if degenerate_repr(&e.other().name) && (mb.is_bot() || has_hidden_bottom(rb)) {
                cx.rep.count("c02_other_is_degenerate_bottom");
            }
            if flag {
                cx.rep.count("c02_flag_true");
            } else {
                cx.rep.count("c02_flag_false");
            }
        }
    }
}

fn c02(cx: &mut Ctx, e: &Entry, f: fn(&R, &R) -> P<(bool, R)>, inp: Option<&Value>) {
    if let Some(v) = inp {
        c02_case(cx, e, f, &get_r(v, "a"), &get_r(v, "b"));
        return;
    }
    assert_eq!(e.t.shape, e.other().shape, "table error: {}", e.family());
    let u = cx.uni(&e.t.shape, cx.args.budget(200, 400, 6));
    let xs = e.vals_t(&u);
    let os = e.vals_o(&u);
    let fam = e.family();
    if os.is_empty() {
        cx.rep.count("c02_no_buildable_other");
        return;
    }
    // all pairs if that fits the budget, else a seeded sample
    let cap = cx.args.budget(20_000, 160_000, 30);
    let total = xs.len() * os.len();
    let mut rng = cx.rng_for(&format!("c02/{fam}"));
    let run = |cx: &mut Ctx, a: &R, b: &R| {
        c02_case(cx, e, f, a, b);
        let (ma, mb) = (norm(a), norm(b));
        if !ma.is_bot() && !mb.is_bot() && ma != mb {
            cx.rep.nontrivial(hash_of(&("c02", &fam, a, b)));
            cx.rep.sample(|| json!({"family": fam, "a": r_json(a), "b": r_json(b), "model_join": format!("{:?}", ma.join(&mb))}));
        }
    };
    if total <= cap {
        for a in &xs {
            for b in &os {
                run(cx, a, b);
            }
        }
    } else {
        for _ in 0..cap {
            let (a, b) = (rng.choose(&xs), rng.choose(&os));
            run(cx, a, b);
        }
    }
    cx.rep.count("c02_pairs_of_representations");
    if e.hetero() == "cross-repr" {
        cx.rep.count("c02_cross_representation_pairs");
    }
}

// =============================================================================================
// C03

fn c03_case(cx: &mut Ctx, e: &Entry, f: fn(&R, &R) -> CmpObs, ra: &R, rb: &R) {
    let fam = e.family();
    let ctor = e.t.ctor;
    let case = || e.case(json!({"a": r_json(ra), "b": r_json(rb)}));
    let (ma, mb) = (norm(ra), norm(rb));
    let c = ma.cmp_m(&mb);
    let class = class_of(&[ra, rb]);
    let hetero = e.hetero();
    let o = f(ra, rb);
    cx.rep.eval();
    match o.pc {
        Err(p) => cx.rep.violation(&format!("C03|{ctor}::partial_cmp|panic|{hetero}|{class}"), &format!("{fam}: {p}"), case()),
        Ok(got) => {
            if got != c.as_ordering() {
                cx.rep.violation(
                    &format!("C03|{ctor}::partial_cmp|{}-expected-{}|{hetero}|{class}", ord_name(got), ord_name(c.as_ordering())),
                    &format!("{fam}: partial_cmp gave {got:?}, the model order says {c:?} ({ma:?} vs {mb:?})"),
                    case(),
                );
            }
        }
    }
    cx.rep.eval();
    match o.eq {
        Err(p) => cx.rep.violation(&format!("C03|{ctor}::eq|panic|{hetero}|{class}"), &format!("{fam}: {p}"), case()),
        Ok(got) => {
            if got != (c == Cmp::Equal) {
                cx.rep.violation(
                    &format!("C03|{ctor}::eq|{}-expected-{}|{hetero}|{class}", got, c == Cmp::Equal),
                    &format!("{fam}: == gave {got}, models {ma:?} vs {mb:?}"),
                    case(),
                );
            }
        }
    }
    cx.rep.eval();
    match o.ops {
        Err(p) => cx.rep.violation(&format!("C03|{ctor}::cmp-operators|panic|{hetero}|{class}"), &format!("{fam}: {p}"), case()),
        Ok(got) => {
            let exp = (
                matches!(c, Cmp::Less | Cmp::Equal),
                c == Cmp::Less,
                matches!(c, Cmp::Greater | Cmp::Equal),
                c == Cmp::Greater,
                c != Cmp::Equal,
            );
            if got != exp {
                cx.rep.violation(
                    &format!("C03|{ctor}::cmp-operators|wrong-answer|{hetero}|{class}"),
                    &format!("{fam}: (<=,<,>=,>,!=) = {got:?}, model order {c:?} demands {exp:?}"),
                    case(),
                );
            }
        }
    }
}

fn c03(cx: &mut Ctx, e: &Entry, f: fn(&R, &R) -> CmpObs, inp: Option<&Value>) {
    if let Some(v) = inp {
        c03_case(cx, e, f, &get_r(v, "a"), &get_r(v, "b"));
        return;
    }
    assert_eq!(e.t.shape, e.other().shape, "table error: {}", e.family());
    let u = cx.uni(&e.t.shape, cx.args.budget(200, 400, 6));
    let xs = e.vals_t(&u);
    let os = e.vals_o(&u);
    let fam = e.family();
    if os.is_empty() || xs.is_empty() {
        cx.rep.count("c03_no_buildable_operand");
        return;
    }
    let cap = cx.args.budget(12_000, 160_000, 30);
    let total = xs.len() * os.len();
    let mut rng = cx.rng_for(&format!("c03/{fam}"));
    let run = |cx: &mut Ctx, a: &R, b: &R| {
        c03_case(cx, e, f, a, b);
        let (ma, mb) = (norm(a), norm(b));
        if !ma.is_bot() && !mb.is_bot() && ma != mb {
            cx.rep.nontrivial(hash_of(&("c03", &fam, a, b)));
            cx.rep.sample(|| json!({"family": fam, "a": r_json(a), "b": r_json(b), "model_order": format!("{:?}", ma.cmp_m(&mb))}));
        }
        match ma.cmp_m(&mb) {
            Cmp::Incomparable => cx.rep.count("c03_incomparable_pairs"),
            Cmp::Equal => cx.rep.count("c03_equal_pairs"),
            _ => cx.rep.count("c03_ordered_pairs"),
        }
    };
    if total <= cap {
        for a in &xs {
            for b in &os {
                run(cx, a, b);
            }
        }
    } else {
        for _ in 0..cap {
            let (a, b) = (rng.choose(&xs), rng.choose(&os));
            run(cx, a, b);
        }
    }
    cx.rep.count("c03_pairs_of_representations");
    if e.hetero() == "cross-repr" {
        cx.rep.count("c03_cross_representation_pairs");
    }
}

type NaiveFn = fn(&R, &R) -> P<(Option<Ordering>, Option<Ordering>)>;

fn c03n_case(cx: &mut Ctx, e: &Entry, f: NaiveFn, ra: &R, rb: &R) {
    let fam = e.family();
    let ctor = e.t.ctor;
    let case = || e.case(json!({"a": r_json(ra), "b": r_json(rb)}));
    let (ma, mb) = (norm(ra), norm(rb));
    if ma.join(&mb).is_none() {
        return; // Point of unequal values: documented panic
    }
    let class = class_of(&[ra, rb]);
    cx.rep.eval();
    match f(ra, rb) {
        Err(p) => cx.rep.violation(&format!("C03|{ctor}::naive_cmp|panic|{class}"), &format!("{fam}: {p}"), case()),
        Ok((n, p)) => {
            if n != p {
                cx.rep.violation(
                    &format!("C03|{ctor}::naive_cmp|differs-from-partial_cmp|{class}"),
                    &format!("{fam}: naive_cmp {n:?} vs partial_cmp {p:?}"),
                    case(),
                );
            }
            let c = ma.cmp_m(&mb).as_ordering();
            if n != c {
                cx.rep.violation(
                    &format!("C03|{ctor}::naive_cmp|{}-expected-{}|{class}", ord_name(n), ord_name(c)),
                    &format!("{fam}: naive_cmp {n:?}, model order {c:?}"),
                    case(),
                );
            }
        }
    }
}

fn c03n(cx: &mut Ctx, e: &Entry, f: NaiveFn, inp: Option<&Value>) {
    if let Some(v) = inp {
        c03n_case(cx, e, f, &get_r(v, "a"), &get_r(v, "b"));
        return;
    }
    let u = cx.uni(&e.t.shape, cx.args.budget(60, 200, 5));
    let xs = e.vals_t(&u);
    let os = e.vals_o(&u);
    let fam = e.family();
    for a in &xs {
        for b in &os {
            c03n_case(cx, e, f, a, b);
            let (ma, mb) = (norm(a), norm(b));
            if !ma.is_bot() && !mb.is_bot() && ma != mb {
                cx.rep.nontrivial(hash_of(&("c03n", &fam, a, b)));
            }
        }
    }
    cx.rep.count("c03_naive_cmp_pairs_of_representations");
}

/// Partial-order laws on the crate's own answers over triples (reflexive, antisymmetric w.r.t. ==,
/// transitive, dual).
fn c03t(cx: &mut Ctx, e: &Entry, f: fn(&R, &R) -> CmpObs, inp: Option<&Value>) {
    let fam = e.t.name.clone();
    let vals: Vec<R> = match inp {
        Some(v) => v["inputs"].as_array().unwrap().iter().map(r_parse).collect(),
        None => {
            let n = cx.args.budget(30, 70, 5);
            let u = cx.uni(&e.t.shape, n);
            e.vals_t(&u)
        }
    };
    let n = vals.len();
    let site = e.t.ctor;
    let mut le = vec![vec![false; n]; n];
    let mut lt = vec![vec![false; n]; n];
    let mut gt = vec![vec![false; n]; n];
    let mut eq = vec![vec![false; n]; n];
    let case3 = |is: &[usize]| e.case(json!({"inputs": is.iter().map(|&i| r_json(&vals[i])).collect::<Vec<_>>()}));
    for i in 0..n {
        for j in 0..n {
            let o = f(&vals[i], &vals[j]);
            match (o.ops, o.eq) {
                (Ok((a, b, _, c, _)), Ok(d)) => {
                    le[i][j] = a;
                    lt[i][j] = b;
                    gt[i][j] = c;
                    eq[i][j] = d;
                }
                (Err(p), _) | (_, Err(p)) => {
                    cx.rep.violation(&format!("C03|{site}::cmp-operators|panic|laws"), &format!("{fam}: {p}"), case3(&[i, j]));
                }
            }
        }
    }
    for i in 0..n {
        cx.rep.eval();
        if !le[i][i] || !eq[i][i] {
            cx.rep.violation(&format!("C03|{site}|not-reflexive"), &format!("{fam}: x <= x is {}, x == x is {}", le[i][i], eq[i][i]), case3(&[i]));
        }
        for j in 0..n {
            cx.rep.eval();
            if le[i][j] && le[j][i] && !eq[i][j] {
                cx.rep.violation(&format!("C03|{site}|not-antisymmetric"), &format!("{fam}: a <= b and b <= a but a != b"), case3(&[i, j]));
            }
            if lt[i][j] != gt[j][i] {
                cx.rep.violation(&format!("C03|{site}|not-dual"), &format!("{fam}: (a < b) = {} but (b > a) = {}", lt[i][j], gt[j][i]), case3(&[i, j]));
            }
            if eq[i][j] != eq[j][i] {
                cx.rep.violation(&format!("C03|{site}|eq-not-symmetric"), &fam, case3(&[i, j]));
            }
            for k in 0..n {
                cx.rep.eval();
                if le[i][j] && le[j][k] && !le[i][k] {
                    cx.rep.violation(&format!("C03|{site}|not-transitive"), &format!("{fam}: a <= b, b <= c but not a <= c"), case3(&[i, j, k]));
                }
                if eq[i][j] && eq[j][k] && !eq[i][k] {
                    cx.rep.violation(&format!("C03|{site}|eq-not-transitive"), &fam, case3(&[i, j, k]));
                }
                if lt[i][j] && lt[j][k] {
                    cx.rep.nontrivial(hash_of(&("c03t", &fam, &vals[i], &vals[j], &vals[k])));
                }
            }
        }
    }
    cx.rep.count("c03_law_families");
}

type UnaryFn = fn(&R) -> (P<bool>, P<bool>);

fn c03u_case(cx: &mut Ctx, e: &Entry, f: UnaryFn, rx: &R) {
    let fam = &e.t.name;
    let ctor = e.t.ctor;
    let case = || e.case(json!({"x": r_json(rx)}));
    let m = norm(rx);
    let class = class_of(&[rx]);
    let (ob, ot) = f(rx);
    cx.rep.eval();
    match ob {
        Err(p) => cx.rep.violation(&format!("C03|{ctor}::is_bot|panic|{class}"), &format!("{fam}: {p}"), case()),
        Ok(b) => {
            if b != m.is_bot() {
                let kind = if b { "true-on-non-bottom" } else { "false-on-bottom" };
                cx.rep.violation(&format!("C03|{ctor}::is_bot|{kind}|{class}"), &format!("{fam}: is_bot = {b} for {m:?}"), case());
            }
            if m.is_bot() {
                cx.rep.count("c03_bottoms_seen");
            }
        }
    }
    cx.rep.eval();
    match ot {
        Err(p) => cx.rep.violation(&format!("C03|{ctor}::is_top|panic|{class}"), &format!("{fam}: {p}"), case()),
        Ok(t) => {
            if t != m.is_greatest() {
                // Attribute to WithTop only if the answer is exactly what results from treating
                // WithTop(Some(inner top)) as the top; everything else is blamed on the root type.
                let (site, kind, cls) = if t && has_withtop_some_top(rx) && m.is_greatest_collapsing_withtop() {
                    ("WithTop", "true-on-non-greatest", "some-inner-top")
                } else {
                    (ctor, if t { "true-on-non-greatest" } else { "false-on-greatest" }, class)
                };
                cx.rep.violation(
                    &format!("C03|{site}::is_top|{kind}|{cls}"),
                    &format!("{fam}: is_top = {t} for {m:?}, which {} the greatest element of the documented lattice", if m.is_greatest() { "is" } else { "is not" }),
                    case(),
                );
            }
            if m.is_greatest() {
                cx.rep.count("c03_tops_seen");
            }
        }
    }
}

fn c03u(cx: &mut Ctx, e: &Entry, f: UnaryFn, inp: Option<&Value>) {
    if let Some(v) = inp {
        c03u_case(cx, e, f, &get_r(v, "x"));
        return;
    }
    let u = cx.uni(&e.t.shape, cx.args.budget(200, 400, 6));
    let fam = e.t.name.clone();
    let mut saw_bottom = false;
    for r in e.vals_t(&u) {
        c03u_case(cx, e, f, &r);
        cx.rep.nontrivial(hash_of(&("c03u", &fam, &r)));
        saw_bottom |= norm(&r).is_bot();
    }
    if saw_bottom && degenerate_repr(&fam) {
        cx.rep.count("c03_degenerate_bottom_representations");
    }
    cx.rep.count("c03_isbot_istop_families");
}

fn c03d(cx: &mut Ctx, e: &Entry, f: fn() -> P<(bool, R)>) {
    let fam = &e.t.name;
    let ctor = e.t.ctor;
    let case = || e.case(json!({}));
    cx.rep.eval();
    match f() {
        Err(p) => cx.rep.violation(&format!("C03|{ctor}::default|panic"), &format!("{fam}: {p}"), case()),
        Ok((b, r)) => {
            let m = norm(&r);
            if !m.is_bot() {
                cx.rep.violation(&format!("C03|{ctor}::default|not-bottom(model)"), &format!("{fam}: default reveals {r:?}"), case());
            }
            if !b {
                cx.rep.violation(&format!("C03|{ctor}::default|is_bot-false"), fam, case());
            }
        }
    }
    cx.rep.count("c03_default_families");
}

// =============================================================================================
// C06

type AtomFn = fn(&R) -> P<(bool, Vec<(bool, R)>, R)>;

fn c06_case(cx: &mut Ctx, e: &Entry, f: AtomFn, rx: &R) {
    let fam = &e.t.name;
    let case = || e.case(json!({"x": r_json(rx)}));
    let m = norm(rx);
    let class = class_of(&[rx]);
    let site = format!("{}::atomize", e.t.ctor);
    cx.rep.eval();
    match f(rx) {
        Err(p) => cx.rep.violation(&format!("C06|{site}|panic|{class}"), &format!("{fam}: {p}"), case()),
        Ok((is_bot, infos, re)) => {
            for (ab, ar) in &infos {
                let am = norm(ar);
                if *ab || am.is_bot() {
                    cx.rep.violation(
                        &format!("C06|{site}|bottom-atom|{class}"),
                        &format!("{fam}: atom {ar:?} is bottom (is_bot()={ab}, model bottom={})", am.is_bot()),
                        case(),
                    );
                    break;
                }
            }
            if infos.is_empty() != m.is_bot() {
                let kind = if infos.is_empty() { "no-atoms-for-non-bottom" } else { "atoms-for-bottom" };
                cx.rep.violation(&format!("C06|{site}|{kind}|{class}"), &format!("{fam}: {} atoms for {m:?}", infos.len()), case());
            }
            if infos.is_empty() != is_bot {
                cx.rep.violation(
                    &format!("C06|{site}|empty-iff-is_bot-broken|{class}"),
                    &format!("{fam}: {} atoms but is_bot() = {is_bot}", infos.len()),
                    case(),
                );
            }
            let rem = norm(&re);
            if rem != m {
                cx.rep.violation(
                    &format!("C06|{site}|atoms-do-not-reform|{class}"),
                    &format!("{fam}: merging the {} atoms into Default gives {re:?}, original is {m:?}", infos.len()),
                    case(),
                );
            }
            cx.rep.count_n("c06_atoms_total", infos.len() as u64);
            if infos.len() >= 2 {
                cx.rep.nontrivial(hash_of(&("c06", fam, rx)));
                cx.rep.sample(|| json!({"family": fam, "x": r_json(rx), "atoms": infos.iter().map(|(_, r)| r_json(r)).collect::<Vec<_>>()}));
            }
            if infos.is_empty() {
                cx.rep.count("c06_bottom_values");
            }
        }
    }
}

fn c06(cx: &mut Ctx, e: &Entry, f: AtomFn, inp: Option<&Value>) {
    if let Some(v) = inp {
        c06_case(cx, e, f, &get_r(v, "x"));
        return;
    }
    // every value list the other properties use, plus a large one
    let mut seen: std::collections::BTreeSet<R> = std::collections::BTreeSet::new();
    let sizes = [cx.args.budget(36, 80, 5), cx.args.budget(200, 400, 6), cx.args.budget(4000, 20_000, 8)];
    for n in sizes {
        let u = cx.uni(&e.t.shape, n);
        for r in e.vals_t(&u) {
            if seen.insert(r.clone()) {
                c06_case(cx, e, f, &r);
                if has_withtop_some_top(&r) {
                    cx.rep.count("c06_values_with_withtop_some_inner_top");
                }
            }
        }
    }
    cx.rep.count("c06_families");
    if e.t.name.contains("<()>") {
        cx.rep.count("c06_one_point_inner_families");
    }
    cx.rep.count(&format!("c06_family:{}", e.t.name));
}
