//! Generic oracle checks for C01, C02, C03, C06 (C04 lives in `hist.rs` / `uf.rs`). Every check has
//! a `*_case` function that judges one explicit case; the universe drivers and `--replay` both go
//! through it.

use std::cmp::Ordering;
use std::collections::HashMap;
use std::rc::Rc;

use lattices::{Atomize, IsBot, IsTop, Merge, NaiveLatticeOrd};
use vcommon::{Args, Reporter, Rng, Tier, Value, catch, hash_of, json};

use crate::lat::Lat;
use crate::model::{Cmp, M, R, Sh, has_hidden_bottom, has_withtop_some_top, norm, r_json, r_parse};
use crate::universe::{Universe, universe};

pub struct Ctx {
    pub rep: Reporter,
    pub args: Args,
    cache: HashMap<(Sh, usize), Rc<Universe>>,
    pub families_exhaustive: u64,
    pub families_sampled: u64,
}

impl Ctx {
    pub fn new(prop: &str, args: Args) -> Ctx {
        Ctx { rep: Reporter::new(prop, args.seed), args, cache: HashMap::new(), families_exhaustive: 0, families_sampled: 0 }
    }
    /// The universe of a shape is a function of (seed, shape, n) only, so every representation of a
    /// family sees the same raw terms.
    pub fn uni(&mut self, sh: &Sh, n: usize) -> Rc<Universe> {
        if let Some(u) = self.cache.get(&(sh.clone(), n)) {
            return u.clone();
        }
        let mut rng = Rng::new(self.args.seed).fork(hash_of(&(sh, n)));
        let u = Rc::new(universe(sh, n, &mut rng));
        if u.exhaustive {
            self.families_exhaustive += 1;
        } else {
            self.families_sampled += 1;
        }
        self.cache.insert((sh.clone(), n), u.clone());
        u
    }
    pub fn rng_for(&self, salt: &str) -> Rng {
        Rng::new(self.args.seed).fork(hash_of(salt))
    }
    pub fn miri(&self) -> bool {
        self.args.tier == Tier::Miri
    }
}

pub fn built<T: Lat>(u: &Universe) -> Vec<(R, T)> {
    u.vals.iter().filter_map(|r| T::build(r).map(|t| (r.clone(), t))).collect()
}

/// A value to hand to the code under test: a clone, or (for representations that mutate on reads) a
/// fresh build from the raw term.
pub fn fresh<T: Lat>(r: &R, t: &T) -> T {
    if T::INTERIOR { T::build(r).expect("rebuild") } else { t.clone() }
}

fn class_of(rs: &[&R]) -> &'static str {
    if rs.iter().any(|r| has_hidden_bottom(r)) { "hidden-bottom" } else { "plain" }
}

fn ord_name(o: Option<Ordering>) -> &'static str {
    match o {
        Some(Ordering::Less) => "Less",
        Some(Ordering::Equal) => "Equal",
        Some(Ordering::Greater) => "Greater",
        None => "None",
    }
}

fn get_r(v: &Value, k: &str) -> R {
    r_parse(v.get(k).unwrap_or_else(|| panic!("replay case lacks '{k}'")))
}

// =============================================================================================
// C01

fn c01_json<T: Lat>(law: &str, rs: &[&R]) -> Value {
    json!({"engine":"mon_lattices","check":"c01","family":T::name(),"law":law,
           "inputs": rs.iter().map(|r| r_json(r)).collect::<Vec<_>>()})
}

/// Outcome of one law instance: Ok(true) held, Ok(false) failed (already reported unless `strict`
/// is false), Err = undefined (Point).
fn c01_law<T>(cx: &mut Ctx, law: &'static str, rs: &[&R], strict: bool) -> bool
where
    T: Lat + Merge<T> + PartialEq,
{
    let b = |i: usize| T::build(rs[i]).expect("c01 build");
    let site = format!("{}::merge", T::ctor());
    let r = catch(|| match law {
        "idempotent" => (Merge::merge_owned(b(0), b(0)), b(0)),
        "commutative" => (Merge::merge_owned(b(0), b(1)), Merge::merge_owned(b(1), b(0))),
        "associative" => (
            Merge::merge_owned(Merge::merge_owned(b(0), b(1)), b(2)),
            Merge::merge_owned(b(0), Merge::merge_owned(b(1), b(2))),
        ),
        _ => unreachable!(),
    });
    cx.rep.eval();
    let class = class_of(rs);
    match r {
        Err(p) => {
            if strict {
                cx.rep.violation(&format!("C01|{site}|panic|{law}|{class}"), &format!("{}: merge panicked: {p}", T::name()), c01_json::<T>(law, rs));
            }
            false
        }
        Ok((l, rr)) => {
            let (ml, mr) = (l.model(), rr.model());
            let mut ok = true;
            if ml != mr {
                ok = false;
                if strict {
                    cx.rep.violation(
                        &format!("C01|{site}|not-{law}(model)|{class}"),
                        &format!("{}: the two sides reveal different lattice values: {:?} vs {:?}", T::name(), l.reveal(), rr.reveal()),
                        c01_json::<T>(law, rs),
                    );
                }
            }
            match catch(|| l == rr) {
                Ok(true) => {}
                Ok(false) => {
                    ok = false;
                    if strict {
                        cx.rep.violation(
                            &format!("C01|{site}|not-{law}(crate-eq)|{class}"),
                            &format!("{}: the crate's == says the two sides differ: {:?} vs {:?}", T::name(), l.reveal(), rr.reveal()),
                            c01_json::<T>(law, rs),
                        );
                    }
                }
                Err(p) => {
                    ok = false;
                    if strict {
                        cx.rep.violation(&format!("C01|{}::eq|panic|{class}", T::ctor()), &format!("{}: == panicked: {p}", T::name()), c01_json::<T>(law, rs));
                    }
                }
            }
            ok
        }
    }
}

fn c01_driver<T>(cx: &mut Ctx, inp: Option<&Value>, strict: bool)
where
    T: Lat + Merge<T> + PartialEq,
{
    if let Some(v) = inp {
        let rs: Vec<R> = v["inputs"].as_array().unwrap().iter().map(r_parse).collect();
        let refs: Vec<&R> = rs.iter().collect();
        let law: &'static str = match v["law"].as_str().unwrap() {
            "idempotent" => "idempotent",
            "commutative" => "commutative",
            _ => "associative",
        };
        let ok = c01_law::<T>(cx, law, &refs, true);
        eprintln!("replay c01 {} {law}: {}", T::name(), if ok { "held" } else { "FAILED" });
        return;
    }
    let n = cx.args.budget(26, 60, 5);
    let u = cx.uni(&T::shape(), n);
    let vals: Vec<R> = u.vals.iter().filter(|r| T::build(r).is_some()).cloned().collect();
    let models: Vec<M> = vals.iter().map(norm).collect();
    let fam = T::name();
    let mut fails = 0u64;
    for x in &vals {
        if !c01_law::<T>(cx, "idempotent", &[x], strict) {
            fails += 1;
        }
    }
    for x in &vals {
        for y in &vals {
            if !c01_law::<T>(cx, "commutative", &[x, y], strict) {
                fails += 1;
            }
        }
    }
    let mut triple = |cx: &mut Ctx, i: usize, j: usize, k: usize| {
        let (x, y, z) = (&vals[i], &vals[j], &vals[k]);
        if !c01_law::<T>(cx, "associative", &[x, y, z], strict) {
            fails += 1;
        }
        let (mi, mj, mk) = (&models[i], &models[j], &models[k]);
        if mi != mj && mj != mk && mi != mk && !mi.is_bot() && !mj.is_bot() && !mk.is_bot() {
            cx.rep.nontrivial(hash_of(&("c01", &fam, x, y, z)));
            cx.rep.sample(|| json!({"family": fam, "x": r_json(x), "y": r_json(y), "z": r_json(z), "law": "associative", "held": true}));
        }
    };
    for i in 0..vals.len() {
        for j in 0..vals.len() {
            for k in 0..vals.len() {
                triple(cx, i, j, k);
            }
        }
    }
    // extra random triples over a larger list (values beyond the cube above)
    let big = cx.uni(&T::shape(), cx.args.budget(120, 400, 6));
    let bvals: Vec<R> = big.vals.iter().filter(|r| T::build(r).is_some()).cloned().collect();
    let mut rng = cx.rng_for(&format!("c01/{fam}"));
    for _ in 0..cx.args.budget(1500, 40_000, 10) {
        let (x, y, z) = (rng.choose(&bvals), rng.choose(&bvals), rng.choose(&bvals));
        if !c01_law::<T>(cx, "associative", &[x, y, z], strict) {
            fails += 1;
        }
        if !c01_law::<T>(cx, "commutative", &[x, y], strict) {
            fails += 1;
        }
        let (mi, mj, mk) = (norm(x), norm(y), norm(z));
        if mi != mj && mj != mk && mi != mk && !mi.is_bot() && !mj.is_bot() && !mk.is_bot() {
            cx.rep.nontrivial(hash_of(&("c01", &fam, x, y, z)));
        }
    }
    cx.rep.count(&format!("c01_family:{fam}"));
    cx.rep.count("c01_families");
    if !strict {
        cx.rep.count_n(&format!("recorded_only_law_failures:{fam}"), fails);
    }
}

pub fn c01<T>(cx: &mut Ctx, inp: Option<&Value>)
where
    T: Lat + Merge<T> + PartialEq,
{
    c01_driver::<T>(cx, inp, true)
}

/// `DomPair` over a partially ordered key: documented not to be a lattice; failures are counted, not
/// reported.
pub fn c01_record<T>(cx: &mut Ctx, inp: Option<&Value>)
where
    T: Lat + Merge<T> + PartialEq,
{
    c01_driver::<T>(cx, inp, false)
}

/// Heterogeneous operands: merging two other-representation values into `x` must not depend on
/// their order, and repeating one must not change the result.
pub fn c01h_case<T, O>(cx: &mut Ctx, rx: &R, r1: &R, r2: &R)
where
    T: Lat + Merge<O>,
    O: Lat,
{
    let site = format!("{}::merge", T::ctor());
    let case = || {
        json!({"engine":"mon_lattices","check":"c01h","family":format!("{}|{}", T::name(), O::name()),
               "x": r_json(rx), "o1": r_json(r1), "o2": r_json(r2)})
    };
    let b = |r: &R| O::build(r).expect("c01h build");
    let r = catch(|| {
        let x12 = Merge::merge_owned(Merge::merge_owned(T::build(rx).unwrap(), b(r1)), b(r2));
        let x21 = Merge::merge_owned(Merge::merge_owned(T::build(rx).unwrap(), b(r2)), b(r1));
        let x121 = Merge::merge_owned(Merge::merge_owned(Merge::merge_owned(T::build(rx).unwrap(), b(r1)), b(r2)), b(r1));
        (x12.model(), x21.model(), x121.model())
    });
    cx.rep.eval();
    let class = class_of(&[rx, r1, r2]);
    match r {
        Err(p) => cx.rep.violation(&format!("C01|{site}|panic|hetero|{class}"), &format!("{} <- {}: {p}", T::name(), O::name()), case()),
        Ok((a, b2, c)) => {
            if a != b2 {
                cx.rep.violation(
                    &format!("C01|{site}|order-dependent(model)|hetero|{class}"),
                    &format!("{} <- {}: (x+o1)+o2 = {a:?} but (x+o2)+o1 = {b2:?}", T::name(), O::name()),
                    case(),
                );
            }
            if a != c {
                cx.rep.violation(
                    &format!("C01|{site}|not-idempotent(model)|hetero|{class}"),
                    &format!("{} <- {}: merging o1 again changed the value: {a:?} -> {c:?}", T::name(), O::name()),
                    case(),
                );
            }
        }
    }
}

pub fn c01h<T, O>(cx: &mut Ctx, inp: Option<&Value>)
where
    T: Lat + Merge<O>,
    O: Lat,
{
    if let Some(v) = inp {
        c01h_case::<T, O>(cx, &get_r(v, "x"), &get_r(v, "o1"), &get_r(v, "o2"));
        return;
    }
    let u = cx.uni(&T::shape(), cx.args.budget(120, 400, 6));
    let xs: Vec<R> = u.vals.iter().filter(|r| T::build(r).is_some()).cloned().collect();
    let os: Vec<R> = u.vals.iter().filter(|r| O::build(r).is_some()).cloned().collect();
    if os.is_empty() {
        cx.rep.count("c01h_no_buildable_other");
        return;
    }
    let fam = format!("{}|{}", T::name(), O::name());
    let mut rng = cx.rng_for(&format!("c01h/{fam}"));
    for _ in 0..cx.args.budget(400, 8000, 5) {
        let (x, o1, o2) = (rng.choose(&xs), rng.choose(&os), rng.choose(&os));
        c01h_case::<T, O>(cx, x, o1, o2);
        let (mx, m1, m2) = (norm(x), norm(o1), norm(o2));
        if m1 != m2 && !m1.is_bot() && !m2.is_bot() && mx != m1 && mx != m2 {
            cx.rep.nontrivial(hash_of(&("c01h", &fam, x, o1, o2)));
        }
    }
    cx.rep.count("c01h_pairs_of_representations");
}

/// `Point`: merging equal values returns false and keeps the value; merging unequal values must
/// panic, never silently succeed. (C01 + C02 + C03 parts for the one-point lattice.)
pub fn point_check(cx: &mut Ctx, prop: &str, inp: Option<&Value>) {
    use lattices::Point;
    type P = Point<u8, ()>;
    let vals: Vec<u8> = match inp {
        Some(v) => vec![v["a"].as_u64().unwrap() as u8, v["b"].as_u64().unwrap() as u8],
        None => (0..6).collect(),
    };
    let pairs: Vec<(u8, u8)> = match inp {
        Some(_) => vec![(vals[0], vals[1])],
        None => vals.iter().flat_map(|&a| vals.iter().map(move |&b| (a, b))).collect(),
    };
    for (a, b) in pairs {
        let case = || json!({"engine":"mon_lattices","check":"point","family":"Point<u8>","a":a,"b":b});
        cx.rep.eval();
        let r = catch(|| {
            let mut x = P::new(a);
            let f = x.merge(P::new(b));
            (f, x.val)
        });
        match (a == b, r) {
            (true, Ok((f, v))) => {
                if f {
                    cx.rep.violation(&format!("{prop}|Point::merge|flag-true-on-equal"), "merging equal points returned true", case());
                }
                if v != a {
                    cx.rep.violation(&format!("{prop}|Point::merge|value-changed-on-equal"), &format!("value became {v}"), case());
                }
            }
            (true, Err(p)) => cx.rep.violation(&format!("{prop}|Point::merge|panic-on-equal"), &p, case()),
            (false, Ok((f, v))) => cx.rep.violation(
                &format!("{prop}|Point::merge|no-panic-on-unequal"),
                &format!("merging unequal points silently succeeded (flag {f}, value {v})"),
                case(),
            ),
            (false, Err(_)) => {
                cx.rep.count("point_unequal_merge_panicked_as_documented");
                cx.rep.nontrivial(hash_of(&("point", a, b)));
            }
        }
        if prop == "C03" {
            cx.rep.eval();
            match catch(|| P::new(a) == P::new(b)) {
                Ok(e) if e == (a == b) => {}
                Ok(e) => cx.rep.violation("C03|Point::eq|wrong-answer", &format!("{a} == {b} gave {e}"), case()),
                Err(p) => cx.rep.violation("C03|Point::eq|panic", &p, case()),
            }
            if a == b {
                match catch(|| P::new(a).partial_cmp(&P::new(b))) {
                    Ok(Some(Ordering::Equal)) => {}
                    Ok(o) => cx.rep.violation("C03|Point::partial_cmp|wrong-answer-on-equal", ord_name(o), case()),
                    Err(p) => cx.rep.violation("C03|Point::partial_cmp|panic-on-equal", &p, case()),
                }
                let p = P::new(a);
                if !(p.is_bot() && p.is_top()) {
                    cx.rep.violation("C03|Point::is_bot/is_top|one-point-lattice-not-both", "", case());
                }
            }
        }
    }
    cx.rep.count("point_checked");
}

// =============================================================================================
// C02

pub fn c02_case<T, O>(cx: &mut Ctx, ra: &R, rb: &R)
where
    T: Lat + Merge<O>,
    O: Lat,
{
    let site = format!("{}::merge", T::ctor());
    let fam = format!("{}|{}", T::name(), O::name());
    let case = || json!({"engine":"mon_lattices","check":"c02","family":fam,"a":r_json(ra),"b":r_json(rb)});
    let before = norm(ra);
    let mb = norm(rb);
    let expected = before.join(&mb);
    let r = catch(|| {
        let mut a = T::build(ra).expect("c02 build a");
        let b = O::build(rb).expect("c02 build b");
        let flag = a.merge(b);
        (flag, a)
    });
    cx.rep.eval();
    let class = class_of(&[ra, rb]);
    let hetero = if T::name() == O::name() { "same-repr" } else { "cross-repr" };
    match (r, expected) {
        (Err(_), None) => cx.rep.count("c02_undefined_join_panicked_as_documented"),
        (Ok(_), None) => cx.rep.violation(&format!("C02|{site}|no-panic-on-undefined-join"), &format!("{fam}: merge of unequal points returned"), case()),
        (Err(p), Some(_)) => cx.rep.violation(&format!("C02|{site}|panic|{hetero}|{class}"), &format!("{fam}: {p}"), case()),
        (Ok((flag, a)), Some(exp)) => {
            let after = a.model();
            if after != exp {
                cx.rep.violation(
                    &format!("C02|{site}|wrong-result|{hetero}|{class}"),
                    &format!("{fam}: after merge the receiver reveals {:?}; model join is {exp:?}", a.reveal()),
                    case(),
                );
            }
            let changed = after != before;
            if flag != changed {
                let kind = if flag { "flag-true-but-unchanged" } else { "flag-false-but-changed" };
                cx.rep.violation(
                    &format!("C02|{site}|{kind}|{hetero}|{class}"),
                    &format!("{fam}: merge returned {flag}; before {before:?}, after {after:?}"),
                    case(),
                );
            }
            if !flag && !mb.leq(&before) {
                cx.rep.violation(
                    &format!("C02|{site}|flag-false-but-other-not-below|{hetero}|{class}"),
                    &format!("{fam}: merge returned false although other {mb:?} is not <= receiver {before:?}"),
                    case(),
                );
            }
            if flag {
                cx.rep.count("c02_flag_true");
            } else {
                cx.rep.count("c02_flag_false");
            }
        }
    }
}

pub fn c02<T, O>(cx: &mut Ctx, inp: Option<&Value>)
where
    T: Lat + Merge<O>,
    O: Lat,
{
    if let Some(v) = inp {
        c02_case::<T, O>(cx, &get_r(v, "a"), &get_r(v, "b"));
        return;
    }
    assert_eq!(T::shape(), O::shape(), "table error: {} vs {}", T::name(), O::name());
    let u = cx.uni(&T::shape(), cx.args.budget(120, 400, 6));
    let xs: Vec<R> = u.vals.iter().filter(|r| T::build(r).is_some()).cloned().collect();
    let os: Vec<R> = u.vals.iter().filter(|r| O::build(r).is_some()).cloned().collect();
    let fam = format!("{}|{}", T::name(), O::name());
    if os.is_empty() {
        cx.rep.count("c02_no_buildable_other");
        return;
    }
    // all pairs if that fits the budget, else a seeded sample
    let cap = cx.args.budget(6000, 160_000, 30);
    let total = xs.len() * os.len();
    let mut rng = cx.rng_for(&format!("c02/{fam}"));
    let mut run = |cx: &mut Ctx, a: &R, b: &R| {
        c02_case::<T, O>(cx, a, b);
        let (ma, mb) = (norm(a), norm(b));
        if !ma.is_bot() && !mb.is_bot() && ma != mb {
            cx.rep.nontrivial(hash_of(&("c02", &fam, a, b)));
            cx.rep.sample(|| json!({"family": fam, "a": r_json(a), "b": r_json(b), "model_join": format!("{:?}", ma.join(&mb))}));
        }
    };
    if total <= cap {
        for a in &xs {
            for b in &os {
                run(cx, a, b);
            }
        }
    } else {
        for _ in 0..cap {
            let (a, b) = (rng.choose(&xs), rng.choose(&os));
            run(cx, a, b);
        }
    }
    cx.rep.count("c02_pairs_of_representations");
    if T::name() != O::name() {
        cx.rep.count("c02_cross_representation_pairs");
    }
}

// =============================================================================================
// C03

pub fn c03_case<T, O>(cx: &mut Ctx, ra: &R, rb: &R)
where
    T: Lat + PartialOrd<O> + PartialEq<O>,
    O: Lat,
{
    let fam = format!("{}|{}", T::name(), O::name());
    let case = || json!({"engine":"mon_lattices","check":"c03","family":fam,"a":r_json(ra),"b":r_json(rb)});
    let (ma, mb) = (norm(ra), norm(rb));
    let c = ma.cmp_m(&mb);
    let class = class_of(&[ra, rb]);
    let hetero = if T::name() == O::name() { "same-repr" } else { "cross-repr" };
    let mk = || (T::build(ra).expect("c03 build a"), O::build(rb).expect("c03 build b"));
    cx.rep.eval();
    match catch(|| {
        let (a, b) = mk();
        a.partial_cmp(&b)
    }) {
        Err(p) => cx.rep.violation(&format!("C03|{}::partial_cmp|panic|{hetero}|{class}", T::ctor()), &format!("{fam}: {p}"), case()),
        Ok(got) => {
            if got != c.as_ordering() {
                cx.rep.violation(
                    &format!("C03|{}::partial_cmp|{}-expected-{}|{hetero}|{class}", T::ctor(), ord_name(got), ord_name(c.as_ordering())),
                    &format!("{fam}: partial_cmp gave {got:?}, the model order says {c:?} ({ma:?} vs {mb:?})"),
                    case(),
                );
            }
        }
    }
    cx.rep.eval();
    match catch(|| {
        let (a, b) = mk();
        a == b
    }) {
        Err(p) => cx.rep.violation(&format!("C03|{}::eq|panic|{hetero}|{class}", T::ctor()), &format!("{fam}: {p}"), case()),
        Ok(got) => {
            if got != (c == Cmp::Equal) {
                cx.rep.violation(
                    &format!("C03|{}::eq|{}-expected-{}|{hetero}|{class}", T::ctor(), got, c == Cmp::Equal),
                    &format!("{fam}: == gave {got}, models {ma:?} vs {mb:?}"),
                    case(),
                );
            }
        }
    }
    // the operator forms
    cx.rep.eval();
    match catch(|| {
        let (a, b) = mk();
        let r1 = (a <= b, a < b);
        let (a, b) = if T::INTERIOR { mk() } else { (a, b) };
        let r2 = (a >= b, a > b, a != b);
        (r1.0, r1.1, r2.0, r2.1, r2.2)
    }) {
        Err(p) => cx.rep.violation(&format!("C03|{}::cmp-operators|panic|{hetero}|{class}", T::ctor()), &format!("{fam}: {p}"), case()),
        Ok((le, lt, ge, gt, ne)) => {
            let exp = (
                matches!(c, Cmp::Less | Cmp::Equal),
                c == Cmp::Less,
                matches!(c, Cmp::Greater | Cmp::Equal),
                c == Cmp::Greater,
                c != Cmp::Equal,
            );
            if (le, lt, ge, gt, ne) != exp {
                cx.rep.violation(
                    &format!("C03|{}::cmp-operators|wrong-answer|{hetero}|{class}", T::ctor()),
                    &format!("{fam}: (<=,<,>=,>,!=) = {:?}, model order {c:?} demands {exp:?}", (le, lt, ge, gt, ne)),
                    case(),
                );
            }
        }
    }
}

pub fn c03<T, O>(cx: &mut Ctx, inp: Option<&Value>)
where
    T: Lat + PartialOrd<O> + PartialEq<O>,
    O: Lat,
{
    if let Some(v) = inp {
        c03_case::<T, O>(cx, &get_r(v, "a"), &get_r(v, "b"));
        return;
    }
    assert_eq!(T::shape(), O::shape(), "table error: {} vs {}", T::name(), O::name());
    let u = cx.uni(&T::shape(), cx.args.budget(120, 400, 6));
    let xs: Vec<R> = u.vals.iter().filter(|r| T::build(r).is_some()).cloned().collect();
    let os: Vec<R> = u.vals.iter().filter(|r| O::build(r).is_some()).cloned().collect();
    let fam = format!("{}|{}", T::name(), O::name());
    if os.is_empty() || xs.is_empty() {
        cx.rep.count("c03_no_buildable_operand");
        return;
    }
    let cap = cx.args.budget(4000, 160_000, 30);
    let total = xs.len() * os.len();
    let mut rng = cx.rng_for(&format!("c03/{fam}"));
    let mut run = |cx: &mut Ctx, a: &R, b: &R| {
        c03_case::<T, O>(cx, a, b);
        let (ma, mb) = (norm(a), norm(b));
        if !ma.is_bot() && !mb.is_bot() && ma != mb {
            cx.rep.nontrivial(hash_of(&("c03", &fam, a, b)));
            cx.rep.sample(|| json!({"family": fam, "a": r_json(a), "b": r_json(b), "model_order": format!("{:?}", ma.cmp_m(&mb))}));
        }
        match ma.cmp_m(&mb) {
            Cmp::Incomparable => cx.rep.count("c03_incomparable_pairs"),
            Cmp::Equal => cx.rep.count("c03_equal_pairs"),
            _ => cx.rep.count("c03_ordered_pairs"),
        }
    };
    if total <= cap {
        for a in &xs {
            for b in &os {
                run(cx, a, b);
            }
        }
    } else {
        for _ in 0..cap {
            let (a, b) = (rng.choose(&xs), rng.choose(&os));
            run(cx, a, b);
        }
    }
    cx.rep.count("c03_pairs_of_representations");
    if T::name() != O::name() {
        cx.rep.count("c03_cross_representation_pairs");
    }
}

/// `naive_cmp` (derived from the merge flags) against `partial_cmp` and against the model order.
pub fn c03n_case<T, O>(cx: &mut Ctx, ra: &R, rb: &R)
where
    T: Lat + Merge<O> + PartialOrd<O>,
    O: Lat + Merge<T>,
{
    let fam = format!("{}|{}", T::name(), O::name());
    let case = || json!({"engine":"mon_lattices","check":"c03n","family":fam,"a":r_json(ra),"b":r_json(rb)});
    let (ma, mb) = (norm(ra), norm(rb));
    if ma.join(&mb).is_none() {
        return; // Point of unequal values: documented panic
    }
    let class = class_of(&[ra, rb]);
    cx.rep.eval();
    match catch(|| {
        let a = T::build(ra).unwrap();
        let b = O::build(rb).unwrap();
        let n = a.naive_cmp(&b);
        let (a, b) = if T::INTERIOR { (T::build(ra).unwrap(), O::build(rb).unwrap()) } else { (a, b) };
        (n, a.partial_cmp(&b))
    }) {
        Err(p) => cx.rep.violation(&format!("C03|{}::naive_cmp|panic|{class}", T::ctor()), &format!("{fam}: {p}"), case()),
        Ok((n, p)) => {
            if n != p {
                cx.rep.violation(
                    &format!("C03|{}::naive_cmp|differs-from-partial_cmp|{class}", T::ctor()),
                    &format!("{fam}: naive_cmp {n:?} vs partial_cmp {p:?}"),
                    case(),
                );
            }
            let c = ma.cmp_m(&mb).as_ordering();
            if n != c {
                cx.rep.violation(
                    &format!("C03|{}::naive_cmp|{}-expected-{}|{class}", T::ctor(), ord_name(n), ord_name(c)),
                    &format!("{fam}: naive_cmp {n:?}, model order {c:?}"),
                    case(),
                );
            }
        }
    }
}

pub fn c03n<T, O>(cx: &mut Ctx, inp: Option<&Value>)
where
    T: Lat + Merge<O> + PartialOrd<O>,
    O: Lat + Merge<T>,
{
    if let Some(v) = inp {
        c03n_case::<T, O>(cx, &get_r(v, "a"), &get_r(v, "b"));
        return;
    }
    let u = cx.uni(&T::shape(), cx.args.budget(60, 200, 5));
    let xs: Vec<R> = u.vals.iter().filter(|r| T::build(r).is_some()).cloned().collect();
    let os: Vec<R> = u.vals.iter().filter(|r| O::build(r).is_some()).cloned().collect();
    let fam = format!("{}|{}", T::name(), O::name());
    for a in &xs {
        for b in &os {
            c03n_case::<T, O>(cx, a, b);
            let (ma, mb) = (norm(a), norm(b));
            if !ma.is_bot() && !mb.is_bot() && ma != mb {
                cx.rep.nontrivial(hash_of(&("c03n", &fam, a, b)));
            }
        }
    }
    cx.rep.count("c03_naive_cmp_pairs_of_representations");
}

/// Partial-order laws on the crate's own answers over triples (reflexive, antisymmetric w.r.t. ==,
/// transitive, dual).
pub fn c03t<T>(cx: &mut Ctx, inp: Option<&Value>)
where
    T: Lat + PartialOrd<T> + PartialEq<T>,
{
    let fam = T::name();
    let vals: Vec<R> = match inp {
        Some(v) => v["inputs"].as_array().unwrap().iter().map(r_parse).collect(),
        None => {
            let n = cx.args.budget(30, 70, 5);
            let u = cx.uni(&T::shape(), n);
            u.vals.iter().filter(|r| T::build(r).is_some()).cloned().collect()
        }
    };
    if T::shape() == Sh::Point {
        return;
    }
    let n = vals.len();
    let site = T::ctor();
    let q = |i: usize, j: usize| {
        catch(|| {
            let a = T::build(&vals[i]).unwrap();
            let b = T::build(&vals[j]).unwrap();
            let le = a <= b;
            let (a, b) = if T::INTERIOR { (T::build(&vals[i]).unwrap(), T::build(&vals[j]).unwrap()) } else { (a, b) };
            let lt = a < b;
            let (a, b) = if T::INTERIOR { (T::build(&vals[i]).unwrap(), T::build(&vals[j]).unwrap()) } else { (a, b) };
            let gt = a > b;
            let (a, b) = if T::INTERIOR { (T::build(&vals[i]).unwrap(), T::build(&vals[j]).unwrap()) } else { (a, b) };
            (le, lt, gt, a == b)
        })
    };
    let mut le = vec![vec![false; n]; n];
    let mut lt = vec![vec![false; n]; n];
    let mut gt = vec![vec![false; n]; n];
    let mut eq = vec![vec![false; n]; n];
    let case3 = |is: &[usize]| json!({"engine":"mon_lattices","check":"c03t","family":fam,"inputs": is.iter().map(|&i| r_json(&vals[i])).collect::<Vec<_>>()});
    for i in 0..n {
        for j in 0..n {
            match q(i, j) {
                Ok((a, b, c, d)) => {
                    le[i][j] = a;
                    lt[i][j] = b;
                    gt[i][j] = c;
                    eq[i][j] = d;
                }
                Err(p) => {
                    cx.rep.violation(&format!("C03|{site}::cmp-operators|panic|laws"), &format!("{fam}: {p}"), case3(&[i, j]));
                }
            }
        }
    }
    for i in 0..n {
        cx.rep.eval();
        if !le[i][i] || !eq[i][i] {
            cx.rep.violation(&format!("C03|{site}|not-reflexive"), &format!("{fam}: x <= x is {}, x == x is {}", le[i][i], eq[i][i]), case3(&[i]));
        }
        for j in 0..n {
            cx.rep.eval();
            if le[i][j] && le[j][i] && !eq[i][j] {
                cx.rep.violation(&format!("C03|{site}|not-antisymmetric"), &format!("{fam}: a <= b and b <= a but a != b"), case3(&[i, j]));
            }
            if lt[i][j] != gt[j][i] {
                cx.rep.violation(&format!("C03|{site}|not-dual"), &format!("{fam}: (a < b) = {} but (b > a) = {}", lt[i][j], gt[j][i]), case3(&[i, j]));
            }
            if eq[i][j] != eq[j][i] {
                cx.rep.violation(&format!("C03|{site}|eq-not-symmetric"), &fam, case3(&[i, j]));
            }
            for k in 0..n {
                cx.rep.eval();
                if le[i][j] && le[j][k] && !le[i][k] {
                    cx.rep.violation(&format!("C03|{site}|not-transitive"), &format!("{fam}: a <= b, b <= c but not a <= c"), case3(&[i, j, k]));
                }
                if eq[i][j] && eq[j][k] && !eq[i][k] {
                    cx.rep.violation(&format!("C03|{site}|eq-not-transitive"), &fam, case3(&[i, j, k]));
                }
                if lt[i][j] && lt[j][k] {
                    cx.rep.nontrivial(hash_of(&("c03t", &fam, &vals[i], &vals[j], &vals[k])));
                }
            }
        }
    }
    cx.rep.count("c03_law_families");
}

/// `is_bot`, `is_top` against the model's least / greatest element.
pub fn c03u_case<T>(cx: &mut Ctx, rx: &R)
where
    T: Lat + IsBot + IsTop,
{
    let fam = T::name();
    let case = || json!({"engine":"mon_lattices","check":"c03u","family":fam,"x":r_json(rx)});
    let m = norm(rx);
    let class = class_of(&[rx]);
    cx.rep.eval();
    match catch(|| T::build(rx).unwrap().is_bot()) {
        Err(p) => cx.rep.violation(&format!("C03|{}::is_bot|panic|{class}", T::ctor()), &format!("{fam}: {p}"), case()),
        Ok(b) => {
            if b != m.is_bot() {
                let kind = if b { "true-on-non-bottom" } else { "false-on-bottom" };
                cx.rep.violation(&format!("C03|{}::is_bot|{kind}|{class}", T::ctor()), &format!("{fam}: is_bot = {b} for {m:?}"), case());
            }
            if m.is_bot() {
                cx.rep.count("c03_bottoms_seen");
            }
        }
    }
    cx.rep.eval();
    match catch(|| T::build(rx).unwrap().is_top()) {
        Err(p) => cx.rep.violation(&format!("C03|{}::is_top|panic|{class}", T::ctor()), &format!("{fam}: {p}"), case()),
        Ok(t) => {
            if t != m.is_greatest() {
                // Attribute to WithTop only if the answer is exactly what results from treating
                // WithTop(Some(inner top)) as the top; everything else is blamed on the root type.
                let (site, kind, cls) = if t && has_withtop_some_top(rx) && m.is_greatest_collapsing_withtop() {
                    ("WithTop".to_string(), "true-on-non-greatest", "some-inner-top")
                } else {
                    (T::ctor().to_string(), if t { "true-on-non-greatest" } else { "false-on-greatest" }, class)
                };
                cx.rep.violation(
                    &format!("C03|{site}::is_top|{kind}|{cls}"),
                    &format!("{fam}: is_top = {t} for {m:?}, which {} the greatest element of the documented lattice", if m.is_greatest() { "is" } else { "is not" }),
                    case(),
                );
            }
            if m.is_greatest() {
                cx.rep.count("c03_tops_seen");
            }
        }
    }
}

pub fn c03u<T>(cx: &mut Ctx, inp: Option<&Value>)
where
    T: Lat + IsBot + IsTop,
{
    if let Some(v) = inp {
        c03u_case::<T>(cx, &get_r(v, "x"));
        return;
    }
    let u = cx.uni(&T::shape(), cx.args.budget(120, 400, 6));
    let fam = T::name();
    for r in u.vals.iter().filter(|r| T::build(r).is_some()) {
        c03u_case::<T>(cx, r);
        cx.rep.nontrivial(hash_of(&("c03u", &fam, r)));
    }
    cx.rep.count("c03_isbot_istop_families");
}

pub fn c03d<T>(cx: &mut Ctx, _inp: Option<&Value>)
where
    T: Lat + IsBot + Default,
{
    let fam = T::name();
    let case = || json!({"engine":"mon_lattices","check":"c03d","family":fam});
    cx.rep.eval();
    match catch(|| {
        let d = T::default();
        (d.is_bot(), d.model())
    }) {
        Err(p) => cx.rep.violation(&format!("C03|{}::default|panic", T::ctor()), &format!("{fam}: {p}"), case()),
        Ok((b, m)) => {
            if !m.is_bot() {
                cx.rep.violation(&format!("C03|{}::default|not-bottom(model)", T::ctor()), &format!("{fam}: default reveals {m:?}"), case());
            }
            if !b {
                cx.rep.violation(&format!("C03|{}::default|is_bot-false", T::ctor()), &fam, case());
            }
        }
    }
    cx.rep.count("c03_default_families");
}

// =============================================================================================
// C06

pub fn c06_case<T>(cx: &mut Ctx, rx: &R)
where
    T: Lat + Atomize + Default + IsBot,
    T::Atom: Lat,
{
    let fam = T::name();
    let case = || json!({"engine":"mon_lattices","check":"c06","family":fam,"x":r_json(rx)});
    let m = norm(rx);
    let class = class_of(&[rx]);
    let site = format!("{}::atomize", T::ctor());
    cx.rep.eval();
    let r = catch(|| {
        let x = T::build(rx).unwrap();
        let is_bot = x.is_bot();
        let atoms: Vec<T::Atom> = x.atomize().collect();
        let infos: Vec<(bool, M, R)> = atoms.iter().map(|a| (a.is_bot(), a.model(), a.reveal())).collect();
        let mut re = T::default();
        for a in atoms {
            re.merge(a);
        }
        (is_bot, infos, re.model())
    });
    match r {
        Err(p) => cx.rep.violation(&format!("C06|{site}|panic|{class}"), &format!("{fam}: {p}"), case()),
        Ok((is_bot, infos, re)) => {
            for (ab, am, ar) in &infos {
                if *ab || am.is_bot() {
                    cx.rep.violation(
                        &format!("C06|{site}|bottom-atom|{class}"),
                        &format!("{fam}: atom {ar:?} is bottom (is_bot()={ab}, model bottom={})", am.is_bot()),
                        case(),
                    );
                    break;
                }
            }
            if infos.is_empty() != m.is_bot() {
                let kind = if infos.is_empty() { "no-atoms-for-non-bottom" } else { "atoms-for-bottom" };
                cx.rep.violation(&format!("C06|{site}|{kind}|{class}"), &format!("{fam}: {} atoms for {m:?}", infos.len()), case());
            }
            if infos.is_empty() != is_bot {
                cx.rep.violation(
                    &format!("C06|{site}|empty-iff-is_bot-broken|{class}"),
                    &format!("{fam}: {} atoms but is_bot() = {is_bot}", infos.len()),
                    case(),
                );
            }
            if re != m {
                cx.rep.violation(
                    &format!("C06|{site}|atoms-do-not-reform|{class}"),
                    &format!("{fam}: merging the {} atoms into Default gives {re:?}, original is {m:?}", infos.len()),
                    case(),
                );
            }
            cx.rep.count_n("c06_atoms_total", infos.len() as u64);
            if infos.len() >= 2 {
                cx.rep.nontrivial(hash_of(&("c06", &fam, rx)));
                cx.rep.sample(|| json!({"family": fam, "x": r_json(rx), "atoms": infos.iter().map(|(_, _, r)| r_json(r)).collect::<Vec<_>>()}));
            }
            if infos.is_empty() {
                cx.rep.count("c06_bottom_values");
            }
        }
    }
}

pub fn c06<T>(cx: &mut Ctx, inp: Option<&Value>)
where
    T: Lat + Atomize + Default + IsBot,
    T::Atom: Lat,
{
    if let Some(v) = inp {
        c06_case::<T>(cx, &get_r(v, "x"));
        return;
    }
    let u = cx.uni(&T::shape(), cx.args.budget(300, 3000, 8));
    for r in u.vals.iter().filter(|r| T::build(r).is_some()) {
        c06_case::<T>(cx, r);
    }
    cx.rep.count("c06_families");
    cx.rep.count(&format!("c06_family:{}", T::name()));
}
