//! C04: histories of merge / union / LatticeFrom applied in lock-step to every self-capable
//! representation of a family, judged against the model state after every step.

use std::rc::Rc;

use lattices::{LatticeFrom, Merge};
use vcommon::{Rng, Value, catch, hash_of, json};

use crate::checks::Ctx;
use crate::lat::Lat;
use crate::model::{M, R, Sh, components, norm, part_same, r_json, r_parse};
use crate::universe::enumerate;

type MergeFn<S> = fn(&mut S, &R) -> Option<Result<bool, String>>;
type ViaFn<S> = fn(&S) -> Option<Result<S, String>>;
type ConvFn<S> = fn(&S) -> Result<Box<dyn Rep>, String>;

pub struct Ops<S> {
    /// (other representation name, can it hold this term, merge it into S, round-trip S through it)
    pub others: Vec<(String, fn(&R) -> bool, MergeFn<S>, ViaFn<S>)>,
    /// (target representation name, Target::lattice_from(self.clone()))
    pub convs: Vec<(String, ConvFn<S>)>,
    pub union: Option<fn(&mut S, u8, u8) -> bool>,
    pub same: Option<fn(&S, u8, u8) -> bool>,
}

pub trait HasOps: Lat {
    fn ops() -> Ops<Self>;
}

pub fn can_build<O: Lat>(r: &R) -> bool {
    O::build(r).is_some()
}
pub fn merge_from<S: Lat + Merge<O>, O: Lat>(s: &mut S, r: &R) -> Option<Result<bool, String>> {
    let o = O::build(r)?;
    Some(catch(|| s.merge(o)))
}
pub fn via<S: Lat + LatticeFrom<O>, O: Lat>(s: &S) -> Option<Result<S, String>> {
    let o = O::build(&s.reveal())?;
    Some(catch(|| S::lattice_from(o)))
}
pub fn conv<S: HasOps, T: HasOps + LatticeFrom<S>>(s: &S) -> Result<Box<dyn Rep>, String> {
    let c = s.clone();
    catch(|| T::lattice_from(c)).map(|v| Box::new(RB { v, ops: Rc::new(T::ops()) }) as Box<dyn Rep>)
}

pub trait Rep {
    fn name(&self) -> String;
    fn ctor(&self) -> &'static str;
    fn reveal(&self) -> R;
    fn merge_from(&mut self, oi: usize, r: &R) -> Option<Result<bool, String>>;
    fn via(&mut self, oi: usize) -> Option<Result<(), String>>;
    fn convert(&self, ti: usize) -> Result<Box<dyn Rep>, String>;
    fn uf_union(&mut self, a: u8, b: u8) -> Option<Result<bool, String>>;
    fn uf_same(&self, a: u8, b: u8) -> Option<Result<bool, String>>;
}

pub struct RB<S: Lat> {
    pub v: S,
    pub ops: Rc<Ops<S>>,
}

impl<S: Lat> Rep for RB<S> {
    fn name(&self) -> String {
        S::name()
    }
    fn ctor(&self) -> &'static str {
        S::ctor()
    }
    fn reveal(&self) -> R {
        self.v.reveal()
    }
    fn merge_from(&mut self, oi: usize, r: &R) -> Option<Result<bool, String>> {
        (self.ops.others[oi].2)(&mut self.v, r)
    }
    fn via(&mut self, oi: usize) -> Option<Result<(), String>> {
        match (self.ops.others[oi].3)(&self.v)? {
            Ok(n) => {
                self.v = n;
                Some(Ok(()))
            }
            Err(p) => Some(Err(p)),
        }
    }
    fn convert(&self, ti: usize) -> Result<Box<dyn Rep>, String> {
        (self.ops.convs[ti].1)(&self.v)
    }
    fn uf_union(&mut self, a: u8, b: u8) -> Option<Result<bool, String>> {
        let f = self.ops.union?;
        let v = &mut self.v;
        Some(catch(|| f(v, a, b)))
    }
    fn uf_same(&self, a: u8, b: u8) -> Option<Result<bool, String>> {
        let f = self.ops.same?;
        Some(catch(|| f(&self.v, a, b)))
    }
}

pub fn mk_rep<S: HasOps>(r: &R) -> Option<Box<dyn Rep>> {
    S::build(r).map(|v| Box::new(RB { v, ops: Rc::new(S::ops()) }) as Box<dyn Rep>)
}

pub struct Family {
    pub name: &'static str,
    pub shape: Sh,
    pub mk: Vec<fn(&R) -> Option<Box<dyn Rep>>>,
    pub other_names: Vec<String>,
    pub other_can: Vec<fn(&R) -> bool>,
    /// read-only union-find representations: (name, same-matrix over items 0..n of a parent map)
    pub ro_same: Vec<(String, fn(&R, u8) -> Option<Result<Vec<bool>, String>>)>,
}

#[derive(Clone, Debug, Hash)]
pub enum Step {
    Merge(usize, R),
    Convert(usize, usize),
    Via(usize),
    Union(u8, u8),
    Same(u8, u8),
}

fn step_json(s: &Step) -> Value {
    match s {
        Step::Merge(o, r) => json!({"merge": [o, r_json(r)]}),
        Step::Convert(a, b) => json!({"convert": [a, b]}),
        Step::Via(o) => json!({"via": o}),
        Step::Union(a, b) => json!({"union": [a, b]}),
        Step::Same(a, b) => json!({"same": [a, b]}),
    }
}

fn step_parse(v: &Value) -> Step {
    let u = |x: &Value| x.as_u64().unwrap() as usize;
    if let Some(x) = v.get("merge") {
        Step::Merge(u(&x[0]), r_parse(&x[1]))
    } else if let Some(x) = v.get("convert") {
        Step::Convert(u(&x[0]), u(&x[1]))
    } else if let Some(x) = v.get("via") {
        Step::Via(u(x))
    } else if let Some(x) = v.get("union") {
        Step::Union(u(&x[0]) as u8, u(&x[1]) as u8)
    } else if let Some(x) = v.get("same") {
        Step::Same(u(&x[0]) as u8, u(&x[1]) as u8)
    } else {
        panic!("bad step {v}")
    }
}

fn uf_items(m: &M, extra: &[u8]) -> u8 {
    let mut mx = 0u8;
    if let M::Part(p) = m {
        for b in p {
            for &x in b {
                mx = mx.max(x);
            }
        }
    }
    for &x in extra {
        mx = mx.max(x);
    }
    (mx + 2).min(20)
}

/// Run one history. Returns the number of state-changing steps.
pub fn run_history(cx: &mut Ctx, fam: &Family, start: &R, steps: &[Step]) -> usize {
    let case = || {
        json!({"engine":"mon_lattices","check":"c04","family":fam.name,"start":r_json(start),
               "steps": steps.iter().map(step_json).collect::<Vec<_>>(),
               "representations": fam.mk.iter().filter_map(|mk| mk(start).map(|r| r.name())).collect::<Vec<_>>(),
               "other_representations": fam.other_names})
    };
    let mut reps: Vec<Box<dyn Rep>> = vec![];
    for mk in &fam.mk {
        match catch(|| mk(start)) {
            Ok(Some(r)) => reps.push(r),
            Ok(None) => panic!("self-capable representation cannot hold {start:?}"),
            Err(p) => {
                cx.rep.violation(&format!("C04|{}|constructor-panic", fam.name), &p, case());
                return 0;
            }
        }
    }
    let mut state = norm(start);
    let is_uf = fam.shape == Sh::Uf;
    let mut mentioned: Vec<u8> = vec![];
    let mut effective = 0usize;
    // judge every representation against the model state
    let judge = |cx: &mut Ctx, reps: &[Box<dyn Rep>], state: &M, at: &str, site_op: &str, mentioned: &[u8]| -> bool {
        let mut ok = true;
        for r in reps {
            cx.rep.eval();
            let got = norm(&r.reveal());
            if &got != state {
                ok = false;
                cx.rep.violation(
                    &format!("C04|{}::{site_op}|state-differs-from-model", r.ctor()),
                    &format!("{} after {at}: reveals {:?}, model state is {state:?}", r.name(), r.reveal()),
                    case(),
                );
            }
        }
        if is_uf {
            let n = uf_items(state, mentioned);
            let M::Part(p) = state else { unreachable!() };
            for r in reps {
                for a in 0..n {
                    for b in 0..n {
                        cx.rep.eval();
                        match r.uf_same(a, b) {
                            Some(Ok(s)) => {
                                if s != part_same(p, a, b) {
                                    ok = false;
                                    cx.rep.violation(
                                        &format!("C04|UnionFind::same|wrong-answer|after-{site_op}"),
                                        &format!("{} after {at}: same({a},{b}) = {s}, model partition {p:?}", r.name()),
                                        case(),
                                    );
                                }
                            }
                            Some(Err(e)) => {
                                ok = false;
                                cx.rep.violation("C04|UnionFind::same|panic", &format!("{}: {e}", r.name()), case());
                            }
                            None => {}
                        }
                    }
                }
                // path compression must not have changed the partition the parent map denotes
                let got = norm(&r.reveal());
                if &got != state {
                    ok = false;
                    cx.rep.violation(
                        "C04|UnionFind::same|queries-changed-the-partition",
                        &format!("{} after {at} + same-matrix: reveals {:?}, model {state:?}", r.name(), r.reveal()),
                        case(),
                    );
                }
            }
        }
        ok
    };
    if !judge(cx, &reps, &state, "construction", "new", &mentioned) {
        return 0;
    }
    for (si, st) in steps.iter().enumerate() {
        let at = format!("step {si} {st:?}");
        match st {
            Step::Merge(oi, r) => {
                if !(fam.other_can[*oi])(r) {
                    continue;
                }
                let mo = norm(r);
                let Some(expected) = state.join(&mo) else { continue };
                let mut flags = vec![];
                for rep in reps.iter_mut() {
                    match rep.merge_from(*oi, r) {
                        Some(Ok(f)) => flags.push(f),
                        Some(Err(p)) => {
                            cx.rep.violation(&format!("C04|{}::merge|panic", rep.ctor()), &format!("{} <- {}: {p}", rep.name(), fam.other_names[*oi]), case());
                            return effective;
                        }
                        None => unreachable!(),
                    }
                }
                if flags.iter().any(|f| *f != flags[0]) {
                    cx.rep.violation(
                        &format!("C04|{}::merge|representations-disagree-on-flag", reps[0].ctor()),
                        &format!("{at}: flags {flags:?}"),
                        case(),
                    );
                }
                if expected != state {
                    effective += 1;
                }
                state = expected;
                if let R::Uf(pm) = r {
                    let keys: std::collections::BTreeSet<u8> = pm.iter().map(|e| e.0).collect();
                    if keys.len() < pm.len() {
                        cx.rep.count("c04_uf_multi_edge_merges");
                        cx.rep.count(&format!("c04_uf_multi_edge_merges_via:{}", fam.other_names[*oi]));
                        if si == 0 && norm(start).is_bot() && matches!(start, R::Uf(x) if x.is_empty()) {
                            cx.rep.count("c04_uf_multi_edge_first_step_into_empty");
                        }
                    }
                    for &(a, b) in pm {
                        mentioned.push(a);
                        mentioned.push(b);
                    }
                }
                cx.rep.count(&format!("c04_merge_from:{}", fam.other_names[*oi]));
                if !judge(cx, &reps, &state, &at, "merge", &mentioned) {
                    return effective;
                }
            }
            Step::Convert(from, to) => {
                if *from >= reps.len() || *to >= reps.len() {
                    continue;
                }
                match reps[*from].convert(*to) {
                    Ok(n) => reps[*to] = n,
                    Err(p) => {
                        cx.rep.violation(&format!("C04|{}::lattice_from|panic", reps[*to].ctor()), &p, case());
                        return effective;
                    }
                }
                cx.rep.count("c04_lattice_from_between_self_representations");
                if !judge(cx, &reps, &state, &at, "lattice_from", &mentioned) {
                    return effective;
                }
            }
            Step::Via(oi) => {
                let mut any = false;
                for rep in reps.iter_mut() {
                    match rep.via(*oi) {
                        Some(Ok(())) => any = true,
                        Some(Err(p)) => {
                            cx.rep.violation(&format!("C04|{}::lattice_from|panic", rep.ctor()), &p, case());
                            return effective;
                        }
                        None => {}
                    }
                }
                if any {
                    cx.rep.count(&format!("c04_round_trip_via:{}", fam.other_names[*oi]));
                    if !judge(cx, &reps, &state, &at, "lattice_from", &mentioned) {
                        return effective;
                    }
                }
            }
            Step::Union(a, b) => {
                let M::Part(p) = &state else { continue };
                let mut e = crate::model::part_edges(p);
                e.push((*a, *b));
                let expected = M::Part(components(&e));
                let changed = expected != state;
                mentioned.push(*a);
                mentioned.push(*b);
                for rep in reps.iter_mut() {
                    cx.rep.eval();
                    match rep.uf_union(*a, *b) {
                        Some(Ok(f)) => {
                            if f != changed {
                                cx.rep.violation(
                                    "C04|UnionFind::union|wrong-flag",
                                    &format!("{} {at}: returned {f}, model partition changed = {changed}", rep.name()),
                                    case(),
                                );
                            }
                        }
                        Some(Err(p)) => {
                            cx.rep.violation("C04|UnionFind::union|panic", &format!("{}: {p}", rep.name()), case());
                            return effective;
                        }
                        None => {}
                    }
                }
                if changed {
                    effective += 1;
                }
                state = expected;
                cx.rep.count("c04_union_steps");
                if !judge(cx, &reps, &state, &at, "union", &mentioned) {
                    return effective;
                }
            }
            Step::Same(a, b) => {
                let M::Part(p) = &state else { continue };
                for rep in reps.iter() {
                    cx.rep.eval();
                    match rep.uf_same(*a, *b) {
                        Some(Ok(s)) => {
                            if s != part_same(p, *a, *b) {
                                cx.rep.violation(
                                    "C04|UnionFind::same|wrong-answer|single-query",
                                    &format!("{} {at}: same = {s}, model {p:?}", rep.name()),
                                    case(),
                                );
                                return effective;
                            }
                        }
                        Some(Err(e)) => {
                            cx.rep.violation("C04|UnionFind::same|panic", &format!("{}: {e}", rep.name()), case());
                            return effective;
                        }
                        None => {}
                    }
                }
                cx.rep.count("c04_same_query_steps");
            }
        }
    }
    // read-only union-find representations answer `same` like the model
    if is_uf {
        let M::Part(p) = &state else { unreachable!() };
        let n = uf_items(&state, &mentioned);
        let cur = reps[0].reveal();
        for (name, f) in &fam.ro_same {
            if let Some(res) = f(&cur, n) {
                cx.rep.eval();
                match res {
                    Ok(mat) => {
                        let exp: Vec<bool> = (0..n).flat_map(|a| (0..n).map(move |b| (a, b))).map(|(a, b)| part_same(p, a, b)).collect();
                        if mat != exp {
                            cx.rep.violation(
                                "C04|UnionFind::same|wrong-answer|read-only-representation",
                                &format!("{name} built from {cur:?}: same-matrix differs from model {p:?}"),
                                case(),
                            );
                        }
                        cx.rep.count(&format!("c04_ro_same:{name}"));
                    }
                    Err(e) => cx.rep.violation("C04|UnionFind::same|panic|read-only-representation", &format!("{name}: {e}"), case()),
                }
            }
        }
    }
    if effective >= 2 {
        cx.rep.nontrivial(hash_of(&("c04", fam.name, start, steps)));
        cx.rep.sample(|| json!({"family": fam.name, "start": r_json(start), "steps": steps.iter().map(step_json).collect::<Vec<_>>(), "final_model": format!("{state:?}")}));
    }
    cx.rep.count("c04_histories");
    effective
}

pub fn replay_history(cx: &mut Ctx, fam: &Family, v: &Value) {
    let start = r_parse(&v["start"]);
    let steps: Vec<Step> = v["steps"].as_array().unwrap().iter().map(step_parse).collect();
    let before = cx.rep.violations();
    run_history(cx, fam, &start, &steps);
    eprintln!("replay c04 {}: {}", fam.name, if cx.rep.violations() == before { "held" } else { "FAILED" });
}

fn random_step(rng: &mut Rng, fam: &Family, vals: &[R], is_uf: bool) -> Step {
    let no = fam.other_names.len();
    let ns = fam.mk.len();
    let k = rng.below(if is_uf { 17 } else { 10 });
    match k {
        0 if ns > 1 => {
            let a = rng.below(ns);
            Step::Convert(a, (a + 1 + rng.below(ns - 1)) % ns)
        }
        1 => Step::Via(rng.below(no)),
        10 | 11 => Step::Union(rng.below(7) as u8, rng.below(7) as u8),
        12 | 13 => Step::Same(rng.below(7) as u8, rng.below(7) as u8),
        14..=16 => {
            // multi-edge delta: the same item listed 2-3 times with different parents, held by a
            // Vec-/array-backed representation
            let c = rng.below(8) as u8;
            let np = 2 + rng.below(2);
            let mut ps: Vec<u8> = (0..8u8).collect();
            rng.shuffle(&mut ps);
            let mut pm: Vec<(u8, u8)> = ps[..np].iter().map(|&p| (c, p)).collect();
            if rng.chance(1, 3) {
                pm.push((rng.below(8) as u8, rng.below(8) as u8));
            }
            let r = R::Uf(pm);
            let cands: Vec<usize> = (0..no).filter(|&i| (fam.other_can[i])(&r)).collect();
            Step::Merge(*rng.choose(&cands), r)
        }
        _ => {
            let r = rng.choose(vals).clone();
            // prefer an other-representation that can hold the value
            let mut cands: Vec<usize> = (0..no).filter(|&i| (fam.other_can[i])(&r)).collect();
            rng.shuffle(&mut cands);
            // bias towards the rarer (fixed-size) representations: they are listed last
            let oi = if cands.len() > 1 && rng.chance(1, 2) { *cands.iter().max().unwrap() } else { cands[0] };
            Step::Merge(oi, r)
        }
    }
}

pub fn c04_family(cx: &mut Ctx, fam: &Family) {
    let is_uf = fam.shape == Sh::Uf;
    let u = cx.uni(&fam.shape, cx.args.budget(80, 300, 6));
    let vals: Vec<R> = u.vals.clone();
    let small = enumerate(&fam.shape, 0);
    let no = fam.other_names.len();
    // (a) enumerated two-step histories over the head of the exhaustive list, rotating the
    //     representation of the merged-in operand
    let head: Vec<R> = if small.len() <= 10 {
        small.clone()
    } else {
        let mut rng = cx.rng_for(&format!("c04head/{}", fam.name));
        let mut idx: Vec<usize> = (0..small.len()).collect();
        rng.shuffle(&mut idx);
        idx.truncate(10);
        idx.sort();
        idx.into_iter().map(|i| small[i].clone()).collect()
    };
    let pick = |r: &R, salt: usize| -> usize {
        let c: Vec<usize> = (0..no).filter(|&i| (fam.other_can[i])(r)).collect();
        c[salt % c.len()]
    };
    let mut salt = 0usize;
    if !cx.miri() {
        for s in head.iter().take(cx.args.budget(5, 10, 1)) {
            for a in &head {
                for b in &head {
                    salt += 1;
                    let steps = vec![Step::Merge(pick(a, salt), a.clone()), Step::Via(salt % no), Step::Merge(pick(b, salt / 3), b.clone()), Step::Convert(salt % fam.mk.len(), (salt + 1) % fam.mk.len())];
                    run_history(cx, fam, s, &steps);
                }
            }
        }
    }
    // (b) random longer histories
    let mut rng = cx.rng_for(&format!("c04/{}", fam.name));
    let max_len = cx.args.budget(12, 40, 4);
    for _ in 0..cx.args.budget(800, 8000, 3) {
        let start = rng.choose(&vals).clone();
        let len = 2 + rng.below(max_len - 1);
        let steps: Vec<Step> = (0..len).map(|_| random_step(&mut rng, fam, &vals, is_uf)).collect();
        run_history(cx, fam, &start, &steps);
    }
    cx.rep.count("c04_families");
    cx.rep.count(&format!("c04_family:{}", fam.name));
}

/// Union-find: every history of `len` union / merge-an-atom operations over 4 items (unordered
/// pairs, argument orientation and operation kind alternating with the position), starting from
/// the empty union-find, same-matrix judged after every step.
pub fn c04_uf_exhaustive(cx: &mut Ctx, fam: &Family) {
    let len = cx.args.budget(5, 6, 2);
    let pairs: Vec<(u8, u8)> = (0..4u8).flat_map(|a| (a + 1..4).map(move |b| (a, b))).collect();
    let singleton = fam.other_names.iter().position(|n| n.contains("SingletonMap")).expect("SingletonMap other-rep");
    let k = pairs.len();
    let total = k.pow(len as u32);
    let start = R::Uf(vec![]);
    for code in 0..total {
        if !cx.args.in_shard(code) {
            continue;
        }
        for variant in 0..2usize {
            let mut c = code;
            let mut steps = vec![];
            for pos in 0..len {
                let (a, b) = pairs[c % k];
                c /= k;
                let (a, b) = if (pos + variant + a as usize) % 2 == 0 { (a, b) } else { (b, a) };
                if (pos + variant) % 3 == 2 {
                    steps.push(Step::Merge(singleton, R::Uf(vec![(a, b)])));
                } else {
                    steps.push(Step::Union(a, b));
                }
            }
            run_history(cx, fam, &start, &steps);
            cx.rep.count("c04_uf_exhaustive_histories");
        }
    }
}

/// Union-find: merge-in deltas that list the same item 2-3 times with different parents (legal for
/// Vec-/array-backed representations: Merge reads the map as a list of union edges). Every history of
/// two steps over {all such deltas over 4 items} + {all unions}, from the empty union-find and from a
/// non-empty one, each delta through every representation that can hold it.
pub fn c04_uf_multi_edge(cx: &mut Ctx, fam: &Family) {
    let mut deltas: Vec<R> = vec![];
    for c in 0..4u8 {
        for a in 0..4u8 {
            for b in 0..4u8 {
                if a == b {
                    continue;
                }
                deltas.push(R::Uf(vec![(c, a), (c, b)]));
                for d in 0..4u8 {
                    if d != a && d != b && (a < b && b < d || cx.args.tier == vcommon::Tier::Thorough) {
                        deltas.push(R::Uf(vec![(c, a), (c, b), (c, d)]));
                    }
                }
            }
        }
    }
    let no = fam.other_names.len();
    let mut alphabet: Vec<Step> = vec![];
    for d in &deltas {
        for oi in 0..no {
            if (fam.other_can[oi])(d) {
                alphabet.push(Step::Merge(oi, d.clone()));
            }
        }
    }
    let n_delta_steps = alphabet.len();
    for a in 0..4u8 {
        for b in a + 1..4 {
            alphabet.push(Step::Union(if (a + b) % 2 == 0 { a } else { b }, if (a + b) % 2 == 0 { b } else { a }));
        }
    }
    let starts = [R::Uf(vec![]), R::Uf(vec![(1, 0)]), R::Uf(vec![(3, 2), (2, 2)])];
    let mut idx = 0usize;
    for start in &starts {
        for (i, s1) in alphabet.iter().enumerate() {
            // single-step history (delta is the first and only step)
            if i < n_delta_steps {
                run_history(cx, fam, start, std::slice::from_ref(s1));
            }
            for (j, s2) in alphabet.iter().enumerate() {
                if i >= n_delta_steps && j >= n_delta_steps {
                    continue; // union-only histories are covered elsewhere
                }
                idx += 1;
                // quick tier: every third two-step history (all single-step ones run above)
                if cx.args.tier != vcommon::Tier::Thorough && idx % 3 != 0 {
                    continue;
                }
                if cx.miri() && idx % 5000 != 0 {
                    continue;
                }
                run_history(cx, fam, start, &[s1.clone(), s2.clone()]);
            }
        }
    }
    cx.rep.count_n("c04_uf_multi_edge_delta_alphabet", n_delta_steps as u64);
}
