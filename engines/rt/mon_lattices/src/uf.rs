//! C04, rho-shaped union-find parent maps (a cycle of length >= 2 with a tail leading into it),
//! constructible through the public `UnionFind::new`. `find` is suspected not to terminate on
//! them, so each case runs in a child process (this binary re-executed with `--uf-child <json>`)
//! under a wall-clock watchdog, three times; a hang is reported only on 3/3 reproduction.

use std::cell::Cell;
use std::collections::{BTreeMap, HashMap};
use std::io::Read;
use std::process::{Child, Command, Stdio};
use std::time::{Duration, Instant};

use lattices::Merge;
use lattices::collections::SingletonMap;
use lattices::union_find::UnionFind;
use vcommon::{Value, hash_of, json};

use crate::checks::Ctx;
use crate::model::{components, part_same};

fn run_op<M>(mut uf: UnionFind<M>, op: &str, a: u8, b: u8) -> bool
where
    M: lattices::cc_traits::MapMut<u8, Cell<u8>, Key = u8, Item = Cell<u8>>,
{
    match op {
        "same" => uf.same(a, b).into_reveal(),
        // merge the atom (a -> b) into the rho-shaped receiver, then ask whether they are joined
        "merge" => {
            uf.merge(UnionFind::new(SingletonMap(a, Cell::new(b))));
            uf.same(a, b).into_reveal()
        }
        _ => panic!("bad op"),
    }
}

/// Child entry point: run one operation on one parent map and print the answer.
pub fn child_main(arg: &str) {
    let v: Value = vcommon::serde_json::from_str(arg).expect("child json");
    let pm: Vec<(u8, u8)> = v["pm"].as_array().unwrap().iter().map(|e| (e[0].as_u64().unwrap() as u8, e[1].as_u64().unwrap() as u8)).collect();
    let (a, b) = (v["a"].as_u64().unwrap() as u8, v["b"].as_u64().unwrap() as u8);
    let op = v["op"].as_str().unwrap();
    let res = match v["rep"].as_str().unwrap() {
        "HashMap" => run_op(UnionFind::new(pm.iter().map(|&(k, p)| (k, Cell::new(p))).collect::<HashMap<_, _>>()), op, a, b),
        "BTreeMap" => run_op(UnionFind::new(pm.iter().map(|&(k, p)| (k, Cell::new(p))).collect::<BTreeMap<_, _>>()), op, a, b),
        r => panic!("bad rep {r}"),
    };
    println!("{}", json!({"t":"uf-child","result":res}));
}

enum Outcome {
    Answer(bool),
    Hang,
    Crash(String),
}

fn wait_all(mut kids: Vec<Child>, limit: Duration) -> Vec<Outcome> {
    let t0 = Instant::now();
    let mut out: Vec<Option<Outcome>> = kids.iter().map(|_| None).collect();
    loop {
        let mut pending = false;
        for (i, k) in kids.iter_mut().enumerate() {
            if out[i].is_some() {
                continue;
            }
            match k.try_wait() {
                Ok(Some(st)) => {
                    let mut s = String::new();
                    if let Some(mut o) = k.stdout.take() {
                        let _ = o.read_to_string(&mut s);
                    }
                    let ans = s.lines().find_map(|l| vcommon::serde_json::from_str::<Value>(l).ok()).and_then(|v| v["result"].as_bool());
                    out[i] = Some(match ans {
                        Some(b) if st.success() => Outcome::Answer(b),
                        _ => Outcome::Crash(format!("status {st}, stdout {s:?}")),
                    });
                }
                Ok(None) => pending = true,
                Err(e) => out[i] = Some(Outcome::Crash(e.to_string())),
            }
        }
        if !pending {
            break;
        }
        if t0.elapsed() > limit {
            for (i, k) in kids.iter_mut().enumerate() {
                if out[i].is_none() {
                    let _ = k.kill();
                    let _ = k.wait();
                    out[i] = Some(Outcome::Hang);
                }
            }
            break;
        }
        std::thread::sleep(Duration::from_millis(15));
    }
    out.into_iter().map(Option::unwrap).collect()
}

pub struct RhoCase {
    pub rep: &'static str,
    pub pm: Vec<(u8, u8)>,
    pub op: &'static str,
    pub a: u8,
    pub b: u8,
}

fn case_json(c: &RhoCase) -> Value {
    json!({"engine":"mon_lattices","check":"c04rho","family":"UnionFind-rho","rep":c.rep,"pm":c.pm,"op":c.op,"a":c.a,"b":c.b})
}

pub fn run_rho(cx: &mut Ctx, cases: &[RhoCase]) {
    let exe = std::env::current_exe().expect("current_exe");
    let limit = Duration::from_secs(cx.args.budget(8, 20, 8) as u64);
    // three children per case, all started together
    let mut kids = vec![];
    for c in cases {
        for _ in 0..3 {
            let k = Command::new(&exe)
                .arg("--prop")
                .arg("C04")
                .arg("--uf-child")
                .arg(case_json(c).to_string())
                .stdin(Stdio::null())
                .stdout(Stdio::piped())
                .stderr(Stdio::null())
                .spawn()
                .expect("spawn uf child");
            kids.push(k);
        }
    }
    let outs = wait_all(kids, limit);
    for (ci, c) in cases.iter().enumerate() {
        let o = &outs[ci * 3..ci * 3 + 3];
        cx.rep.eval();
        // model: connected components of the parent map read as edges (+ the merged atom)
        let mut edges = c.pm.clone();
        if c.op == "merge" {
            edges.push((c.a, c.b));
        }
        let expect = part_same(&components(&edges), c.a, c.b);
        let hangs = o.iter().filter(|x| matches!(x, Outcome::Hang)).count();
        let site = if c.op == "same" { "UnionFind::same" } else { "UnionFind::merge" };
        if hangs == 3 {
            cx.rep.violation(
                &format!("C04|{site}|hang|rho-shaped-parent-map"),
                &format!(
                    "UnionFind<{}> built with the public `new` from parent map {:?}: {}({},{}) did not return within {:?} in 3/3 child processes (model answer: {expect})",
                    c.rep, c.pm, c.op, c.a, c.b, limit
                ),
                case_json(c),
            );
            cx.rep.count("c04_rho_hangs_reproduced_3_of_3");
        } else if hangs > 0 {
            cx.rep.require(false, "rho-shaped union-find child runs were not reproducible (some hung, some did not)");
        } else {
            for x in o {
                match x {
                    Outcome::Answer(b) if *b == expect => {}
                    Outcome::Answer(b) => {
                        cx.rep.violation(
                            &format!("C04|{site}|wrong-answer|rho-shaped-parent-map"),
                            &format!("UnionFind<{}> from {:?}: {}({},{}) answered {b}, the partition model says {expect}", c.rep, c.pm, c.op, c.a, c.b),
                            case_json(c),
                        );
                        break;
                    }
                    Outcome::Crash(s) => {
                        cx.rep.violation(&format!("C04|{site}|panic|rho-shaped-parent-map"), &format!("child failed: {s}"), case_json(c));
                        break;
                    }
                    Outcome::Hang => unreachable!(),
                }
            }
            cx.rep.count("c04_rho_cases_answered");
        }
        cx.rep.nontrivial(hash_of(&("c04rho", c.rep, &c.pm, c.op, c.a, c.b)));
        cx.rep.count("c04_rho_cases");
    }
}

pub fn rho_cases(thorough: bool) -> Vec<RhoCase> {
    let shapes: Vec<(Vec<(u8, u8)>, u8, u8)> = vec![
        // a -> b, b -> c, c -> b ; asked from the tail
        (vec![(0, 1), (1, 2), (2, 1)], 0, 2),
        // tail of length 2 into a 3-cycle
        (vec![(4, 0), (0, 1), (1, 2), (2, 3), (3, 1)], 4, 3),
    ];
    let more: Vec<(Vec<(u8, u8)>, u8, u8)> = vec![(vec![(0, 1), (1, 2), (2, 3), (3, 2)], 0, 3), (vec![(2, 0), (0, 1), (1, 0)], 2, 1)];
    let mut out = vec![];
    let all: Vec<_> = if thorough { shapes.into_iter().chain(more).collect() } else { shapes };
    for (pm, a, b) in all {
        for rep in ["HashMap", "BTreeMap"] {
            for op in ["same", "merge"] {
                out.push(RhoCase { rep, pm: pm.clone(), op, a, b });
            }
        }
    }
    out
}

pub fn replay_rho(cx: &mut Ctx, v: &Value) {
    let rep = match v["rep"].as_str().unwrap() {
        "HashMap" => "HashMap",
        _ => "BTreeMap",
    };
    let op = if v["op"].as_str().unwrap() == "same" { "same" } else { "merge" };
    let pm = v["pm"].as_array().unwrap().iter().map(|e| (e[0].as_u64().unwrap() as u8, e[1].as_u64().unwrap() as u8)).collect();
    let c = RhoCase { rep, pm, op, a: v["a"].as_u64().unwrap() as u8, b: v["b"].as_u64().unwrap() as u8 };
    run_rho(cx, &[c]);
}
