//! Monitor for the `lattices` crate: C01 (merge is ACI), C02 (changed flag), C03 (order, equality,
//! bottom, top), C04 (each lattice is its mathematical model, representation independence),
//! C06 (atomize). One binary, dispatch on `--prop`; all checks share the universe in `universe.rs`
//! and the independent model in `model.rs`.

mod checks;
mod hist;
mod lat;
mod model;
mod obs;
mod table;
mod uf;
mod universe;

use checks::Ctx;
use vcommon::{Args, Tier, Value};

fn replay(cx: &mut Ctx, prop: &str, case: &Value) {
    let check = case["check"].as_str().unwrap_or("");
    let fam = case["family"].as_str().unwrap_or("");
    match check {
        "point" => checks::point_check(cx, prop, Some(case)),
        "c04" => {
            let f = table::families().into_iter().find(|f| f.name == fam).unwrap_or_else(|| panic!("unknown family {fam}"));
            hist::replay_history(cx, &f, case);
        }
        "c04rho" => uf::replay_rho(cx, case),
        _ => {
            let es = table::entries();
            let e = es.iter().find(|e| e.check == check && e.family() == fam).unwrap_or_else(|| panic!("no table entry for check {check} family {fam}"));
            e.run(cx, Some(case));
        }
    }
}

fn main() {
    let args = Args::parse();
    if let Some(i) = args.rest.iter().position(|a| a == "--uf-child") {
        uf::child_main(&args.rest[i + 1]);
        return;
    }
    if args.prop == "NONE" {
        return;
    }
    let prop: &'static str = match args.prop.as_str() {
        "C01" => "C01",
        "C02" => "C02",
        "C03" => "C03",
        "C04" => "C04",
        "C06" => "C06",
        p => {
            eprintln!("mon_lattices does not serve {p}");
            std::process::exit(3);
        }
    };
    let miri = args.tier == Tier::Miri;
    let mut cx = Ctx::new(prop, args.clone());
    if let Some(case) = args.replay_case() {
        replay(&mut cx, prop, &case);
        cx.rep.finish("replay", false);
        return;
    }

    let mut idx = 0usize;
    if prop == "C04" {
        for f in table::families() {
            idx += 1;
            if !args.in_shard(idx) {
                continue;
            }
            hist::c04_family(&mut cx, &f);
            if f.name == "fam_union_find" {
                hist::c04_uf_exhaustive(&mut cx, &f);
                hist::c04_uf_multi_edge(&mut cx, &f);
            }
        }
        if !miri {
            let cases = uf::rho_cases(args.tier == Tier::Thorough);
            uf::run_rho(&mut cx, &cases);
        }
    } else {
        for e in table::entries() {
            if e.prop != prop {
                continue;
            }
            idx += 1;
            if !args.in_shard(idx) {
                continue;
            }
            e.run(&mut cx, None);
        }
        if matches!(prop, "C01" | "C02" | "C03") {
            checks::point_check(&mut cx, prop, None);
        }
    }

    let fe = cx.families_exhaustive;
    let fs = cx.families_sampled;
    cx.rep.extra("universe_lists_fully_enumerated", vcommon::json!(fe));
    cx.rep.extra("universe_lists_sampled", vcommon::json!(fs));
    let c = |cx: &Ctx, n: &str| cx.rep.counter(n);
    if !miri {
        match prop {
            "C01" => {
                cx.rep.require(c(&cx, "c01_families") >= 50, "fewer than 50 lattice types driven through the ACI laws");
                cx.rep.require(c(&cx, "c01h_pairs_of_representations") >= 30, "fewer than 30 heterogeneous (Self, Other) pairs");
                cx.rep.require(c(&cx, "point_unequal_merge_panicked_as_documented") > 0 || cx.rep.violations() > 0, "Point unequal-merge behaviour not observed");
                cx.rep.require(cx.rep.distinct_count() >= 50_000, "fewer than 50 000 distinct non-trivial triples");
            }
            "C02" => {
                cx.rep.require(c(&cx, "c02_pairs_of_representations") >= 100, "fewer than 100 (Self, Other) pairs judged");
                cx.rep.require(c(&cx, "c02_cross_representation_pairs") >= 60, "fewer than 60 cross-representation pairs");
                cx.rep.require(c(&cx, "c02_other_is_degenerate_bottom") >= 500, "fewer than 500 merges of a degenerate-size bottom representation (zero-length array / empty container nested as a value)");
                cx.rep.require(c(&cx, "c02_flag_true") >= 10_000 && c(&cx, "c02_flag_false") >= 10_000, "fewer than 10 000 merges with each flag value");
            }
            "C03" => {
                cx.rep.require(c(&cx, "c03_pairs_of_representations") >= 400, "fewer than 400 (Self, Other) comparison pairs");
                cx.rep.require(c(&cx, "c03_cross_representation_pairs") >= 150, "fewer than 150 cross-representation comparison pairs");
                cx.rep.require(c(&cx, "c03_incomparable_pairs") >= 5_000, "fewer than 5 000 incomparable pairs");
                cx.rep.require(c(&cx, "c03_ordered_pairs") >= 5_000, "fewer than 5 000 strictly ordered pairs");
                cx.rep.require(c(&cx, "c03_bottoms_seen") >= 100 && c(&cx, "c03_tops_seen") >= 20, "too few bottom / top values seen");
                cx.rep.require(c(&cx, "c03_default_families") >= 50, "Default checked for fewer than 50 types");
                cx.rep.require(c(&cx, "c03_degenerate_bottom_representations") >= 20, "fewer than 20 types whose bottom is a degenerate-size representation (zero-length array, None, empty container) judged by is_bot");
            }
            "C04" => {
                cx.rep.require(c(&cx, "c04_families") >= 26, "not every family ran its histories");
                cx.rep.require(c(&cx, "c04_uf_exhaustive_histories") >= 1000, "union-find exhaustive histories missing");
                cx.rep.require(c(&cx, "c04_uf_multi_edge_merges") >= 5000, "fewer than 5 000 merges of a multi-edge union-find delta (same item listed several times)");
                cx.rep.require(c(&cx, "c04_uf_multi_edge_first_step_into_empty") >= 200, "fewer than 200 multi-edge deltas merged as the first step into an empty union-find");
                cx.rep.require(c(&cx, "c04_uf_multi_edge_merges_via:UnionFind<VecMap>") > 0 && c(&cx, "c04_uf_multi_edge_merges_via:UnionFind<ArrayMap2>") > 0 && c(&cx, "c04_uf_multi_edge_merges_via:UnionFind<ArrayMap3>") > 0, "multi-edge deltas not merged through every Vec-/array-backed representation");
                cx.rep.require(c(&cx, "c04_rho_cases") >= 8, "rho-shaped union-find cases did not run");
                cx.rep.require(c(&cx, "c04_lattice_from_between_self_representations") >= 500, "too few LatticeFrom conversions");
                cx.rep.require(c(&cx, "c04_ro_same:UnionFind<VecMap>") > 0, "read-only union-find representations never queried");
            }
            "C06" => {
                cx.rep.require(c(&cx, "c06_families") >= 29, "not every Atomize type was driven");
                cx.rep.require(c(&cx, "c06_values_with_withtop_some_inner_top") >= 10, "fewer than 10 values WithTop(Some(inner top)) atomized");
                cx.rep.require(c(&cx, "c06_one_point_inner_families") >= 4, "wrappers of the one-point lattice () not atomized");
                cx.rep.require(c(&cx, "c06_bottom_values") >= 30, "fewer than 30 bottom values atomized");
                cx.rep.require(cx.rep.distinct_count() >= 1000, "fewer than 1000 values with >= 2 atoms");
            }
            _ => {}
        }
    }
    let rule = match prop {
        "C01" => "per lattice type: the bounded-exhaustive list of small raw values (element domain {0,1,2}, keys {0,1}, nesting depth <=3; sampled when larger than the tier's list size) plus seeded random larger values; idempotence on all singles, commutativity on all pairs, associativity on the full cube of the short list plus random triples of the long list, each judged by equality of the revealed model values and by the crate's ==; heterogeneous operands: order-independence and idempotence of merging other-representation values. Non-trivial = triple of pairwise model-distinct, non-bottom values",
        "C02" => "every (Self, Other) pair of the table x all pairs of the family's value list (sampled above the tier's cap): returned flag == (model(after) != model(before)), model(after) == model(before) join model(other), flag false => other <= before. Non-trivial = neither operand bottom and the two models differ",
        "C03" => "every (Self, Other) pair with PartialOrd/PartialEq impls x all pairs of the value list: partial_cmp, ==, <=, <, >=, >, != against the model order; naive_cmp == partial_cmp == model for mergeable pairs; reflexive/antisymmetric/transitive/dual on all triples of a short list; is_bot / is_top against the model's least / greatest element; Default is bottom. Non-trivial = pair of model-distinct non-bottom values (or a strictly increasing triple)",
        "C04" => "per family, histories of merge (operand in any representation incl. read-only ones) / LatticeFrom between representations / round trips through read-only representations, applied in lock-step to all self-capable representations; after every step every representation's revealed contents == model state (join computed by the harness; union-find: BFS components of all unions so far, full same(a,b) matrix after every step and single queries interleaved); all union/merge-atom histories of the tier's length over 4 items; rho-shaped parent maps in watchdogged child processes (3/3). Non-trivial = history with >= 2 state-changing steps",
        _ => "every Atomize type x the family's value list: no atom is bottom (crate is_bot and model), atoms empty <=> bottom (model and crate is_bot), merging the atoms into Default reveals the original model value. Non-trivial = value with >= 2 atoms",
    };
    let exhaustive = fe > 0 && !miri;
    cx.rep.finish(rule, exhaustive);
}
