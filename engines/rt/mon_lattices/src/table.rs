//! The macro table: which concrete types / pairs of types are instantiated for which check.

use std::cell::Cell;
use std::collections::{BTreeMap, BTreeSet, HashMap, HashSet};

use lattices::collections::{
    ArrayMap, ArraySet, EmptyMap, EmptySet, OptionMap, OptionSet, SingletonMap, SingletonSet, VecMap, VecSet,
};
use lattices::map_union::MapUnion;
use lattices::set_union::SetUnion;
use lattices::union_find::UnionFind;
use lattices::{Conflict, DomPair, Max, Min, Pair, VecUnion, WithBot, WithTop};

use lattices::{Atomize, IsBot, IsTop, Merge};

use crate::checks::{Entry, Obs, ty};
use crate::obs::*;
use crate::hist::{Family, HasOps, Ops, can_build, conv, merge_from, mk_rep, via};
use crate::lat::{D2, D3, Lat, T3};
use crate::model::R;

macro_rules! each {
    ($v:ident, $k:ident, [$($A:ty),* $(,)?]) => { $( $v.push($k::<$A>()); )* };
}
macro_rules! cross {
    ($v:ident, $k:ident, [$($A:ty),* $(,)?], $bs:tt) => { $( cross!(@row $v, $k, $A, $bs); )* };
    (@row $v:ident, $k:ident, $A:ty, [$($B:ty),* $(,)?]) => { $( $v.push($k::<$A, $B>()); )* };
}

fn k_c01<A: Lat + Merge<A> + PartialEq>() -> Entry {
    Entry { prop: "C01", check: "c01", t: ty::<A>(), o: None, obs: Obs::C01 { law: obs_c01::<A>, strict: true } }
}
fn k_c01_record<A: Lat + Merge<A> + PartialEq>() -> Entry {
    Entry { prop: "C01", check: "c01", t: ty::<A>(), o: None, obs: Obs::C01 { law: obs_c01::<A>, strict: false } }
}
fn k_c01h<A: Lat + Merge<B>, B: Lat>() -> Entry {
    Entry { prop: "C01", check: "c01h", t: ty::<A>(), o: Some(ty::<B>()), obs: Obs::C01h(obs_c01h::<A, B>) }
}
fn k_c02<A: Lat + Merge<B>, B: Lat>() -> Entry {
    Entry { prop: "C02", check: "c02", t: ty::<A>(), o: Some(ty::<B>()), obs: Obs::C02(obs_c02::<A, B>) }
}
fn k_c02s<A: Lat + Merge<A>>() -> Entry {
    k_c02::<A, A>()
}
fn k_c03<A: Lat + PartialOrd<B> + PartialEq<B>, B: Lat>() -> Entry {
    Entry { prop: "C03", check: "c03", t: ty::<A>(), o: Some(ty::<B>()), obs: Obs::C03(obs_c03::<A, B>) }
}
fn k_c03s<A: Lat + PartialOrd<A> + PartialEq<A>>() -> Entry {
    k_c03::<A, A>()
}
fn k_c03n<A: Lat + Merge<B> + PartialOrd<B>, B: Lat + Merge<A>>() -> Entry {
    Entry { prop: "C03", check: "c03n", t: ty::<A>(), o: Some(ty::<B>()), obs: Obs::C03n(obs_c03n::<A, B>) }
}
fn k_c03ns<A: Lat + Merge<A> + PartialOrd<A>>() -> Entry {
    k_c03n::<A, A>()
}
fn k_c03t<A: Lat + PartialOrd<A> + PartialEq<A>>() -> Entry {
    Entry { prop: "C03", check: "c03t", t: ty::<A>(), o: None, obs: Obs::C03t(obs_c03::<A, A>) }
}
fn k_c03u<A: Lat + IsBot + IsTop>() -> Entry {
    Entry { prop: "C03", check: "c03u", t: ty::<A>(), o: None, obs: Obs::C03u(obs_c03u::<A>) }
}
fn k_c03d<A: Lat + IsBot + Default>() -> Entry {
    Entry { prop: "C03", check: "c03d", t: ty::<A>(), o: None, obs: Obs::C03d(obs_c03d::<A>) }
}
fn k_c06<A>() -> Entry
where
    A: Lat + Atomize + Default + IsBot,
    A::Atom: Lat,
{
    Entry { prop: "C06", check: "c06", t: ty::<A>(), o: None, obs: Obs::C06(obs_c06::<A>) }
}

// ---------------------------------------------------------------------------------------------
// sets
pub type SH = SetUnion<HashSet<u8>>;
pub type SB = SetUnion<BTreeSet<u8>>;
pub type SV = SetUnion<VecSet<u8>>;
pub type SRaw = SetUnion<Vec<u8>>;
pub type SA1 = SetUnion<ArraySet<u8, 1>>;
pub type SA2 = SetUnion<ArraySet<u8, 2>>;
pub type SA3 = SetUnion<ArraySet<u8, 3>>;
pub type SS = SetUnion<SingletonSet<u8>>;
pub type SO = SetUnion<OptionSet<u8>>;
pub type SE = SetUnion<EmptySet<u8>>;

// maps of sets
pub type MHH = MapUnion<HashMap<u8, SH>>;
pub type MBB = MapUnion<BTreeMap<u8, SB>>;
pub type MVH = MapUnion<VecMap<u8, SH>>;
pub type MA2S = MapUnion<ArrayMap<u8, SS, 2>>;
pub type MA1B = MapUnion<ArrayMap<u8, SB, 1>>;
pub type MSS = MapUnion<SingletonMap<u8, SS>>;
pub type MSH = MapUnion<SingletonMap<u8, SH>>;
pub type MOO = MapUnion<OptionMap<u8, SO>>;
pub type MEH = MapUnion<EmptyMap<u8, SH>>;
// maps of Max<u8> (bottom = 0: entries holding Max(0) are invisible)
pub type XU = Max<u8>;
pub type NHX = MapUnion<HashMap<u8, XU>>;
pub type NBX = MapUnion<BTreeMap<u8, XU>>;
pub type NVX = MapUnion<VecMap<u8, XU>>;
pub type NA2X = MapUnion<ArrayMap<u8, XU, 2>>;
pub type NSX = MapUnion<SingletonMap<u8, XU>>;
pub type NOX = MapUnion<OptionMap<u8, XU>>;
// maps of WithBot<SetUnion>
pub type WH = WithBot<SH>;
pub type WB = WithBot<SB>;
pub type WS = WithBot<SS>;
pub type WO = WithBot<SO>;
pub type PHW = MapUnion<HashMap<u8, WH>>;
pub type PBW = MapUnion<BTreeMap<u8, WB>>;
pub type PSW = MapUnion<SingletonMap<u8, WS>>;
pub type PVW = MapUnion<VecMap<u8, WO>>;
// nested maps (depth 3) and map of pairs
pub type QH = MapUnion<HashMap<u8, MHH>>;
pub type QB = MapUnion<BTreeMap<u8, MBB>>;
pub type QS = MapUnion<SingletonMap<u8, MSS>>;
pub type PrH = Pair<XU, SH>;
pub type PrB = Pair<XU, SB>;
pub type PrS = Pair<XU, SS>;
pub type RH = MapUnion<HashMap<u8, PrH>>;
pub type RB_ = MapUnion<BTreeMap<u8, PrB>>;
pub type RS = MapUnion<SingletonMap<u8, PrS>>;

// with-bot / with-top
pub type TH = WithTop<SH>;
pub type TB = WithTop<SB>;
pub type TS = WithTop<SS>;
pub type WXU = WithBot<XU>;
pub type WXB = WithBot<Max<bool>>;
pub type TXU = WithTop<XU>;
pub type TXB = WithTop<Max<bool>>;
pub type TNB = WithTop<Min<bool>>;
pub type WTH = WithBot<WithTop<SH>>;
pub type WTB = WithBot<WithTop<SB>>;
pub type WTS = WithBot<WithTop<SS>>;
pub type TWH = WithTop<WithBot<SH>>;
pub type TWS = WithTop<WithBot<SS>>;
pub type WWH = WithBot<WithBot<SH>>;
pub type WTX = WithBot<WithTop<Max<bool>>>;

// pairs
pub type PA = Pair<SH, XU>;
pub type PB = Pair<SB, XU>;
pub type PS = Pair<SS, XU>;
pub type PTX = Pair<TXB, Max<bool>>;
pub type PHH = Pair<SH, SH>;
// dom pairs
pub type DA = DomPair<XU, SH>;
pub type DB = DomPair<XU, SB>;
pub type DS = DomPair<XU, SS>;
pub type DN = DomPair<Min<u8>, WH>;
pub type DNS = DomPair<Min<u8>, WS>;
pub type DX = DomPair<Max<bool>, Max<bool>>;
/// partially ordered key: documented not to be a lattice
pub type DP = DomPair<SH, SH>;
pub type DPS = DomPair<SS, SB>;
// vec union
pub type VX = VecUnion<XU>;
pub type VH = VecUnion<SH>;
pub type VB = VecUnion<SB>;
pub type VS = VecUnion<SS>;
pub type VM = VecUnion<MHH>;
pub type VMS = VecUnion<MSS>;
pub type VW = VecUnion<WH>;
// union-find
pub type UH = UnionFind<HashMap<u8, Cell<u8>>>;
pub type UB = UnionFind<BTreeMap<u8, Cell<u8>>>;
pub type UV = UnionFind<VecMap<u8, Cell<u8>>>;
pub type UA2 = UnionFind<ArrayMap<u8, Cell<u8>, 2>>;
pub type US = UnionFind<SingletonMap<u8, Cell<u8>>>;
pub type UO = UnionFind<OptionMap<u8, Cell<u8>>>;
pub type UE = UnionFind<EmptyMap<u8, Cell<u8>>>;
// derived
pub type D2H = D2<HashSet<u8>, u8>;
pub type D2B = D2<BTreeSet<u8>, u8>;
pub type D2S = D2<SingletonSet<u8>, u8>;
pub type T3A = T3<XU, SH, WXB>;
pub type T3B = T3<XU, SB, WXB>;
pub type T3S = T3<XU, SO, WXB>;
pub type CF = Conflict<u8>;

// ---- degenerate-size representations: zero-length arrays, empty/None containers nested as values
pub type SA0 = SetUnion<ArraySet<u8, 0>>;
pub type MA0H = MapUnion<ArrayMap<u8, SH, 0>>;
pub type MSA0 = MapUnion<SingletonMap<u8, SA0>>;
pub type MVA0 = MapUnion<VecMap<u8, SA0>>;
pub type MSE_ = MapUnion<SingletonMap<u8, SE>>;
pub type MA1A0 = MapUnion<ArrayMap<u8, SA0, 1>>;
pub type MOA0 = MapUnion<OptionMap<u8, SA0>>;
pub type NA0X = MapUnion<ArrayMap<u8, XU, 0>>;
pub type WA0 = WithBot<SA0>;
pub type WE = WithBot<SE>;
pub type PSA0 = MapUnion<SingletonMap<u8, WA0>>;
pub type PA0W = MapUnion<ArrayMap<u8, WH, 0>>;
pub type QA0 = MapUnion<SingletonMap<u8, MA0H>>;
pub type TA0 = WithTop<SA0>;
pub type TWA0 = WithTop<WithBot<SA0>>;
pub type WTA0 = WithBot<WithTop<SA0>>;
pub type PA0 = Pair<SA0, XU>;
pub type DA0 = DomPair<XU, SA0>;
pub type DNA0 = DomPair<Min<u8>, WA0>;
pub type VA0 = VecUnion<SA0>;
pub type VO = VecUnion<SO>;
pub type VMA0 = VecUnion<MA0H>;
pub type UA0 = UnionFind<ArrayMap<u8, Cell<u8>, 0>>;
pub type UA3 = UnionFind<ArrayMap<u8, Cell<u8>, 3>>;
// Atomize types whose wrapped lattice has a reachable top / is a one-point lattice
pub type TTH = WithTop<WithTop<SH>>;
pub type TTB = WithTop<WithTop<SB>>;
pub type TWTH = WithTop<WithBot<WithTop<SH>>>;
pub type WTTH = WithBot<WithTop<WithTop<SH>>>;
pub type TU = WithTop<()>;
pub type WU = WithBot<()>;
pub type TTU = WithTop<WithTop<()>>;
pub type MTH = MapUnion<HashMap<u8, TH>>;
pub type MTTB = MapUnion<BTreeMap<u8, TTB>>;
pub type MTU = MapUnion<HashMap<u8, TU>>;
pub type D2A0 = D2<ArraySet<u8, 0>, u8>;
pub type T3A0 = T3<XU, SA0, WXB>;

// ---------------------------------------------------------------------------------------------
// C04 families (self-capable representations first; every self merges / converts from every listed
// representation)

macro_rules! family {
    ($fname:ident; selfs: [$($S:ty),+]; others: [$($O:ty),* $(,)?]) => {
        family!(@impls [$($S),+]; [$($S),+]; [$($S,)+ $($O),*]; no);
        pub fn $fname() -> Family {
            Family { name: stringify!($fname), shape: R_SHAPE::<($($S,)+)>(), mk: vec![$(mk_rep::<$S>),+],
                other_names: vec![$(<$S>::name(),)+ $(<$O>::name()),*],
                other_can: vec![$(can_build::<$S>,)+ $(can_build::<$O>),*], ro_same: vec![] }
        }
    };
    ($fname:ident; selfs: [$($S:ty),+]; others: [$($O:ty),* $(,)?]; uf) => {
        family!(@impls [$($S),+]; [$($S),+]; [$($S,)+ $($O),*]; yes);
        pub fn $fname() -> Family {
            let mut f = Family { name: stringify!($fname), shape: R_SHAPE::<($($S,)+)>(), mk: vec![$(mk_rep::<$S>),+],
                other_names: vec![$(<$S>::name(),)+ $(<$O>::name()),*],
                other_can: vec![$(can_build::<$S>,)+ $(can_build::<$O>),*], ro_same: vec![] };
            $( f.ro_same.push((<$O>::name(), ro_same_of::<$O> as fn(&R, u8) -> Option<Result<Vec<bool>, String>>)); )*
            f
        }
    };
    (@impls [$S:ty $(, $Rest:ty)*]; $selfs:tt; $all:tt; $uf:tt) => {
        family!(@one $S; $selfs; $all; $uf);
        family!(@impls [$($Rest),*]; $selfs; $all; $uf);
    };
    (@impls []; $selfs:tt; $all:tt; $uf:tt) => {};
    (@one $S:ty; [$($T:ty),+]; [$($O:ty),* $(,)?]; no) => {
        impl HasOps for $S {
            fn ops() -> Ops<Self> {
                Ops {
                    others: vec![$( (<$O>::name(), can_build::<$O> as fn(&R) -> bool, merge_from::<$S, $O> as _, via::<$S, $O> as _) ),*],
                    convs: vec![$( (<$T>::name(), conv::<$S, $T> as _) ),+],
                    union: None,
                    same: None,
                }
            }
        }
    };
    (@one $S:ty; [$($T:ty),+]; [$($O:ty),* $(,)?]; yes) => {
        impl HasOps for $S {
            fn ops() -> Ops<Self> {
                Ops {
                    others: vec![$( (<$O>::name(), can_build::<$O> as fn(&R) -> bool, merge_from::<$S, $O> as _, via::<$S, $O> as _) ),*],
                    convs: vec![$( (<$T>::name(), conv::<$S, $T> as _) ),+],
                    union: Some(|s: &mut $S, a, b| s.union(a, b).into_reveal()),
                    same: Some(|s: &$S, a, b| s.same(a, b).into_reveal()),
                }
            }
        }
    };
}

/// same(a,b) for all a,b in 0..n on a (read-only) union-find representation built from a parent map
pub trait UfSame: Lat {
    fn same_(&self, a: u8, b: u8) -> bool;
}
macro_rules! uf_same { ($($U:ty),*) => { $( impl UfSame for $U { fn same_(&self, a: u8, b: u8) -> bool { self.same(a, b).into_reveal() } } )* } }
uf_same!(UV, UA2, US, UO, UE, UA0, UA3);
fn ro_same_of<U: UfSame>(r: &R, n: u8) -> Option<Result<Vec<bool>, String>> {
    let u = U::build(r)?;
    Some(vcommon::catch(|| (0..n).flat_map(|a| (0..n).map(move |b| (a, b))).map(|(a, b)| u.same_(a, b)).collect()))
}

/// shape of the first type of a tuple of representations
#[allow(non_snake_case)]
fn R_SHAPE<T: FirstShape>() -> crate::model::Sh {
    T::first_shape()
}
pub trait FirstShape {
    fn first_shape() -> crate::model::Sh;
}
impl<A: Lat> FirstShape for (A,) {
    fn first_shape() -> crate::model::Sh {
        A::shape()
    }
}
impl<A: Lat, B: Lat> FirstShape for (A, B) {
    fn first_shape() -> crate::model::Sh {
        assert_eq!(A::shape(), B::shape());
        A::shape()
    }
}

family!(fam_set; selfs: [SH, SB]; others: [SV, SRaw, SA0, SA1, SA2, SA3, SS, SO, SE]);
family!(fam_map_set; selfs: [MHH, MBB]; others: [MVH, MA2S, MA1B, MSS, MSH, MOO, MEH, MA0H, MSA0, MVA0, MSE_, MA1A0, MOA0]);
family!(fam_map_max; selfs: [NHX, NBX]; others: [NVX, NA2X, NSX, NOX, NA0X]);
family!(fam_map_withbot; selfs: [PHW, PBW]; others: [PVW, PSW, PSA0, PA0W]);
family!(fam_map_map; selfs: [QH, QB]; others: [QS, QA0]);
family!(fam_map_pair; selfs: [RH, RB_]; others: [RS]);
family!(fam_max_u8; selfs: [XU]; others: []);
family!(fam_min_i8; selfs: [Min<i8>]; others: []);
family!(fam_withbot_set; selfs: [WH, WB]; others: [WS, WO, WA0, WE]);
family!(fam_withtop_set; selfs: [TH, TB]; others: [TS, TA0]);
family!(fam_withbot_withtop; selfs: [WTH, WTB]; others: [WTS, WTA0]);
family!(fam_withtop_withbot; selfs: [TWH]; others: [TWS, TWA0]);
family!(fam_withtop_maxbool; selfs: [TXB]; others: []);
family!(fam_pair; selfs: [PA, PB]; others: [PS, PA0]);
family!(fam_dompair_total; selfs: [DA, DB]; others: [DS, DA0]);
family!(fam_dompair_min; selfs: [DN]; others: [DNS, DNA0]);
family!(fam_dompair_partial; selfs: [DP]; others: [DPS]);
family!(fam_vec_set; selfs: [VH, VB]; others: [VS, VA0, VO]);
family!(fam_vec_map; selfs: [VM]; others: [VMS, VMA0]);
family!(fam_vec_max; selfs: [VX]; others: []);
family!(fam_conflict; selfs: [CF]; others: []);
family!(fam_derive2; selfs: [D2H, D2B]; others: [D2S, D2A0]);
family!(fam_derive3; selfs: [T3A, T3B]; others: [T3S, T3A0]);
family!(fam_derive3_concrete; selfs: [D3]; others: []);
family!(fam_unit; selfs: [()]; others: []);
family!(fam_union_find; selfs: [UH, UB]; others: [UV, UA2, US, UO, UE, UA0, UA3]; uf);

pub fn families() -> Vec<Family> {
    vec![
        fam_set(), fam_map_set(), fam_map_max(), fam_map_withbot(), fam_map_map(), fam_map_pair(), fam_max_u8(), fam_min_i8(),
        fam_withbot_set(), fam_withtop_set(), fam_withbot_withtop(), fam_withtop_withbot(), fam_withtop_maxbool(), fam_pair(),
        fam_dompair_total(), fam_dompair_min(), fam_dompair_partial(), fam_vec_set(), fam_vec_map(), fam_vec_max(), fam_conflict(),
        fam_derive2(), fam_derive3(), fam_derive3_concrete(), fam_unit(), fam_union_find(),
    ]
}

// ---------------------------------------------------------------------------------------------
// entries for C01, C02, C03, C06

pub fn entries() -> Vec<Entry> {
    let mut v: Vec<Entry> = vec![];

    // ---- C01: every self-capable type (merge with itself)
    each!(v, k_c01, [
        SH, SB, MHH, MBB, NHX, NBX, PHW, PBW, QH, QB, RH, RB_,
        XU, Max<i8>, Max<bool>, Max<char>, Max<u64>, Min<u8>, Min<i8>, Min<bool>, Min<char>, Min<u64>,
        WH, WB, WXU, WXB, TH, TB, TXU, TXB, TNB, WTH, TWH, WWH, WTX,
        PA, PB, PTX, PHH, DA, DB, DN, DX, VX, VH, VB, VM, VW, UH, UB, CF, D2H, D2B, D3, T3A, T3B, ()
    ]);
    each!(v, k_c01_record, [DP]);
    // heterogeneous operands
    cross!(v, k_c01h, [SH, SB], [SV, SRaw, SA2, SS, SO, SA0, SE]);
    cross!(v, k_c01h, [MHH, MBB], [MVH, MA2S, MSS, MSH, MOO, MA0H, MSA0, MSE_, MOA0]);
    cross!(v, k_c01h, [NHX, NBX], [NVX, NA2X, NSX, NOX]);
    cross!(v, k_c01h, [PHW], [PVW, PSW, PSA0]);
    cross!(v, k_c01h, [QH], [QS, QB]);
    cross!(v, k_c01h, [WH], [WS, WO, WB, WA0, WE]);
    cross!(v, k_c01h, [TH], [TS, TB]);
    cross!(v, k_c01h, [PA], [PS, PB]);
    cross!(v, k_c01h, [DA], [DS, DB]);
    cross!(v, k_c01h, [VH], [VS, VB, VA0, VO]);
    cross!(v, k_c01h, [UH, UB], [UV, UA2, US, UO]);
    cross!(v, k_c01h, [D2H], [D2S, D2B]);
    cross!(v, k_c01h, [T3A], [T3S, T3B]);

    // ---- C02: every (Self, Other) for which Merge<Other> exists in the table
    cross!(v, k_c02, [SH, SB], [SH, SB, SV, SRaw, SA0, SA1, SA2, SA3, SS, SO, SE]);
    cross!(v, k_c02, [MHH, MBB], [MHH, MBB, MVH, MA2S, MA1B, MSS, MSH, MOO, MEH, MA0H, MSA0, MVA0, MSE_, MA1A0, MOA0]);
    cross!(v, k_c02, [NHX, NBX], [NHX, NBX, NVX, NA2X, NSX, NOX, NA0X]);
    cross!(v, k_c02, [PHW, PBW], [PHW, PBW, PVW, PSW, PSA0, PA0W]);
    cross!(v, k_c02, [QH, QB], [QH, QB, QS, QA0]);
    cross!(v, k_c02, [RH, RB_], [RH, RB_, RS]);
    each!(v, k_c02s, [XU, Max<i8>, Max<bool>, Max<char>, Max<u64>, Min<u8>, Min<i8>, Min<bool>, Min<char>, Min<u64>, WXU, WXB, TXU, TXB, TNB, WWH, WTX, PTX, PHH, DX, VX, VW, CF, D3, ()]);
    cross!(v, k_c02, [WH, WB], [WH, WB, WS, WO, WA0, WE]);
    cross!(v, k_c02, [TH, TB], [TH, TB, TS, TA0]);
    cross!(v, k_c02, [WTH, WTB], [WTH, WTB, WTS, WTA0]);
    cross!(v, k_c02, [TWH], [TWH, TWS, TWA0]);
    cross!(v, k_c02, [PA, PB], [PA, PB, PS, PA0]);
    cross!(v, k_c02, [DA, DB], [DA, DB, DS, DA0]);
    cross!(v, k_c02, [DN], [DN, DNS, DNA0]);
    cross!(v, k_c02, [DP], [DP, DPS]);
    cross!(v, k_c02, [VH, VB], [VH, VB, VS, VA0, VO]);
    cross!(v, k_c02, [VM], [VM, VMS, VMA0]);
    cross!(v, k_c02, [UH, UB], [UH, UB, UV, UA2, US, UO, UE, UA0]);
    cross!(v, k_c02, [D2H, D2B], [D2H, D2B, D2S, D2A0]);
    cross!(v, k_c02, [T3A, T3B], [T3A, T3B, T3S, T3A0]);

    // ---- C03: order / equality for every (Self, Other) with PartialOrd<Other> + PartialEq<Other>
    cross!(v, k_c03, [SH, SB, SV, SA0, SA2, SS, SO, SE], [SH, SB, SV, SA0, SA2, SS, SO, SE]);
    cross!(v, k_c03, [SA1, SA3], [SH, SB, SA1, SA3]);
    cross!(v, k_c03, [SH, SB], [SA1, SA3]);
    cross!(v, k_c03, [MHH, MBB, MVH, MA2S, MSS, MSH, MOO, MEH], [MHH, MBB, MVH, MA2S, MSS, MSH, MOO, MEH]);
    cross!(v, k_c03, [MA1B], [MHH, MBB, MA1B]);
    cross!(v, k_c03, [MA0H, MSA0, MVA0, MSE_, MA1A0, MOA0], [MHH, MBB, MSH, MOO, MA0H, MSA0, MVA0, MSE_, MA1A0, MOA0]);
    cross!(v, k_c03, [MHH, MBB, MSH, MOO], [MA0H, MSA0, MVA0, MSE_, MA1A0, MOA0]);
    cross!(v, k_c03, [NA0X], [NHX, NBX, NSX, NA0X]);
    cross!(v, k_c03, [NHX, NBX, NSX], [NA0X]);
    cross!(v, k_c03, [PSA0, PA0W], [PHW, PBW, PSW, PSA0, PA0W]);
    cross!(v, k_c03, [PHW, PBW, PSW], [PSA0, PA0W]);
    cross!(v, k_c03, [QA0], [QH, QB, QS, QA0]);
    cross!(v, k_c03, [QH, QB, QS], [QA0]);
    cross!(v, k_c03, [WA0, WE], [WH, WB, WS, WO, WA0, WE]);
    cross!(v, k_c03, [WH, WB, WS, WO], [WA0, WE]);
    cross!(v, k_c03, [TA0], [TH, TB, TS, TA0]);
    cross!(v, k_c03, [TH, TB, TS], [TA0]);
    cross!(v, k_c03, [WTA0], [WTH, WTB, WTA0]);
    cross!(v, k_c03, [WTH, WTB], [WTA0]);
    cross!(v, k_c03, [TWA0], [TWH, TWS, TWA0]);
    cross!(v, k_c03, [TWH, TWS], [TWA0]);
    cross!(v, k_c03, [PA0], [PA, PB, PS, PA0]);
    cross!(v, k_c03, [PA, PB, PS], [PA0]);
    cross!(v, k_c03, [DA0], [DA, DB, DA0]);
    cross!(v, k_c03, [DA, DB], [DA0]);
    cross!(v, k_c03, [DNA0], [DN, DNA0]);
    cross!(v, k_c03, [DN], [DNA0]);
    cross!(v, k_c03, [VA0, VO], [VH, VB, VS, VA0, VO]);
    cross!(v, k_c03, [VH, VB, VS], [VA0, VO]);
    cross!(v, k_c03, [VMA0], [VM, VMS, VMA0]);
    cross!(v, k_c03, [VM, VMS], [VMA0]);
    cross!(v, k_c03, [D2A0], [D2H, D2B, D2A0]);
    cross!(v, k_c03, [D2H, D2B], [D2A0]);
    cross!(v, k_c03, [T3A0], [T3A, T3B, T3A0]);
    cross!(v, k_c03, [T3A, T3B], [T3A0]);
    cross!(v, k_c03, [MHH, MBB], [MA1B]);
    cross!(v, k_c03, [NHX, NBX, NVX, NA2X, NSX, NOX], [NHX, NBX, NVX, NA2X, NSX, NOX]);
    cross!(v, k_c03, [PHW, PBW, PVW, PSW], [PHW, PBW, PVW, PSW]);
    cross!(v, k_c03, [QH, QB, QS], [QH, QB, QS]);
    cross!(v, k_c03, [RH, RB_, RS], [RH, RB_, RS]);
    each!(v, k_c03s, [XU, Max<i8>, Max<bool>, Max<char>, Max<u64>, Min<u8>, Min<i8>, Min<bool>, Min<char>, Min<u64>, WXU, WXB, TXU, TXB, TNB, WWH, WTX, PTX, PHH, DX, VX, VW, CF, D3, ()]);
    cross!(v, k_c03, [WH, WB, WS, WO], [WH, WB, WS, WO]);
    cross!(v, k_c03, [TH, TB, TS], [TH, TB, TS]);
    cross!(v, k_c03, [WTH, WTB, WTS], [WTH, WTB, WTS]);
    cross!(v, k_c03, [TWH, TWS], [TWH, TWS]);
    cross!(v, k_c03, [PA, PB, PS], [PA, PB, PS]);
    cross!(v, k_c03, [DA, DB, DS], [DA, DB, DS]);
    cross!(v, k_c03, [DN, DNS], [DN, DNS]);
    cross!(v, k_c03, [DP, DPS], [DP, DPS]);
    cross!(v, k_c03, [VH, VB, VS], [VH, VB, VS]);
    cross!(v, k_c03, [VM, VMS], [VM, VMS]);
    cross!(v, k_c03, [UH, UB], [UH, UB]);
    cross!(v, k_c03, [D2H, D2B, D2S], [D2H, D2B, D2S]);
    cross!(v, k_c03, [T3A, T3B, T3S], [T3A, T3B, T3S]);
    // naive_cmp (needs Merge in both directions)
    cross!(v, k_c03n, [SH, SB], [SH, SB]);
    cross!(v, k_c03n, [MHH, MBB], [MHH, MBB]);
    cross!(v, k_c03n, [NHX, NBX], [NHX, NBX]);
    cross!(v, k_c03n, [PHW, PBW], [PHW, PBW]);
    cross!(v, k_c03n, [WH, WB], [WH, WB]);
    cross!(v, k_c03n, [TH, TB], [TH, TB]);
    cross!(v, k_c03n, [WTH, WTB], [WTH, WTB]);
    cross!(v, k_c03n, [PA, PB], [PA, PB]);
    cross!(v, k_c03n, [DA, DB], [DA, DB]);
    cross!(v, k_c03n, [VH, VB], [VH, VB]);
    cross!(v, k_c03n, [UH, UB], [UH, UB]);
    cross!(v, k_c03n, [D2H, D2B], [D2H, D2B]);
    cross!(v, k_c03n, [T3A, T3B], [T3A, T3B]);
    each!(v, k_c03ns, [QH, RH, XU, Max<bool>, Max<char>, Min<u8>, Min<i8>, Min<u64>, WXU, WXB, TXU, TXB, TNB, TWH, WWH, WTX, PTX, PHH, DN, DX, DP, VX, VM, VW, CF, D3, ()]);
    // partial-order laws on triples
    each!(v, k_c03t, [
        SH, SB, SV, MHH, MBB, MVH, NHX, NVX, PHW, QH, RH, XU, Max<i8>, Max<bool>, Max<char>, Min<u8>, Min<u64>,
        WH, WXU, WXB, TH, TXU, TXB, WTH, TWH, WWH, WTX, PA, PTX, PHH, DA, DN, DX, DP, VX, VH, VM, VW, UH, UB, CF, D2H, D3, T3A, ()
    ]);
    // is_bot / is_top
    each!(v, k_c03u, [
        SH, SB, SV, SRaw, SA1, SA2, SA3, SS, SO, SE, MHH, MBB, MA2S, MA1B, MSS, MSH, MOO, MEH, NHX, NBX, NA2X, NSX, NOX,
        PHW, PBW, PSW, QH, QB, QS, RH, RB_, RS,
        XU, Max<i8>, Max<bool>, Max<char>, Max<u64>, Min<u8>, Min<i8>, Min<bool>, Min<char>, Min<u64>,
        WH, WB, WS, WO, WXU, WXB, TH, TB, TS, TXU, TXB, TNB, WTH, WTB, WTS, TWH, TWS, WWH, WTX,
        PA, PB, PS, PTX, PHH, DA, DB, DS, DN, DNS, DX, DP, DPS, VX, VH, VB, VS, VM, VMS, VW,
        UH, UB, UV, UA2, US, UO, UE, CF, D2H, D2B, D2S, D3, T3A, T3B, T3S, (),
        SA0, MA0H, MSA0, MSE_, MA1A0, MOA0, NA0X, WA0, WE, PSA0, PA0W, QA0, TA0, TWA0, WTA0, PA0, DA0, DNA0, VA0, VO, VMA0, UA0, D2A0, T3A0
    ]);
    // Default is bottom
    each!(v, k_c03d, [
        SH, SB, SO, SE, MHH, MBB, MOO, MEH, NHX, NBX, NOX, PHW, PBW, QH, QB, RH, RB_,
        XU, Max<i8>, Max<bool>, Max<char>, Max<u64>, Min<u8>, Min<i8>, Min<bool>, Min<char>, Min<u64>,
        WH, WB, WS, WO, WXU, WXB, TH, TB, TXU, TXB, TNB, WTH, WTB, WTS, TWH, TWS, WWH, WTX,
        PA, PB, PTX, PHH, DA, DB, DN, DX, DP, VX, VH, VB, VS, VM, VMS, VW, UH, UB, UO, UE, D3, (),
        MOA0, WA0, WE, WTA0, VA0, VO, VMA0
    ]);

    // ---- C06: every Atomize type with a Default
    each!(v, k_c06, [SH, SB, MHH, MBB, PHW, PBW, QH, QB, WH, WB, TH, TB, WTH, WTB, TWH, WWH, UH, UB, (),
        TTH, TTB, TWTH, WTTH, TU, WU, TTU, MTH, MTTB, MTU]);

    v
}

