//! The value universe: for a shape, a bounded-exhaustive list of small raw terms plus seeded random
//! larger ones. Union-find parent maps never contain rho shapes here (those run only in the
//! watchdogged child process, see `uf.rs`).

use std::collections::BTreeSet;

use vcommon::Rng;

use crate::model::{NumKind, R, Sh, uf_has_rho};

fn subsets(dom: &[u8]) -> Vec<Vec<u8>> {
    let mut out = vec![];
    for mask in 0..(1u32 << dom.len()) {
        out.push(dom.iter().enumerate().filter(|(i, _)| mask >> i & 1 == 1).map(|(_, &x)| x).collect());
    }
    out
}

fn num_points(kind: NumKind, level: usize) -> Vec<i128> {
    let (lo, hi) = (kind.lo(), kind.hi());
    let mut v: Vec<i128> = match kind {
        NumKind::Bool => vec![0, 1],
        NumKind::Char => {
            if level == 0 {
                vec![lo, 'a' as i128, 'b' as i128, 0xD7FF, 0xE000, hi - 1, hi]
            } else {
                vec![lo, 'a' as i128, hi]
            }
        }
        _ => {
            if level == 0 {
                vec![lo, lo + 1, 0, 1, 2, hi - 1, hi]
            } else {
                vec![lo, 1, hi]
            }
        }
    };
    v.retain(|x| kind.valid(*x));
    v.sort();
    v.dedup();
    v
}

/// All parent maps over items `0..n` (each item absent or pointing at any item), rho shapes removed.
pub fn uf_maps(n: u8) -> Vec<Vec<(u8, u8)>> {
    let mut out = vec![];
    let base = n as u32 + 1;
    let total = base.pow(n as u32);
    for code in 0..total {
        let mut c = code;
        let mut pm = vec![];
        for item in 0..n {
            let d = c % base;
            c /= base;
            if d > 0 {
                pm.push((item, (d - 1) as u8));
            }
        }
        if !uf_has_rho(&pm) {
            out.push(pm);
        }
    }
    out
}

/// Bounded-exhaustive list for a shape. `level` grows with nesting depth and shrinks the element
/// domains so that products stay small.
pub fn enumerate(sh: &Sh, level: usize) -> Vec<R> {
    match sh {
        Sh::Unit => vec![R::Unit],
        Sh::Set => {
            let dom: &[u8] = match level {
                0 => &[0, 1, 2],
                1 => &[0, 1],
                _ => &[0],
            };
            let mut v: Vec<R> = subsets(dom).into_iter().map(R::Set).collect();
            if level == 0 {
                // representation order matters for the Vec/array-backed sets
                v.push(R::Set(vec![1, 0]));
                v.push(R::Set(vec![2, 0, 1]));
            }
            v
        }
        Sh::Map(vs) => {
            let vals = enumerate(vs, level + 1);
            let keys: &[u8] = if level == 0 { &[0, 1] } else { &[1] };
            // each key absent or bound to one of `vals`
            let mut out: Vec<Vec<(u8, R)>> = vec![vec![]];
            for &k in keys {
                let mut next = vec![];
                for m in &out {
                    next.push(m.clone());
                    for v in &vals {
                        let mut m2 = m.clone();
                        m2.push((k, v.clone()));
                        next.push(m2);
                    }
                }
                out = next;
            }
            let mut out: Vec<R> = out.into_iter().map(R::Map).collect();
            if level == 0 && vals.len() >= 2 {
                // reversed key order for the Vec/array-backed maps
                out.push(R::Map(vec![(1, vals[1].clone()), (0, vals[vals.len() - 1].clone())]));
            }
            out
        }
        Sh::Num { kind, min } => num_points(*kind, level).into_iter().map(|v| R::Num { v, kind: *kind, min: *min }).collect(),
        Sh::WithBot(x) => {
            let mut v = vec![R::WithBot(None)];
            v.extend(enumerate(x, level).into_iter().map(|r| R::WithBot(Some(Box::new(r)))));
            v
        }
        Sh::WithTop(x) => {
            let mut v: Vec<R> = enumerate(x, level).into_iter().map(|r| R::WithTop(Some(Box::new(r)))).collect();
            v.push(R::WithTop(None));
            v
        }
        Sh::Tuple(xs) => {
            let mut out: Vec<Vec<R>> = vec![vec![]];
            for x in xs {
                let vals = enumerate(x, level + 1);
                let mut next = vec![];
                for t in &out {
                    for v in &vals {
                        let mut t2 = t.clone();
                        t2.push(v.clone());
                        next.push(t2);
                    }
                }
                out = next;
            }
            out.into_iter().map(R::Tuple).collect()
        }
        Sh::Dom(k, v) => {
            let ks = enumerate(k, level + 1);
            let vs = enumerate(v, level + 1);
            let mut out = vec![];
            for a in &ks {
                for b in &vs {
                    out.push(R::Dom(Box::new(a.clone()), Box::new(b.clone())));
                }
            }
            out
        }
        Sh::Vec(x) => {
            let vals = enumerate(x, level + 1);
            let mut out = vec![R::Vec(vec![])];
            for a in &vals {
                out.push(R::Vec(vec![a.clone()]));
            }
            for a in &vals {
                for b in &vals {
                    out.push(R::Vec(vec![a.clone(), b.clone()]));
                }
            }
            out
        }
        Sh::Uf => uf_maps(if level == 0 { 3 } else { 2 }).into_iter().map(R::Uf).collect(),
        Sh::Conflict => vec![R::Conflict(None), R::Conflict(Some(0)), R::Conflict(Some(1)), R::Conflict(Some(2))],
        Sh::Point => vec![R::Point(0), R::Point(1), R::Point(2)],
    }
}

fn random_set(rng: &mut Rng) -> Vec<u8> {
    let (dom, max) = if rng.chance(1, 2) { (4, 3) } else { (16, 12) };
    let n = rng.below(max + 1);
    let mut s: BTreeSet<u8> = BTreeSet::new();
    for _ in 0..n {
        s.insert(rng.below(dom) as u8);
    }
    let mut v: Vec<u8> = s.into_iter().collect();
    rng.shuffle(&mut v);
    v
}

/// A random parent map over <= 10 items without rho shapes: a forest (roots either self-parented or
/// absent from the map), sometimes with one pure cycle (which the code documents handling).
pub fn random_uf(rng: &mut Rng) -> Vec<(u8, u8)> {
    let n = 1 + rng.below(10);
    let mut items: Vec<u8> = (0..12u8).collect();
    rng.shuffle(&mut items);
    items.truncate(n);
    let mut pm: Vec<(u8, u8)> = vec![];
    let cyc = if n >= 3 && rng.chance(1, 4) { 2 + rng.below(n.min(4) - 1) } else { 0 };
    for i in 0..cyc {
        pm.push((items[i], items[(i + 1) % cyc]));
    }
    for i in cyc..n {
        // parent among earlier non-cycle items (keeps it a forest without tails into the cycle)
        let cands = &items[cyc..i];
        if cands.is_empty() || rng.chance(1, 4) {
            match rng.below(3) {
                0 => pm.push((items[i], items[i])),
                1 => {
                    // parent outside the key set
                    pm.push((items[i], 12 + rng.below(3) as u8));
                }
                _ => {}
            }
        } else {
            pm.push((items[i], *rng.choose(cands)));
        }
    }
    rng.shuffle(&mut pm);
    debug_assert!(!uf_has_rho(&pm));
    pm
}

/// Seeded random (larger) raw term.
pub fn random(sh: &Sh, rng: &mut Rng, depth: usize) -> R {
    match sh {
        Sh::Unit => R::Unit,
        Sh::Set => R::Set(random_set(rng)),
        Sh::Map(vs) => {
            let (dom, max) = if rng.chance(1, 2) { (3, 2) } else { (16, if depth == 0 { 6 } else { 3 }) };
            let n = rng.below(max + 1);
            let mut keys: BTreeSet<u8> = BTreeSet::new();
            for _ in 0..n {
                keys.insert(rng.below(dom) as u8);
            }
            let mut keys: Vec<u8> = keys.into_iter().collect();
            rng.shuffle(&mut keys);
            R::Map(keys.into_iter().map(|k| (k, random(vs, rng, depth + 1))).collect())
        }
        Sh::Num { kind, min } => {
            let (lo, hi) = (kind.lo(), kind.hi());
            let v = loop {
                let v = match rng.below(6) {
                    0 => lo,
                    1 => hi,
                    2 => lo + rng.below(4) as i128,
                    3 => hi - rng.below(4) as i128,
                    _ => {
                        let span = (hi - lo + 1) as u128;
                        lo + ((rng.next_u64() as u128 * 0x1_0000_0001u128 + rng.next_u64() as u128) % span) as i128
                    }
                };
                if kind.valid(v) {
                    break v;
                }
            };
            R::Num { v, kind: *kind, min: *min }
        }
        Sh::WithBot(x) => {
            if rng.chance(1, 5) { R::WithBot(None) } else { R::WithBot(Some(Box::new(random(x, rng, depth)))) }
        }
        Sh::WithTop(x) => {
            if rng.chance(1, 5) { R::WithTop(None) } else { R::WithTop(Some(Box::new(random(x, rng, depth)))) }
        }
        Sh::Tuple(xs) => R::Tuple(xs.iter().map(|x| random(x, rng, depth + 1)).collect()),
        Sh::Dom(k, v) => R::Dom(Box::new(random(k, rng, depth + 1)), Box::new(random(v, rng, depth + 1))),
        Sh::Vec(x) => {
            let n = rng.below(if depth == 0 { 6 } else { 3 });
            R::Vec((0..n).map(|_| random(x, rng, depth + 1)).collect())
        }
        Sh::Uf => R::Uf(random_uf(rng)),
        Sh::Conflict => {
            if rng.chance(1, 4) { R::Conflict(None) } else { R::Conflict(Some(rng.below(6) as u8)) }
        }
        Sh::Point => R::Point(rng.below(6) as u8),
    }
}

pub struct Universe {
    pub vals: Vec<R>,
    /// the bounded-exhaustive list was included completely
    pub exhaustive: bool,
}

/// `n` values for a shape: the exhaustive list if it fits into 3n/4 (otherwise a seeded sample of it
/// that always keeps the first and last entries), filled up with random larger values.
pub fn universe(sh: &Sh, n: usize, rng: &mut Rng) -> Universe {
    let ex = enumerate(sh, 0);
    let quota = (n * 3 / 4).max(1);
    let mut seen: BTreeSet<R> = BTreeSet::new();
    let mut vals = vec![];
    let exhaustive = ex.len() <= quota;
    if exhaustive {
        for r in ex {
            if seen.insert(r.clone()) {
                vals.push(r);
            }
        }
    } else {
        let mut idx: Vec<usize> = (1..ex.len() - 1).collect();
        rng.shuffle(&mut idx);
        idx.truncate(quota.saturating_sub(2));
        idx.push(0);
        idx.push(ex.len() - 1);
        idx.sort();
        for i in idx {
            if seen.insert(ex[i].clone()) {
                vals.push(ex[i].clone());
            }
        }
    }
    let mut tries = 0;
    while vals.len() < n && tries < n * 20 {
        tries += 1;
        let r = random(sh, rng, 0);
        if seen.insert(r.clone()) {
            vals.push(r);
        }
    }
    Universe { vals, exhaustive }
}
