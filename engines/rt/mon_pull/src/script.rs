//! Scripted building blocks shared by C11 and C13: `ScriptPull` (replays `Ready(item)|Pending|Ended`,
//! fused or not, honest `size_hint`, records polls after its end), scripted streams / futures whose
//! `Pending`s are placed by a shared *inner schedule*, a checking `Push` and `Sink`.
//!
//! Everything that can answer `Pending` bumps one shared counter (`Shared::pend`); the driver reads it
//! before and after every pull of the combinator under test (progress rule).

use std::cell::{Cell, RefCell};
use std::pin::Pin;
use std::rc::Rc;
use std::task::{Context as TaskCx, Poll};

use dfir_pipes::pull::{FusedPull, Pull, PullStep};
use dfir_pipes::push::{Push, PushStep};
use dfir_pipes::Yes;

/// One scripted event of an input. The end of the script is the (first) `Ended`.
#[derive(Clone, Copy, PartialEq, Eq, Hash, Debug)]
pub enum Ev {
    It(i32),
    Pend,
}

pub fn items_of(s: &[Ev]) -> Vec<i32> {
    s.iter().filter_map(|e| if let Ev::It(x) = e { Some(*x) } else { None }).collect()
}
pub fn pends_of(s: &[Ev]) -> usize {
    s.iter().filter(|e| matches!(e, Ev::Pend)).count()
}
/// A Pending strictly between two Ready of the same input.
pub fn pend_between_items(s: &[Ev]) -> bool {
    let first = s.iter().position(|e| matches!(e, Ev::It(_)));
    let last = s.iter().rposition(|e| matches!(e, Ev::It(_)));
    match (first, last) {
        (Some(a), Some(b)) if a < b => s[a..b].iter().any(|e| matches!(e, Ev::Pend)),
        _ => false,
    }
}

/// Value handed out by a non-fused script when it is polled again after its end.
pub const POISON: i32 = 77;

/// Counters shared by all scripted components of one case.
#[derive(Default)]
pub struct Shared {
    /// Number of `Pending` answers given by any scripted component (inputs, inner futures/streams,
    /// downstream push/sink).
    pub pend: Cell<u64>,
    /// Polls of input i / polls of input i after it first answered `Ended`.
    pub polls: [Cell<u32>; 2],
    pub post_end_polls: [Cell<u32>; 2],
    /// Inner schedule: the ordinal of the next non-pending inner answer, and the multiset of ordinals
    /// before which one `Pending` is injected.
    pub inner_ord: Cell<u32>,
    pub inner_pend: RefCell<Vec<u32>>,
    /// An inner future was polled again after it completed / an inner stream after `None`.
    pub inner_repoll: Cell<u32>,
    pub inner_created: Cell<u32>,
    /// Inner futures/streams dropped before they completed.
    pub inner_dropped_early: Cell<u32>,
}

impl Shared {
    pub fn new(inner_pend: &[u32]) -> Rc<Shared> {
        let s = Shared::default();
        *s.inner_pend.borrow_mut() = inner_pend.to_vec();
        Rc::new(s)
    }
    #[inline]
    pub fn bump_pend(&self) {
        self.pend.set(self.pend.get() + 1);
    }
    /// True = answer `Pending` now (one scheduled pending consumed), false = give the real answer.
    pub fn inner_gate(&self) -> bool {
        let o = self.inner_ord.get();
        let mut v = self.inner_pend.borrow_mut();
        if let Some(i) = v.iter().position(|&x| x == o) {
            v.swap_remove(i);
            self.bump_pend();
            true
        } else {
            self.inner_ord.set(o + 1);
            false
        }
    }
}

/// How a script reports its size hint (all modes are truthful).
#[inline]
fn hint(mode: u8, n: usize) -> (usize, Option<usize>) {
    match mode {
        0 => (n, Some(n)),
        1 => (n / 2, None),
        2 => (0, Some(n + 1)),
        _ => (n, None),
    }
}

// ---------------------------------------------------------------------------------------------
// ScriptPull

pub struct ScriptPull<T, const FUSED: bool> {
    evs: Vec<Option<T>>, // None = Pending
    pos: usize,
    left: usize,
    ended: bool,
    post: u32,
    idx: usize,
    mode: u8,
    poison: T,
    sh: Rc<Shared>,
}

impl<T: Clone, const FUSED: bool> ScriptPull<T, FUSED> {
    pub fn new(sh: &Rc<Shared>, idx: usize, script: &[Ev], mode: u8, conv: impl Fn(i32) -> T) -> Self {
        let evs: Vec<Option<T>> = script.iter().map(|e| if let Ev::It(x) = e { Some(conv(*x)) } else { None }).collect();
        let left = evs.iter().filter(|e| e.is_some()).count();
        ScriptPull { evs, pos: 0, left, ended: false, post: 0, idx, mode, poison: conv(POISON), sh: sh.clone() }
    }
}

impl<T, const FUSED: bool> Unpin for ScriptPull<T, FUSED> {}

impl<T: Clone, const FUSED: bool> Pull for ScriptPull<T, FUSED> {
    type Ctx<'ctx> = ();
    type Item = T;
    type Meta = ();
    type CanPend = Yes;
    type CanEnd = Yes;

    fn pull(self: Pin<&mut Self>, _ctx: &mut ()) -> PullStep<T, (), Yes, Yes> {
        let this = self.get_mut();
        let c = &this.sh.polls[this.idx];
        c.set(c.get() + 1);
        if this.pos < this.evs.len() {
            let e = this.evs[this.pos].clone();
            this.pos += 1;
            match e {
                Some(x) => {
                    this.left -= 1;
                    PullStep::Ready(x, ())
                }
                None => {
                    this.sh.bump_pend();
                    PullStep::Pending(Yes)
                }
            }
        } else if !this.ended {
            this.ended = true;
            PullStep::Ended(Yes)
        } else {
            let c = &this.sh.post_end_polls[this.idx];
            c.set(c.get() + 1);
            if FUSED {
                PullStep::Ended(Yes)
            } else {
                // implementation-defined behaviour after the end: hostile but panic-free
                this.post += 1;
                if this.post % 2 == 1 { PullStep::Ready(this.poison.clone(), ()) } else { PullStep::Ended(Yes) }
            }
        }
    }

    fn size_hint(&self) -> (usize, Option<usize>) {
        hint(self.mode, self.left)
    }
}

impl<T: Clone> FusedPull for ScriptPull<T, true> {}

// ---------------------------------------------------------------------------------------------
// ScriptStream: the same script as a futures Stream (used under pull::stream / stream_ready)

pub struct ScriptStream<const FUSED: bool> {
    evs: Vec<Ev>,
    pos: usize,
    left: usize,
    ended: bool,
    post: u32,
    idx: usize,
    mode: u8,
    sh: Rc<Shared>,
}

impl<const FUSED: bool> ScriptStream<FUSED> {
    pub fn new(sh: &Rc<Shared>, idx: usize, script: &[Ev], mode: u8) -> Self {
        ScriptStream { evs: script.to_vec(), pos: 0, left: items_of(script).len(), ended: false, post: 0, idx, mode, sh: sh.clone() }
    }
}

impl<const FUSED: bool> futures::Stream for ScriptStream<FUSED> {
    type Item = i32;
    fn poll_next(self: Pin<&mut Self>, _cx: &mut TaskCx<'_>) -> Poll<Option<i32>> {
        let this = self.get_mut();
        let c = &this.sh.polls[this.idx];
        c.set(c.get() + 1);
        if this.pos < this.evs.len() {
            let e = this.evs[this.pos];
            this.pos += 1;
            match e {
                Ev::It(x) => {
                    this.left -= 1;
                    Poll::Ready(Some(x))
                }
                Ev::Pend => {
                    this.sh.bump_pend();
                    Poll::Pending
                }
            }
        } else if !this.ended {
            this.ended = true;
            Poll::Ready(None)
        } else {
            let c = &this.sh.post_end_polls[this.idx];
            c.set(c.get() + 1);
            if FUSED {
                Poll::Ready(None)
            } else {
                this.post += 1;
                if this.post % 2 == 1 { Poll::Ready(Some(POISON)) } else { Poll::Ready(None) }
            }
        }
    }
    fn size_hint(&self) -> (usize, Option<usize>) {
        hint(self.mode, self.left)
    }
}

impl futures::stream::FusedStream for ScriptStream<true> {
    fn is_terminated(&self) -> bool {
        self.ended
    }
}

// ---------------------------------------------------------------------------------------------
// Inner stream / future: items fixed, Pendings placed by the shared inner schedule

pub struct GateStream {
    items: std::vec::IntoIter<i32>,
    done: bool,
    sh: Rc<Shared>,
}

impl GateStream {
    pub fn new(sh: &Rc<Shared>, items: Vec<i32>) -> Self {
        sh.inner_created.set(sh.inner_created.get() + 1);
        GateStream { items: items.into_iter(), done: false, sh: sh.clone() }
    }
}

impl futures::Stream for GateStream {
    type Item = i32;
    fn poll_next(self: Pin<&mut Self>, _cx: &mut TaskCx<'_>) -> Poll<Option<i32>> {
        let this = self.get_mut();
        if this.done {
            this.sh.inner_repoll.set(this.sh.inner_repoll.get() + 1);
            return Poll::Ready(Some(POISON));
        }
        if this.sh.inner_gate() {
            return Poll::Pending;
        }
        match this.items.next() {
            Some(x) => Poll::Ready(Some(x)),
            None => {
                this.done = true;
                Poll::Ready(None)
            }
        }
    }
    fn size_hint(&self) -> (usize, Option<usize>) {
        self.items.size_hint()
    }
}

impl Drop for GateStream {
    fn drop(&mut self) {
        if !self.done {
            self.sh.inner_dropped_early.set(self.sh.inner_dropped_early.get() + 1);
        }
    }
}

pub struct GateFuture<T> {
    out: Option<T>,
    done: bool,
    poison: T,
    sh: Rc<Shared>,
}

impl<T: Clone> GateFuture<T> {
    pub fn new(sh: &Rc<Shared>, out: T, poison: T) -> Self {
        sh.inner_created.set(sh.inner_created.get() + 1);
        GateFuture { out: Some(out), done: false, poison, sh: sh.clone() }
    }
}

impl<T> Unpin for GateFuture<T> {}

impl<T: Clone> Future for GateFuture<T> {
    type Output = T;
    fn poll(self: Pin<&mut Self>, _cx: &mut TaskCx<'_>) -> Poll<T> {
        let this = self.get_mut();
        if this.done {
            this.sh.inner_repoll.set(this.sh.inner_repoll.get() + 1);
            return Poll::Ready(this.poison.clone());
        }
        if this.sh.inner_gate() {
            return Poll::Pending;
        }
        this.done = true;
        Poll::Ready(this.out.take().unwrap())
    }
}

impl<T> Drop for GateFuture<T> {
    fn drop(&mut self) {
        if !self.done {
            self.sh.inner_dropped_early.set(self.sh.inner_dropped_early.get() + 1);
        }
    }
}

// ---------------------------------------------------------------------------------------------
// Downstream recorders for send_push / send_sink (never panic; judged afterwards)

#[derive(Default, Debug)]
pub struct DownLog {
    pub items: Vec<i32>,
    pub hints: Vec<(usize, Option<usize>)>,
    /// `start_send` without a `poll_ready -> Done` since the previous send.
    pub send_without_ready: u32,
    pub send_after_finalize: u32,
    pub finalize_done: u32,
    pub calls_after_finalize_done: u32,
    pub ready_polls: u32,
    pub finalize_polls: u32,
}

pub struct CheckPush {
    ready: bool,
    finalizing: bool,
    finalized: bool,
    sh: Rc<Shared>,
    pub log: Rc<RefCell<DownLog>>,
}

impl CheckPush {
    pub fn new(sh: &Rc<Shared>) -> (Self, Rc<RefCell<DownLog>>) {
        let log = Rc::new(RefCell::new(DownLog::default()));
        (CheckPush { ready: false, finalizing: false, finalized: false, sh: sh.clone(), log: log.clone() }, log)
    }
}

impl Push<i32, ()> for CheckPush {
    type Ctx<'ctx> = ();
    type CanPend = Yes;

    fn poll_ready(self: Pin<&mut Self>, _ctx: &mut ()) -> PushStep<Yes> {
        let this = self.get_mut();
        let mut l = this.log.borrow_mut();
        l.ready_polls += 1;
        if this.finalized {
            l.calls_after_finalize_done += 1;
        }
        if this.sh.inner_gate() {
            return PushStep::Pending(Yes);
        }
        this.ready = true;
        PushStep::Done
    }

    fn start_send(self: Pin<&mut Self>, item: i32, _meta: ()) {
        let this = self.get_mut();
        let mut l = this.log.borrow_mut();
        if !this.ready {
            l.send_without_ready += 1;
        }
        if this.finalizing {
            l.send_after_finalize += 1;
        }
        this.ready = false;
        l.items.push(item);
    }

    fn poll_finalize(self: Pin<&mut Self>, _ctx: &mut ()) -> PushStep<Yes> {
        let this = self.get_mut();
        let mut l = this.log.borrow_mut();
        l.finalize_polls += 1;
        if this.finalized {
            l.calls_after_finalize_done += 1;
        }
        this.finalizing = true;
        if this.sh.inner_gate() {
            return PushStep::Pending(Yes);
        }
        this.finalized = true;
        l.finalize_done += 1;
        PushStep::Done
    }

    fn size_hint(self: Pin<&mut Self>, hint: (usize, Option<usize>)) {
        self.get_mut().log.borrow_mut().hints.push(hint);
    }
}

pub struct CheckSink {
    ready: bool,
    closing: bool,
    closed: bool,
    sh: Rc<Shared>,
    pub log: Rc<RefCell<DownLog>>,
}

impl CheckSink {
    pub fn new(sh: &Rc<Shared>) -> (Self, Rc<RefCell<DownLog>>) {
        let log = Rc::new(RefCell::new(DownLog::default()));
        (CheckSink { ready: false, closing: false, closed: false, sh: sh.clone(), log: log.clone() }, log)
    }
}

impl futures::Sink<i32> for CheckSink {
    type Error = std::convert::Infallible;

    fn poll_ready(self: Pin<&mut Self>, _cx: &mut TaskCx<'_>) -> Poll<Result<(), Self::Error>> {
        let this = self.get_mut();
        let mut l = this.log.borrow_mut();
        l.ready_polls += 1;
        if this.closed {
            l.calls_after_finalize_done += 1;
        }
        if this.sh.inner_gate() {
            return Poll::Pending;
        }
        this.ready = true;
        Poll::Ready(Ok(()))
    }
    fn start_send(self: Pin<&mut Self>, item: i32) -> Result<(), Self::Error> {
        let this = self.get_mut();
        let mut l = this.log.borrow_mut();
        if !this.ready {
            l.send_without_ready += 1;
        }
        if this.closing {
            l.send_after_finalize += 1;
        }
        this.ready = false;
        l.items.push(item);
        Ok(())
    }
    fn poll_flush(self: Pin<&mut Self>, _cx: &mut TaskCx<'_>) -> Poll<Result<(), Self::Error>> {
        Poll::Ready(Ok(()))
    }
    fn poll_close(self: Pin<&mut Self>, _cx: &mut TaskCx<'_>) -> Poll<Result<(), Self::Error>> {
        let this = self.get_mut();
        let mut l = this.log.borrow_mut();
        l.finalize_polls += 1;
        if this.closed {
            l.calls_after_finalize_done += 1;
        }
        this.closing = true;
        if this.sh.inner_gate() {
            return Poll::Pending;
        }
        this.closed = true;
        l.finalize_done += 1;
        Poll::Ready(Ok(()))
    }
}
