pub fn run(_args: &vcommon::Args) {
    eprintln!("C13 not implemented yet");
    std::process::exit(3);
}
